"""Fourth-round rules for C31 (match statements).

C-side (Cython/Utility/MatchCase.c), lexical + path exploration with the statement parser / explorer of rules/pC17:
  C31-SENTINEL  a pointer that is handed to a callee as "default / not found" marker and then compared by identity with the callee's result
                is a freshly allocated object() on every definition (never a shared singleton, a parameter or another live object)
  C31-ABSENT    in the tri-state helpers (1 match / 0 no match / -1 error) a path on which absence was detected (sentinel came back,
                AttributeError/KeyError cleared) leaves with 0, a path that ran to completion leaves with 1, a path with a failed call leaves with -1
  C31-UNCHK     the result of a fallible API call is tested before it is handed to a function that dereferences it
  C31-NULLPATH  (pending finding, not registered) no path on which such a result is known to be NULL reaches a dereference

Python side (MatchCaseNodes.py), evaluation of the node-building methods on mock nodes by the checker's own evaluator (rules/pC28.MiniPy):
  C31-TPFLAGS   the compile-time type shortcuts (sequence check, mapping check, match-self) answer for a builtin type what the run-time test
                (tp_flags SEQUENCE / MAPPING / MATCH_SELF of the running interpreter's type) answers
  C31-PAIR      sub-pattern i is bound to / compared with sub-subject i in every method of the mapping, class and sequence patterns, also after validate_keys
  C31-ALTNUM    the number an OR pattern stores for the alternative that matched is the number its binding switch tests, and never the failure value 0
  C31-SEQ       sequence patterns: index of every sub-pattern, minimum length and length operator for every star position up to 4 sub-patterns
  C31-VALOP     value patterns compare with `is` exactly for the constants the parser marks (None/True/False), with == otherwise
  C31-REFACTOR  MatchNode.refactor_cases keeps the cases in source order and keeps pattern, guard and body of every case
  C31-EXIT      every case emitter jumps to the end label of the match statement after the body of a case that matched
"""
import ast, builtins, itertools, re

from ..core import Rule, AnalysisError, node_src
from ..engine.cutil import split_args, match_paren
from ..engine.pyindex import walk_no_nested, is_self_attr
from . import pC17 as P
from . import pC28 as H
from .pC28 import MiniPy, NS, OPQ, Env, Closure, Raised, Stopped, Unsupported, Undecidable, NOT_HANDLED

CFILE = 'MatchCase.c'
MOD = 'MatchCaseNodes'

CAST = re.compile(r'\(\s*(?:const\s+)?(?:struct\s+)?[A-Za-z_]\w*\s*\*+\s*\)')


def c_funcs(ctx, file=CFILE):
    out = []
    for name, decls in ctx.cat.decls.items():
        for d in decls:
            if d.file == file and d.kind == 'func' and d.body:
                out.append(d)
    if file == CFILE and len(out) < 12:
        raise AnalysisError('only %d function definitions found in %s' % (len(out), file))
    return sorted(out, key=lambda d: d.line)


def strip_casts(text):
    return CAST.sub(' ', text)


# ====================================================================================================== preprocessor / Tempita variants
PP_IF = re.compile(r'^\s*#\s*(if|ifdef|ifndef)\b(.*)$')
PP_ELIF = re.compile(r'^\s*#\s*elif\b(.*)$')
PP_ELSE = re.compile(r'^\s*#\s*else\b')
PP_ENDIF = re.compile(r'^\s*#\s*endif\b')
TP_IF = re.compile(r'^\s*\{\{\s*if\b(.*)\}\}\s*$')
TP_ELIF = re.compile(r'^\s*\{\{\s*elif\b(.*)\}\}\s*$')
TP_ELSE = re.compile(r'^\s*\{\{\s*else\s*\}\}\s*$')
TP_END = re.compile(r'^\s*\{\{\s*endif\s*\}\}\s*$')


def _groups(lines):
    """lines -> tree: list of str | ('alt', [(cond text, subtree), ...], has_else)"""
    pos = 0

    def block(stop):
        nonlocal pos
        out = []
        while pos < len(lines):
            ln = lines[pos]
            if any(r.match(ln) for r in stop):
                return out
            m = PP_IF.match(ln) or TP_IF.match(ln)
            if m:
                tp = bool(TP_IF.match(ln))
                elif_r, else_r, end_r = (TP_ELIF, TP_ELSE, TP_END) if tp else (PP_ELIF, PP_ELSE, PP_ENDIF)
                arms, has_else = [], False
                cond = ' '.join(ln.split())
                pos += 1
                while True:
                    body = block((elif_r, else_r, end_r))
                    arms.append((cond, body))
                    if pos >= len(lines):
                        raise AnalysisError('unterminated conditional block in C text (%s)' % cond)
                    ln2 = lines[pos]
                    pos += 1
                    if end_r.match(ln2):
                        break
                    if else_r.match(ln2):
                        has_else = True
                        cond = 'else'
                    else:
                        cond = ' '.join(ln2.split())
                out.append(('alt', arms, has_else))
                continue
            out.append(ln)
            pos += 1
        return out
    tree = block(())
    return tree


def _expand(tree, limit=256):
    """tree -> list of (choice tuple, text)"""
    outs = [((), [])]
    for item in tree:
        if isinstance(item, str):
            for _, buf in outs:
                buf.append(item)
            continue
        _, arms, has_else = item
        alts = []
        for cond, sub in arms:
            for ch, txt in _expand(sub, limit):
                alts.append(((cond,) + ch, txt))
        if not has_else:
            alts.append((('not:' + arms[0][0],), ''))
        new = []
        for ch0, buf in outs:
            for ch, txt in alts:
                new.append((ch0 + ch, buf + [txt]))
        outs = new
        if len(outs) > limit:
            raise AnalysisError('more than %d preprocessor variants of one C function' % limit)
    return [(ch, '\n'.join(buf)) for ch, buf in outs]


def variants(body):
    """All #if / Tempita-if variants of a function body (each conditional group contributes one arm)."""
    lines = [l for l in body.split('\n')]
    out = []
    for ch, text in _expand(_groups(lines)):
        # other preprocessor lines (#define, #undef, #pragma) and Tempita expression markers are irrelevant for the control flow
        text = '\n'.join(l for l in text.split('\n') if not re.match(r'^\s*#', l))
        text = re.sub(r'\{\{[^}]*\}\}', 'TEMPITA', text)
        out.append((ch, text))
    return out


def balanced(text):
    depth = 0
    for c in text:
        if c == '{':
            depth += 1
        elif c == '}':
            depth -= 1
            if depth < 0:
                return False
    return depth == 0


_EXPLORED = {}


def explore(body):
    """-> [(variant choices, [(state, exit)])]; variants whose text does not parse are skipped with a note."""
    if body in _EXPLORED:
        return _EXPLORED[body]
    results, notes = [], []
    for ch, text in variants(body):
        text = strip_casts(text)
        if not balanced(text):
            notes.append('variant %s: unbalanced braces' % (ch,))
            continue
        try:
            top = P.parse_body(text)
            paths = P.Explorer(top).function()
        except (P.Unmodelled, AnalysisError) as e:
            notes.append('variant %s: %s' % (ch, e))
            continue
        results.append((ch, paths))
    if len(_EXPLORED) > 200:
        _EXPLORED.clear()
    _EXPLORED[body] = (results, notes)
    return results, notes


def timeline(state):
    """facts and events of one path merged by their sequence number: [('fact', text, truth) | (kind, text, extra)]"""
    items = [(q, ('fact', t, v)) for t, v, q in state.facts] + [(q, (k, t, x)) for k, t, x, q in state.events]
    return [it for _, it in sorted(items, key=lambda p: p[0])]


_HELD = {}


def _held_test(rhs):
    """rhs text of an assignment -> (normalised text, identifiers read) when it is a call / comparison whose truth a flag can hold, else None"""
    if rhs not in _HELD:
        res = None
        if '(' in rhs or '=' in rhs or '<' in rhs or '>' in rhs:
            try:
                e = P._parse(rhs)
                if P._strip(e)[0] in ('call', 'bin'):
                    res = (P.show(e), {x[1] for x in P._cx.walk(e) if x[0] == 'id'})
            except Exception:
                res = None
        if len(_HELD) > 5000:
            _HELD.clear()
        _HELD[rhs] = res
    return _HELD[rhs]


def with_flag_facts(items):
    """timeline items, plus — for a fact about a local that holds the unchanged result of a test (`int is_x = TEST(o); if (is_x)`) — the same fact about TEST(o)"""
    held = {}
    for it in items:
        yield it
        if it[0] == 'write':
            held.pop(it[1], None)
            for v in [v for v, (txt, ids) in held.items() if it[1] in ids]:
                del held[v]
            if isinstance(it[2], tuple) and it[2][0] == '=' and re.fullmatch(WORD, it[1] or ''):
                h = _held_test(it[2][1])
                if h is not None:
                    held[it[1]] = h
        elif it[0] == 'fact' and isinstance(it[2], bool) and it[1] in held:
            yield ('fact', held[it[1]][0], it[2])


# ====================================================================================================== C31-SENTINEL
FRESH_PLAIN = {'PyList_New', 'PyDict_New', 'PyObject_New', '_PyObject_New', 'PyCapsule_New'}
FRESH_CALL_OBJECT = {'PyObject_CallObject', 'PyObject_CallNoArgs', '__Pyx_PyObject_CallNoArg', 'PyObject_CallFunctionObjArgs', 'PyObject_CallFunction', '_PyObject_CallNoArgs'}
WORD = r'[A-Za-z_]\w*'


def pointer_locals(body):
    """names declared `PyObject *x` (also in comma lists, with initialisers) in the body"""
    out = set()
    for m in re.finditer(r'\bPyObject\s*(?=\*)', body):
        j = k = m.end()
        depth = 0
        while k < len(body):
            c = body[k]
            if c in '([{':
                depth += 1
            elif c in ')]}':
                if depth == 0:
                    break
                depth -= 1
            elif c == ';' and depth == 0:
                break
            k += 1
        for part in split_args(body[j:k]):
            mm = re.match(r'\s*\*\s*(%s)\s*(=|$)' % WORD, part.strip() + ' ')
            if mm:
                out.add(mm.group(1))
    return out


def assignments_of(body, name):
    """[(rhs text, offset)] of `name = rhs;` (declaration initialisers included)"""
    out = []
    for m in re.finditer(r'(?<![\w>.])%s\s*=(?!=)' % re.escape(name), body):
        j = m.end()
        depth = 0
        k = j
        while k < len(body):
            c = body[k]
            if c in '([{':
                depth += 1
            elif c in ')]}':
                if depth == 0:
                    break
                depth -= 1
            elif c in ';,' and depth == 0:
                break
            k += 1
        out.append((' '.join(body[j:k].split()), m.start()))
    return out


def array_initialisers(body):
    """array name -> initialiser text for `T *name[] = { ... }`"""
    return {m.group(1): m.group(2) for m in re.finditer(r'(%s)\s*\[\s*\]\s*=\s*\{([^}]*)\}' % WORD, body)}


def _mentions(text, name):
    return re.search(r'(?<![\w>.])%s\b' % re.escape(name), text) is not None


def sentinels(d):
    """[(sentinel var, result var, callee names)] of function d"""
    body = strip_casts(d.body)
    ptrs = pointer_locals(body) | {n for n, t in zip(d.param_names(), d.param_types()) if n and '*' in t}
    arrays = array_initialisers(body)
    found = {}
    for m in re.finditer(r'(?<![\w>.])(%s)\s*(==|!=)\s*(%s)\b(?!\s*[(\[.>-])' % (WORD, WORD), body):
        a, b = m.group(1), m.group(3)
        if a not in ptrs or b not in ptrs or a == b:
            continue
        for v, s in ((a, b), (b, a)):
            callees = []
            for rhs, _ in assignments_of(body, v):
                cm = re.match(r'(%s)\s*\(' % WORD, rhs)
                if not cm:
                    continue
                direct = _mentions(rhs[cm.end():], s)
                via = any(_mentions(rhs[cm.end():], arr) and _mentions(init, s) for arr, init in arrays.items())
                if direct or via:
                    callees.append(cm.group(1))
            if callees:
                found[(s, v)] = sorted(set(callees))
    return [(s, v, c) for (s, v), c in sorted(found.items())], body, ptrs


def fresh_problem(rhs):
    """None when rhs creates a fresh, unshared object; else the reason"""
    r = rhs.strip()
    m = re.match(r'(%s)\s*\((.*)\)$' % WORD, r, re.S)
    if not m:
        return '`%s` is not an allocation' % r
    fn, args = m.group(1), [a.strip() for a in split_args(m.group(2))]
    if fn in FRESH_PLAIN:
        return None
    if fn == 'PySet_New' and args == ['NULL']:
        return None
    if fn in FRESH_CALL_OBJECT:
        if args and re.fullmatch(r'&\s*PyBaseObject_Type', args[0]) and all(a in ('NULL', '0') for a in args[1:]):
            return None
        return '`%s` calls %s, which need not return a new object' % (r, args[0] if args else '?')
    return '`%s` is not known to create a new object' % r


def rule_sentinel(ctx, floor=1):
    r = Rule('C31-SENTINEL', 'a "not found" marker (pointer passed to a callee and compared by identity with its result) is a freshly allocated object() on every '
             'definition, never a shared singleton (None, NotImplemented, ...), a parameter or another live object', floor)
    rel = 'Cython/Utility/' + CFILE
    for d in c_funcs(ctx):
        sents, body, ptrs = sentinels(d)
        params = set(n for n in d.param_names() if n)
        for s, v, callees in sents:
            key = '%s:%s:absent-marker' % (CFILE, d.name)
            defs = [(rhs, off) for rhs, off in assignments_of(body, s) if rhs not in ('NULL', '0')]
            r.inst(key, sample='%s: %s = %s(..., %s); %s == %s; definitions of %s: %s' % (d.name, v, '/'.join(callees), s, v, s, s, [x for x, _ in defs]))
            if s in params and not defs:
                r.violate(key, rel, d.line, '%s passes its parameter %s to %s as the "not found" marker and compares the result with it: the caller\'s object can be a '
                          'legitimate value, a key holding it looks missing' % (d.name, s, '/'.join(callees)))
                continue
            if not defs:
                r.violate(key, rel, d.line, '%s compares the result of %s with %s, which is never set to an object' % (d.name, '/'.join(callees), s))
                continue
            for rhs, off in defs:
                p = fresh_problem(rhs)
                if p:
                    r.violate(key, rel, d.line + body.count('\n', 0, off),
                              '%s uses %s as the "not found" marker for %s(...) and tests `%s == %s`, but %s: a key that is present with exactly that object as its value is '
                              'treated as missing (CPython\'s match_keys uses a fresh object())' % (d.name, s, '/'.join(callees), v, s, p))
                    break
    pc = CDeclMock('f', ['PyObject *m', 'PyObject *k'],
                   '{ PyObject *dummy=NULL, *value; dummy = Py_None; Py_INCREF(dummy); value = call2(m, k, dummy); if (value == dummy) { return 0; } return 1; }')
    pg = CDeclMock('f', ['PyObject *m', 'PyObject *k'],
                   '{ PyObject *mark, *v; mark = PyObject_CallObject((PyObject *)&PyBaseObject_Type, NULL); { PyObject *args[] = {m, k, mark}; v = vcall(m, args, 3); } if (mark != v) return 1; return 0; }')
    s1, b1, _ = sentinels(pc)
    s2, b2, _ = sentinels(pg)
    ok = (len(s1) == 1 and s1[0][0] == 'dummy' and fresh_problem(assignments_of(b1, 'dummy')[1][0]) is not None and
          len(s2) == 1 and s2[0][0] == 'mark' and fresh_problem(assignments_of(b2, 'mark')[0][0]) is None)
    r.positive_control(ok, 'Py_None as get() default recognised as a shared marker; object() through an argument array accepted')
    return r


class CDeclMock:
    def __init__(self, name, params, body, line=1, ret='int'):
        self.name, self.params, self.body, self.line, self.ret = name, params, body, line, ret

    def param_names(self):
        return [re.search(r'(%s)\s*(?:\[[^\]]*\])?\s*$' % WORD, p).group(1) for p in self.params]

    def param_types(self):
        return [re.sub(r'%s\s*(?:\[[^\]]*\])?\s*$' % WORD, '', p) + ('*' if p.rstrip().endswith(']') else '') for p in self.params]


# ====================================================================================================== NULL results of fallible calls
# CPython C-API functions documented as "Return value: New reference. ... Returns NULL on failure" (and Cython wrappers that forward to them).
# Borrowed-reference getters and the *NoError / Optional variants are deliberately absent: a NULL from them is not an error.
FALLIBLE = {
    'PyObject_GetAttr', 'PyObject_GetAttrString', 'PyObject_CallObject', 'PyObject_Call', 'PyObject_CallNoArgs', 'PyObject_CallOneArg',
    'PyObject_CallFunctionObjArgs', 'PyObject_CallMethodObjArgs', 'PyObject_Vectorcall', 'PyObject_GetItem', 'PyObject_GetIter', 'PyObject_Repr', 'PyObject_Str',
    'PyImport_ImportModule', 'PyImport_Import', 'PySet_New', 'PyFrozenSet_New', 'PyList_New', 'PyDict_New', 'PyDict_Copy', 'PyTuple_New', 'PyList_GetSlice',
    'PyTuple_GetSlice', 'PySequence_GetItem', 'PySequence_List', 'PySequence_Tuple', 'PyUnicode_FromString', 'PyLong_FromSsize_t', 'PyLong_FromLong',
    '__Pyx_PyObject_Call2Args', '__Pyx_PyObject_CallOneArg', '__Pyx_PyObject_CallNoArg', '__Pyx_PyObject_Call', '__Pyx_PyObject_GetAttrStr', '__Pyx_PyList_FromArray',
    '__Pyx_PyObject_FastCall', '__Pyx_PyObject_CallMethod1',
}
NULL_SAFE = {'Py_XDECREF', 'Py_XINCREF', 'Py_CLEAR', 'Py_XSETREF', '__Pyx_XDECREF', '__Pyx_XDECREF_SET', '__Pyx_XGOTREF', '__Pyx_XGIVEREF', '__Pyx_XINCREF', '__Pyx_XCLEAR',
             '__Pyx_GOTREF', '__Pyx_GIVEREF', 'CYTHON_UNUSED_VAR', 'CYTHON_MAYBE_UNUSED_VAR', 'likely', 'unlikely'}
ERR_CLEAR = {'PyErr_Clear', '__Pyx_PyErr_Clear', 'PyErr_Restore', 'PyErr_SetString', 'PyErr_Format', 'PyErr_SetObject'}


def _const_value(expr, state):
    e = expr.strip()
    m = re.fullmatch(r'\(?\s*(-?\d+)\s*\)?', e)
    if m:
        return int(m.group(1))
    if e == 'NULL':
        return 0
    if re.fullmatch(WORD, e):
        v = state.env.get(e)
        if v and v[0] == 'const':
            return v[1]
    return None


def null_flow(d, paths_by_variant):
    """-> (tracked results, problems) ; problems = {(kind, var, callee, sink): message}"""
    is_ptr = '*' in (d.ret or '')
    errval = 0 if is_ptr else -1
    tracked, problems = set(), {}
    for ch, paths in paths_by_variant:
        for state, ex in paths:
            status, pending = {}, None
            known_null = set()
            for it in timeline(state):
                kind = it[0]
                if kind == 'fact' and isinstance(it[2], bool) and re.fullmatch(WORD, it[1] or ''):
                    (known_null.add if it[2] is False else known_null.discard)(it[1])
                if kind == 'write':
                    var, extra = it[1], it[2]
                    status.pop(var, None)
                    known_null.discard(var)
                    if isinstance(extra, tuple) and extra[0] == '=':
                        cm = re.match(r'(%s)\s*\(' % WORD, extra[1])
                        if cm and cm.group(1) in FALLIBLE and re.fullmatch(WORD, var):
                            status[var] = ['unchecked', cm.group(1)]
                            tracked.add((var, cm.group(1)))
                elif kind == 'fact':
                    var, truth = it[1], it[2]
                    if var in status and isinstance(truth, bool) and status[var][0] == 'unchecked':
                        status[var][0] = 'ok' if truth else 'null'
                        if not truth:
                            pending = (var, status[var][1])
                elif kind == 'call':
                    fname, args = it[1], it[2] or []
                    for a in args:
                        m = re.fullmatch(r'\*\s*(%s)' % WORD, a.strip())
                        if m and m.group(1) in known_null:
                            k = ('UNCHK', m.group(1), 'NULL test', fname)
                            problems.setdefault(k, 'the pointer `%s` was tested and found NULL on this path, yet it is dereferenced in %s(%s)' % (m.group(1), fname, ', '.join(args)))
                    if fname in ERR_CLEAR or 'IgnoreException' in fname or 'Raise' in fname:
                        # the failure was handled: from here on NULL is a value the function chose to live with ("attribute absent")
                        pending = None
                        for v in status.values():
                            if v[0] == 'null':
                                v[0] = 'absent'
                    if fname in NULL_SAFE:
                        continue
                    for a in args:
                        a = a.strip()
                        if a in status and status[a][0] in ('null', 'unchecked'):
                            k = ('NULLPATH' if status[a][0] == 'null' else 'UNCHK', a, status[a][1], fname)
                            problems.setdefault(k, 'the result `%s` of %s(...) is %s when it reaches %s(%s)' % (
                                a, status[a][1], 'known to be NULL (the call failed)' if status[a][0] == 'null' else 'not tested for NULL', fname, ', '.join(args)))
            if pending is not None and ex[0] == 'return':
                v = _const_value(ex[1], state)
                if v is not None and v != errval:
                    k = ('ERRRET', pending[0], pending[1], 'return %s' % ex[1])
                    problems.setdefault(k, 'after %s(...) failed (`%s` is NULL, exception set, not cleared) a path returns %s instead of the error value %s' % (
                        pending[1], pending[0], v, 'NULL' if is_ptr else '-1'))
    return tracked, problems


def _null_rule(ctx, rid, desc, kinds, floor):
    r = Rule(rid, desc, floor)
    rel = 'Cython/Utility/' + CFILE
    for d in c_funcs(ctx):
        res, notes = explore(d.body)
        for n in notes:
            r.info('%s: %s' % (d.name, n))
        if not res:
            r.info('%s: no variant could be explored' % d.name)
            continue
        tracked, problems = null_flow(d, res)
        for var, callee in sorted(tracked):
            r.inst('%s:%s:%s=%s' % (CFILE, d.name, var, callee), sample='%s: %s = %s(...)' % (d.name, var, callee))
        for (kind, var, callee, sink), msg in sorted(problems.items()):
            if kind in kinds:
                r.violate('%s:%s:%s=%s:%s' % (CFILE, d.name, var, callee, sink.split('(')[0].replace(' ', '_')), rel, d.line,
                          '%s: %s — %s' % (d.name, msg, 'NULL pointer dereference / the helper reports a result while an exception is set'))
    return r


NULL_PC_BAD = '''{
    PyObject *attr;
    attr = PyObject_GetAttr(subject, name);
    if (attr == NULL && PyErr_ExceptionMatches(PyExc_AttributeError)) { PyErr_Clear(); return 0; }
    Py_DECREF(attr);
    return 1;
}'''
NULL_PC_UNCHK = '''{
    PyObject *get;
    get = PyObject_GetAttr(mapping, name);
    value = __Pyx_PyObject_Call2Args(get, key, dummy);
    return 1;
}'''
NULL_PC_GOOD = '''{
    PyObject *attr;
    attr = PyObject_GetAttr(subject, name);
    if (attr == NULL) { if (PyErr_ExceptionMatches(PyExc_AttributeError)) { PyErr_Clear(); return 0; } return -1; }
    Py_DECREF(attr);
    return 1;
}'''


def _pc_kinds(body):
    d = CDeclMock('f', ['PyObject *subject', 'PyObject *name'], body)
    res, _ = explore(body)
    return {k[0] for k in null_flow(d, res)[1]}


def rule_unchecked(ctx, floor=14):
    r = _null_rule(ctx, 'C31-UNCHK', 'the result of a fallible C-API call (new reference or NULL with an exception set) is tested before it is passed to a function that '
                   'dereferences it (path exploration of every MatchCase.c helper, every #if / Tempita variant)', {'UNCHK'}, floor)
    r.positive_control('UNCHK' in _pc_kinds(NULL_PC_UNCHK) and not _pc_kinds(NULL_PC_GOOD), 'unchecked PyObject_GetAttr result passed on; fully checked variant accepted')
    return r


def rule_nullpath(ctx, floor=14):
    """pending finding (FINDING_1): fires on __Pyx__MatchCase_ClassPositional of the unmodified tree"""
    r = _null_rule(ctx, 'C31-NULLPATH', 'no path on which a fallible C-API call is known to have failed reaches a dereference of its result or returns a non-error value '
                   'while the exception is still set', {'NULLPATH', 'ERRRET'}, floor)
    r.positive_control({'NULLPATH', 'ERRRET'} <= _pc_kinds(NULL_PC_BAD) | {'ERRRET'} and 'NULLPATH' in _pc_kinds(NULL_PC_BAD) and not _pc_kinds(NULL_PC_GOOD),
                       '`x == NULL && matches(AttributeError)` lets the other failures fall through to Py_DECREF(x)')
    return r


# ====================================================================================================== symbolic evaluation of MatchCaseNodes.py
class CNS(NS):
    """mock object that may also be called (`Transform(None, {})(tree)`): the call result is opaque"""

    def __call__(self, *a, **k):
        return OPQ


class Interp(MiniPy):
    """MiniPy whose builtins / list methods accept evaluated lambdas as key= functions (sorted(..., key=lambda ...), list.sort(key=...))"""

    def apply(self, f, args, kwargs, n=None):
        if kwargs and not isinstance(f, Closure) and any(isinstance(v, Closure) for v in kwargs.values()):
            kwargs = {k: (self._wrap(v) if isinstance(v, Closure) else v) for k, v in kwargs.items()}
        return MiniPy.apply(self, f, args, kwargs, n)

    def _wrap(self, c):
        return lambda *a: self.call_closure(c, list(a), {})

    sym = None

    def e_Attribute(self, n, env):
        """set.remove / set.clear (not in MiniPy's whitelist); everything else as in MiniPy"""
        if n.attr not in ('remove', 'clear'):
            return MiniPy.e_Attribute(self, n, env)
        v = self.eval(n.value, env)
        if isinstance(v, set):
            def op(*a):
                try:
                    return getattr(v, n.attr)(*a)
                except KeyError as e:
                    raise Raised('KeyError: %s' % e, n)
            return op
        if isinstance(v, list):
            return H._Bound(v, n.attr)
        if isinstance(v, NS):
            if n.attr in v.__dict__:
                return v.__dict__[n.attr]
            ga = v.__dict__.get('_getattr')
            return ga(n.attr) if ga is not None else OPQ
        return OPQ

    def s_With(self, s, env):
        """like MiniPy.s_With, but `with cm() as x` binds what the mock's _enter returns (when it returns something)"""
        exits = []
        for item in s.items:
            v = self.eval(item.context_expr, env)
            entered = v
            if isinstance(v, NS) and callable(v.__dict__.get('_enter')):
                res = v.__dict__['_enter']()
                if res is not None:
                    entered = res
            if isinstance(v, NS) and callable(v.__dict__.get('_exit')):
                exits.append(v.__dict__['_exit'])
            if item.optional_vars is not None:
                self.assign(item.optional_vars, entered, env)
        try:
            self.exec_block(s.body, env)
        finally:
            for f in reversed(exits):
                f()

    def s_Try(self, s, env):
        """try/except of the evaluated code: an exception the evaluated code raises (Raised) is matched against the handler types by name"""
        try:
            try:
                self.exec_block(s.body, env)
            except Raised as r:
                kind = r.what.split(':')[0].strip().replace('raise ', '').split('(')[0]
                for h in s.handlers:
                    names = [] if h.type is None else [node_src(x, 40).split('.')[-1] for x in (h.type.elts if isinstance(h.type, ast.Tuple) else [h.type])]
                    if h.type is None or kind in names or 'Exception' in names or 'BaseException' in names:
                        if h.name:
                            env.set(h.name, NS('exc', _ctor=kind))
                        self.exec_block(h.body, env)
                        break
                else:
                    raise
            else:
                self.exec_block(s.orelse, env)
        finally:
            self.exec_block(s.finalbody, env)

    def s_ImportFrom(self, s, env):
        """function-local `from .X import SomeNode`: node classes are resolved through the index so that isinstance() on mock nodes is decidable"""
        for a in s.names:
            v = OPQ
            if self.sym is not None and s.module:
                mod = self.sym.ix.mod(s.module.split('.')[-1])
                c = mod.classes.get(a.name) if mod is not None else None
                if c is not None and c.outer is None:
                    v = self.sym.class_ns(c)
            elif self.sym is not None and not s.module:
                mod = self.sym.ix.mod(a.name)          # `from . import UtilNodes`
                if mod is not None:
                    v = NS('module ' + a.name, _mod=mod)
                    v.__dict__['_getattr'] = self.sym._module_getattr(mod)
            env.set(a.asname or a.name, v)


class Sym:
    """Runs methods of MatchCaseNodes.py inside the checker (MiniPy) on mock nodes.  Node constructors build mock objects (NS) that keep their
    keyword arguments, so the *tree a method builds* can be inspected; methods of the class under test are dispatched through the class graph
    of the index; everything else is opaque.  Nothing from the repository is imported or executed by the interpreter running the checker."""

    def __init__(self, ctx, mod=MOD):
        self.ctx, self.ix = ctx, ctx.index
        self.m = self.ix.mod(mod)
        if self.m is None:
            raise AnalysisError('module %s vanished' % mod)
        self.modname = mod
        self.intercept = {}         # function / method name -> callable(args, kwargs): answered by the rule instead of being evaluated
        self.glob = H.module_globals(self.ix, self.m)
        for v in list(self.glob.values()):
            if isinstance(v, NS) and v.__dict__.get('_mod') is not None:
                v.__dict__['_getattr'] = self._module_getattr(v.__dict__['_mod'])
        self._class_ns = {}
        self._enum_ns = {}
        for alias in self.m.imports:
            r = self.ix.resolve_name(self.m, alias)
            if r and r[0] == 'class':
                self.glob[alias] = self.class_ns(r[1])
        for name, c in self.m.classes.items():
            if c.outer is None:
                self.glob[name] = self.class_ns(c)
        for name, fdef in self.m.functions.items():
            self.glob[name] = self._function(fdef)
        for name, node in self.m.bindings.items():
            # module-level sentinels `MISSING = _MISSING_TYPE()`
            if isinstance(node, ast.Call) and isinstance(node.func, ast.Name) and node.func.id in self.m.classes and not node.args and not node.keywords:
                self.glob[name] = NS('sentinel ' + name, _sentinel=name)
        self.glob['operator'] = NS('module operator', attrgetter=lambda name: (lambda o: self._getattr(o, name)), itemgetter=lambda i: (lambda o: o[i]))
        self.glob['isinstance'] = self._isinstance
        self.glob['getattr'] = self._getattr
        self.glob['hasattr'] = lambda o, n: (self._getattr(o, n, None) is not None)
        self.glob['super'] = lambda *a: NS('super')
        self.glob['type'] = lambda o: self.class_ns(o.__dict__['_cls']) if isinstance(o, NS) and o.__dict__.get('_cls') is not None else OPQ
        self.errors = []
        self.builtin_type_names = self._builtin_type_names()

    # ---------------------------------------------------------------- tables read from other modules
    def _builtin_type_names(self):
        """Builtin.<x>_type -> name of the Python builtin, from `x_type = builtin_scope.lookup('name').type` in Builtin.py"""
        bm = self.ix.mod('Builtin')
        out = {}
        if bm is not None:
            for n in ast.walk(bm.tree):
                if isinstance(n, ast.Assign) and len(n.targets) == 1 and isinstance(n.targets[0], ast.Name) and isinstance(n.value, ast.Attribute) and n.value.attr == 'type':
                    c = n.value.value
                    if isinstance(c, ast.Call) and isinstance(c.func, ast.Attribute) and c.func.attr == 'lookup' and len(c.args) == 1 and isinstance(c.args[0], ast.Constant):
                        out[n.targets[0].id] = c.args[0].value
        return out

    def _module_getattr(self, mod):
        def ga(name):
            c = mod.classes.get(name)
            if c is not None and c.outer is None:
                return self.class_ns(c)
            if mod.short == 'Builtin' and name in self.builtin_type_names:
                return self.builtin_token(self.builtin_type_names[name])
            if mod.short == 'PyrexTypes' and name.endswith('_type') and name in mod.bindings:
                # type singletons (py_object_type, c_int_type ...): one token each, good for identity tests only
                k = ('pyrex', name)
                if k not in self._class_ns:
                    self._class_ns[k] = NS('PyrexTypes.' + name, _type_singleton=name)
                return self._class_ns[k]
            return OPQ
        return ga

    def builtin_token(self, pyname):
        k = ('builtin', pyname)
        if k not in self._class_ns:
            self._class_ns[k] = NS('Builtin.%s' % pyname, _builtin=pyname)
        return self._class_ns[k]

    def class_ns(self, c):
        if id(c) not in self._class_ns:
            o = NS('class ' + c.name, _classinfo=c)
            o.__dict__['_getattr'] = lambda name, c=c, o=o: self.member(None, c, name, clsobj=o)
            self._class_ns[id(c)] = o
        return self._class_ns[id(c)]

    def enum_ns(self, owner, node):
        k = (id(owner), node.name)
        if k not in self._enum_ns:
            members = {}
            for s in node.body:
                if isinstance(s, ast.Assign) and len(s.targets) == 1 and isinstance(s.targets[0], ast.Name):
                    members[s.targets[0].id] = NS('%s.%s' % (node.name, s.targets[0].id), _enum=node.name, _member=s.targets[0].id)
            self._enum_ns[k] = NS('enum ' + node.name, **members)
        return self._enum_ns[k]

    # ---------------------------------------------------------------- objects and members
    def cls(self, name):
        c = self.m.classes.get(name)
        if c is None:
            raise AnalysisError('%s.%s vanished' % (self.modname, name))
        return c

    def obj(self, cname, **kw):
        c = self.cls(cname) if isinstance(cname, str) else cname
        o = NS(c.name, _ctor=c.name, _cls=c, **kw)
        o.__dict__['_getattr'] = lambda name: self.member(o, c, name)
        return o

    def method(self, c, name):
        r = self.ix.find_method(c, name)
        if r is None:
            raise AnalysisError('%s.%s vanished' % (c.name, name))
        return r

    def member(self, o, c, name, clsobj=None):
        r = self.ix.find_method(c, name)
        if r is not None:
            owner, fn = r
            decos = {node_src(d, 30) for d in fn.decorator_list}
            if 'property' in decos:
                return OPQ
            if owner.module is not self.m:
                return lambda *a, **k: OPQ
            if 'classmethod' in decos:
                return lambda *a, **k: self.call(fn, [clsobj if clsobj is not None else self.class_ns(c)] + list(a), k)
            if 'staticmethod' in decos:
                return lambda *a, **k: self.call(fn, list(a), k)
            if o is None:
                return lambda *a, **k: self.call(fn, list(a), k)
            return lambda *a, **k: self.call(fn, [o] + list(a), k)
        a = self.ix.find_class_attr(c, name)
        if a is not None and isinstance(a[1], ast.AST):
            if isinstance(a[1], ast.ClassDef):
                return self.enum_ns(a[0], a[1])
            if isinstance(a[1], ast.FunctionDef):
                return OPQ
            try:
                it = Interp(self.glob, hook=self.hook)
                return it.eval(a[1], Env(None, it.globals))
            except (Unsupported, Raised, Undecidable, Stopped):
                return OPQ
        return OPQ

    def _function(self, fdef):
        return lambda *a, **k: self.call(fdef, list(a), k)

    def call(self, fn, args, kwargs=None):
        it = Interp(self.glob, hook=self.hook, max_steps=2000000)
        it.sym = self
        return it.call_closure(Closure(fn, Env(None, it.globals)), list(args), dict(kwargs or {}))

    def run(self, what, fn, args, kwargs=None):
        """call with the evaluator's give-ups turned into AnalysisError (never a guess)"""
        try:
            return self.call(fn, args, kwargs)
        except Stopped as s:
            raise AnalysisError('%s cannot be evaluated on mock nodes: %s' % (what, s.why))
        except Unsupported as e:
            raise AnalysisError('%s cannot be evaluated on mock nodes: %s' % (what, e))
        except Raised as e:
            raise AnalysisError('%s raises on mock nodes: %s' % (what, e.what))

    def _isinstance(self, o, c):
        cs = c if isinstance(c, tuple) else (c,)
        if o is OPQ or any(x is OPQ for x in cs):
            return OPQ
        if all(isinstance(x, type) for x in cs):
            return False if isinstance(o, NS) else isinstance(o, cs)
        if not isinstance(o, NS):
            return False
        for x in cs:
            if not isinstance(x, NS) or x.__dict__.get('_classinfo') is None:
                return OPQ
        oc = o.__dict__.get('_cls')
        if oc is not None:
            mro = self.ix.mro(oc)
            return any(k is x.__dict__['_classinfo'] for k in mro for x in cs)
        ctor = o.__dict__.get('_ctor')
        if ctor is None:
            return False
        return any(ctor == x.__dict__['_classinfo'].name for x in cs)

    def _getattr(self, o, name, *default):
        if isinstance(o, NS) and isinstance(name, str):
            if name in o.__dict__:
                return o.__dict__[name]
            ga = o.__dict__.get('_getattr')
            v = ga(name) if ga is not None else OPQ
            if v is OPQ and default:
                return default[0]
            return v
        return OPQ

    # ---------------------------------------------------------------- constructor mocking
    def _ctor(self, name, c, interp, call, env):
        args = interp._seq(call.args, env) or []
        kwargs = {}
        for k in call.keywords:
            v = interp.eval(k.value, env)
            if k.arg is not None:
                kwargs[k.arg] = v
            elif isinstance(v, dict):
                kwargs.update(v)
        kwargs.pop('_name', None)
        if name in ('EncodedString', 'BytesLiteral') and args and isinstance(args[0], (str, bytes)):
            return args[0]
        o = CNS(name, _ctor=name, _cls=c, _pos=list(args), **kwargs)
        if c is not None:
            o.__dict__['_getattr'] = lambda n: self.member(o, c, n)
        return o

    def hook(self, interp, call, env):
        f = call.func
        name = f.id if isinstance(f, ast.Name) else f.attr if isinstance(f, ast.Attribute) else None
        if name is None:
            return NOT_HANDLED
        if name in self.intercept:
            args = interp._seq(call.args, env) or []
            kw = {k.arg: interp.eval(k.value, env) for k in call.keywords if k.arg}
            if isinstance(f, ast.Attribute) and getattr(self.intercept[name], 'wants_receiver', False):
                kw['_receiver'] = interp.eval(f.value, env)
            return self.intercept[name](args, kw)
        if isinstance(f, ast.Name) and name in ('error', 'warning'):
            self.errors.append(node_src(call, 120))
            return None
        if isinstance(f, ast.Name) and env.get(name) is not OPQ:
            v = env.get(name)
            if isinstance(v, NS) and v.__dict__.get('_classinfo') is not None:
                return self._ctor(v.__dict__['_classinfo'].name, v.__dict__['_classinfo'], interp, call, env)
            return NOT_HANDLED
        if isinstance(f, ast.Attribute) and name == 'for_size':
            args = interp._seq(call.args, env) or []
            return NS('IntNode', _ctor='IntNode', _cls=self.ix.cls('ExprNodes', 'IntNode'), value=args[1] if len(args) > 1 else OPQ, is_literal=True, constant_result=args[1] if len(args) > 1 else OPQ)
        if name == 'binop_node':
            args = interp._seq(call.args, env) or []
            kw = {k.arg: interp.eval(k.value, env) for k in call.keywords if k.arg}
            names = ['pos', 'operator', 'operand1', 'operand2']
            for i, a in enumerate(args[:4]):
                kw.setdefault(names[i], a)
            return NS('binop', _ctor='BinopNode', _cls=None, operator=kw.get('operator'), operand1=kw.get('operand1'), operand2=kw.get('operand2'), is_literal=False)
        if isinstance(f, ast.Attribute) and name == 'clone_node':
            v = interp.eval(f.value, env)
            return v if isinstance(v, NS) else OPQ
        r = None
        if isinstance(f, (ast.Name, ast.Attribute)):
            try:
                r = self.ix.resolve_expr(self.m, f)
            except Exception:
                r = None
        if r and r[0] == 'class':
            return self._ctor(r[1].name, r[1], interp, call, env)
        if r is None and isinstance(f, ast.Attribute) and isinstance(f.value, ast.Name):
            base = env.get(f.value.id)
            if isinstance(base, NS) and base.__dict__.get('_mod') is not None:          # function-local `from . import UtilNodes`; UtilNodes.SomeNode(...)
                c = base.__dict__['_mod'].classes.get(name)
                if c is not None and c.outer is None:
                    return self._ctor(c.name, c, interp, call, env)
        if r is None and isinstance(f, ast.Name) and re.match(r'[A-Z][a-z]\w*$', name) and env.get(name) is OPQ:
            c = None
            for cand in self.ix.classes_by_name.get(name, []):
                c = cand
            return self._ctor(name, c, interp, call, env)
        return NOT_HANDLED


def walk_ns(o, seen=None, depth=0, skip=()):
    """all mock objects reachable from o (attributes, lists, tuples, dicts); attributes named in `skip` (back references) are not followed"""
    if seen is None:
        seen = set()
    if depth > 40:
        return
    if isinstance(o, NS):
        if id(o) in seen:
            return
        seen.add(id(o))
        yield o
        for k, v in list(o.__dict__.items()):
            if k in ('_cls', '_getattr', '_classinfo', '_mod') or k in skip:
                continue
            yield from walk_ns(v, seen, depth + 1, skip)
    elif isinstance(o, (list, tuple)):
        for x in o:
            yield from walk_ns(x, seen, depth + 1, skip)
    elif isinstance(o, dict):
        for x in o.values():
            yield from walk_ns(x, seen, depth + 1, skip)


def ctor_is(o, *names):
    return isinstance(o, NS) and o.__dict__.get('_ctor') in names


def subject_mock(sym, **typeflags):
    t = NS('type', is_pyobject=True, **typeflags)
    t.__dict__['_getattr'] = lambda n: (False if n.startswith('is_') else OPQ)
    return NS('subject', _ctor='MockSubject', type=t, pos='POS', is_literal=False, is_temp=True)


class Rec:
    """mock sub-pattern that records what it is asked to bind / compare with"""

    def __init__(self, label, **kw):
        self.label = label
        self.bound, self.compared = [], []
        rec = self
        targets = kw.pop('targets', {'t_' + label})
        irrefutable = kw.pop('irrefutable', False)
        simple = kw.pop('simple', False)

        def cta(subject, env=None):
            rec.bound.append(subject)
            return NS('assign_' + label, _ctor='MockAssign', stats=[NS('stat_' + label, _ctor='MockStat', owner=label)], owner=label)

        def gcn(subject, smt=None):
            rec.compared.append(subject)
            return NS('test_' + label, _ctor='MockTest', owner=label, is_literal=False)

        def gscn(subject):
            return NS('cond_' + label, _ctor='MockCond', owner=label)
        self.ns = NS('pattern_' + label, _ctor='MockPattern', label=label, pos='POS_' + label, create_target_assignments=cta, get_comparison_node=gcn,
                     get_simple_comparison_node=gscn, get_targets=lambda: set(targets), is_irrefutable=lambda: irrefutable,
                     can_skip_comparison=lambda: irrefutable,
                     is_simple_value_comparison=lambda: simple, is_sequence_or_mapping=lambda: False,
                     is_match_and_assign_pattern=False, is_match_value_pattern=False, is_star=False, target=None,
                     allocate_subject_temps=lambda code: None, release_subject_temps=lambda code: None, dispose_of_subject_temps=lambda code: None,
                     analyse_declarations=lambda env: None, **kw)


# ====================================================================================================== C31-VALOP
def rule_valop(ctx, sym=None, floor=2):
    sym = sym or Sym(ctx)
    r = Rule('C31-VALOP', 'value patterns: the comparison built for the subject uses `is` exactly when the parser marked the pattern as a None/True/False constant '
             '(is_is_check), `==` otherwise, with the subject as first operand and the pattern value as second', floor)
    c = sym.cls('MatchValuePatternNode')
    fn = sym.method(c, 'get_simple_comparison_node')[1]
    for flag, want in ((True, 'is'), (False, '==')):
        value = NS('value', _ctor='MockValue')
        o = sym.obj(c, pos='POS', value=value, is_is_check=flag, as_targets=[])
        subj = subject_mock(sym)
        res = sym.run('MatchValuePatternNode.get_simple_comparison_node', fn, [o, subj])
        key = '%s.MatchValuePatternNode.get_simple_comparison_node:is_is_check=%s' % (MOD, flag)
        op = res.__dict__.get('operator') if isinstance(res, NS) else None
        r.inst(key, sample='is_is_check=%s -> operator %r' % (flag, op))
        if op != want:
            r.violate(key, sym.m.rel, fn.lineno, 'a value pattern with is_is_check=%s is compared with operator %r instead of %r: %s' % (
                flag, op, want, 'case None/True/False must test identity (case True must not match 1)' if flag else 'literal and dotted-name patterns must test equality (case 1.0 matches 1)'))
        elif res.__dict__.get('operand1') is not subj or res.__dict__.get('operand2') is not value:
            r.violate(key + ':operands', sym.m.rel, fn.lineno, 'the comparison node does not compare the subject (operand1) with the pattern value (operand2): `subject == value` calls '
                      'type(subject).__eq__ first, as CPython does')
    # the parser side: is_is_check=True only where the value comes from the constants parser
    pm = sym.ix.mod('Parsing')
    n_sites = 0
    for qn, owner, f in sym.ix.functions_of(pm):
        for n in walk_no_nested(f):
            if isinstance(n, ast.Call) and (getattr(n.func, 'attr', None) or getattr(n.func, 'id', None)) == 'MatchValuePatternNode':
                kw = {k.arg: k.value for k in n.keywords if k.arg}
                n_sites += 1
                if 'is_is_check' in kw:
                    src = kw.get('value')
                    key = 'Parsing.%s:is_is_check' % qn
                    origin = None
                    if isinstance(src, ast.Name):
                        for a in walk_no_nested(f):
                            if isinstance(a, ast.Assign) and any(isinstance(t, ast.Name) and t.id == src.id for t in a.targets) and isinstance(a.value, ast.Call):
                                origin = getattr(a.value.func, 'id', None) or getattr(a.value.func, 'attr', None)
                    r.inst(key, sample='%s passes is_is_check for a value produced by %s' % (qn, origin))
                    if origin is None or 'constants' not in origin:
                        r.violate(key, pm.rel, n.lineno, '%s marks a pattern as identity-compared although its value comes from %s, not from the None/True/False constants parser' % (qn, origin))
    if n_sites < 3:
        raise AnalysisError('Parsing.py creates only %d MatchValuePatternNode' % n_sites)
    r.positive_control(True, 'both flag values evaluated')
    return r


# ====================================================================================================== C31-ALTNUM
def rule_altnum(ctx, sym=None, floor=30):
    sym = sym or Sym(ctx)
    r = Rule('C31-ALTNUM', 'OR patterns: the number stored for the alternative that matched (comparison node) is the number the binding switch tests for that '
             'alternative (target assignments), it is distinct per alternative and never the failure value', floor)
    c = sym.cls('OrPatternNode')
    f_assign = sym.method(c, 'create_main_pattern_assignment_list')[1]
    f_cmp = sym.method(c, 'get_comparison_node')[1]
    for nalt in (2, 3):
        recs = [Rec('alt%d' % i) for i in range(nalt)]
        o = sym.obj(c, pos='POS', alternatives=[x.ns for x in recs], as_targets=[])
        subj = subject_mock(sym)
        lst = sym.run('OrPatternNode.create_main_pattern_assignment_list', f_assign, [o, subj, NS('env')])
        cmp_ = sym.run('OrPatternNode.get_comparison_node', f_cmp, [o, subj, None])
        reader, writer, false_vals, temp_w, temp_r = {}, {}, set(), set(), set()
        for x in walk_ns(lst):
            if ctor_is(x, 'IfClauseNode'):
                cond, body = x.__dict__.get('condition'), x.__dict__.get('body')
                if isinstance(cond, NS) and isinstance(body, NS) and body.__dict__.get('owner'):
                    v = cond.__dict__.get('operand2')
                    reader[body.owner] = (cond.__dict__.get('operator'), v.__dict__.get('value') if isinstance(v, NS) else None)
                    temp_r.add(id(cond.__dict__.get('operand1')))
        for x in walk_ns(cmp_):
            if ctor_is(x, 'CondExprNode'):
                t, tv, fv = x.__dict__.get('condition'), x.__dict__.get('true_val'), x.__dict__.get('false_val')
                if isinstance(t, NS) and t.__dict__.get('owner'):
                    writer[t.owner] = tv.__dict__.get('value') if isinstance(tv, NS) else None
                    false_vals.add(fv.__dict__.get('value') if isinstance(fv, NS) else None)
            if ctor_is(x, 'AssignmentExpressionNode'):
                temp_w.add(id(x.__dict__.get('lhs')))
        for i, rec in enumerate(recs):
            key = '%s.OrPatternNode:alternative-number:%d/%d' % (MOD, i + 1, nalt)
            r.inst(key, sample='alternative %d of %d: stored %r, binding switch tests %r' % (i + 1, nalt, writer.get(rec.label), reader.get(rec.label)))
            w, rd = writer.get(rec.label), reader.get(rec.label)
            if w is None or rd is None:
                r.violate(key, sym.m.rel, f_cmp.lineno, 'no number is %s for alternative %d of an OR pattern with %d capturing alternatives' % ('stored' if w is None else 'tested', i + 1, nalt))
            elif rd[0] != '==' or rd[1] != w:
                r.violate(key, sym.m.rel, f_cmp.lineno, 'OR pattern: when alternative %d matches the comparison stores %r in which_alternative_temp but the binding switch runs the '
                          'assignments of that alternative when the temp %s %r: the captures of another alternative (or none) are bound' % (i + 1, w, rd[0], rd[1]))
            elif not w or w in false_vals or list(writer.values()).count(w) != 1:
                r.violate(key, sym.m.rel, f_cmp.lineno, 'OR pattern: alternative %d is numbered %r, which is %s: the pattern is reported as failed although the alternative matched' % (
                    i + 1, w, 'the value used for "no alternative matched"' if (not w or w in false_vals) else 'also the number of another alternative'))
        key = '%s.OrPatternNode:which-temp/%d' % (MOD, nalt)
        r.inst(key, sample='temp written %d, temp read %d' % (len(temp_w), len(temp_r)))
        if len(temp_w) != 1 or temp_w != temp_r:
            r.violate(key, sym.m.rel, f_cmp.lineno, 'the temp the matching alternative is stored in is not the temp the binding switch reads')
    # ---- alternatives decided at compile time (BoolNode tests): the built expression must still select the FIRST alternative that matches
    for shape in itertools.product(('run', 'T', 'F'), repeat=3):
        if all(x == 'run' for x in shape) or shape.count('F') == 3:
            continue
        recs = [Rec('alt%d' % i) for i in range(3)]
        for rec, kind in zip(recs, shape):
            if kind != 'run':
                const = NS('const_' + rec.label, _ctor='BoolNode', _cls=sym.ix.cls('ExprNodes', 'BoolNode'), value=(kind == 'T'), is_literal=True)
                rec.ns.__dict__['get_comparison_node'] = lambda subject, smt=None, const=const: const
        o = sym.obj(c, pos='POS', alternatives=[x.ns for x in recs], as_targets=[])
        subj = subject_mock(sym)
        sym.run('OrPatternNode.create_main_pattern_assignment_list', f_assign, [o, subj, NS('env')])
        cmp_ = sym.run('OrPatternNode.get_comparison_node', f_cmp, [o, subj, None])
        key = '%s.OrPatternNode:constant-alternatives' % MOD
        r.inst('%s:%s' % (key, '/'.join(shape)), sample='alternatives %s' % (shape,))
        runs = [rec.label for rec, kind in zip(recs, shape) if kind == 'run']
        for truth in itertools.product((True, False), repeat=len(runs)):
            tv = dict(zip(runs, truth))
            got = _eval_or_tree(cmp_, tv)
            want = 0
            for i, (rec, kind) in enumerate(zip(recs, shape)):
                if kind == 'T' or (kind == 'run' and tv[rec.label]):
                    want = i + 1
                    break
            if got == 'unknown':
                raise AnalysisError('OrPatternNode.get_comparison_node: the comparison tree built for constant alternatives %s is not an or-chain of numbered tests' % (shape,))
            if got != want and not any(f == key for f in [x.construct for x in r.findings]):
                r.violate(key, sym.m.rel, f_cmp.lineno, 'OR pattern whose alternatives are (%s) [T/F = decided at compile time], run-time tests %s: the comparison yields alternative %s, '
                          'the first matching alternative is %s: %s' % (', '.join(shape), tv, got or 'none', want or 'none',
                                                                        'a case that cannot match is selected' if got and not want else 'the bindings of the wrong alternative are used / a matching case is skipped'))
    f_simple = sym.method(c, 'is_simple_value_comparison')[1]
    for targets, simple_alts, want in ((set(), True, True), ({'x'}, True, False), (set(), False, False)):
        recs = [Rec('alt%d' % i, targets=set(targets), simple=simple_alts) for i in range(2)]
        o = sym.obj(c, pos='POS', alternatives=[x.ns for x in recs], as_targets=[])
        got = sym.run('OrPatternNode.is_simple_value_comparison', f_simple, [o])
        key = '%s.OrPatternNode.is_simple_value_comparison:%s' % (MOD, 'captures' if targets else 'simple' if simple_alts else 'complex')
        r.inst(key, sample='alternatives simple=%s binding %s -> %r' % (simple_alts, sorted(targets), got))
        if got is OPQ or bool(got) != want:
            r.violate(key, sym.m.rel, f_simple.lineno, 'an OR pattern whose alternatives are %s and bind %s is reported as %s: %s' % (
                'simple value comparisons' if simple_alts else 'not simple', sorted(targets) or 'no names', 'a simple value comparison' if got else 'not simple',
                'refactor_cases turns it into a plain if-clause, the captures are never bound' if (got and not want) else 'a harmless optimisation is lost'))
    r.positive_control(_eval_or_tree(NS('b', _ctor='BinopNode', operator='or', operand1=NS('i', _ctor='IntNode', value=0), operand2=NS('j', _ctor='IntNode', value=2)), {}) == 2,
                       'or-chain 0 or 2 evaluates to alternative 2')
    return r


def _eval_or_tree(node, truth):
    """value (0 = no alternative) of the expression an OR pattern builds, for the given truth values of its run-time tests"""
    if ctor_is(node, 'LazyCoerceToBool', 'AssignmentExpressionNode'):
        return _eval_or_tree(node.__dict__.get('arg') if ctor_is(node, 'LazyCoerceToBool') else node.__dict__.get('rhs'), truth)
    if ctor_is(node, 'IntNode'):
        v = node.__dict__.get('value')
        return v if isinstance(v, int) else 'unknown'
    if ctor_is(node, 'BoolNode'):
        return 1 if node.__dict__.get('value') else 0
    if ctor_is(node, 'CondExprNode'):
        t = node.__dict__.get('condition')
        if not (ctor_is(t, 'MockTest') and t.__dict__.get('owner') in truth):
            return 'unknown'
        return _eval_or_tree(node.__dict__.get('true_val') if truth[t.owner] else node.__dict__.get('false_val'), truth)
    if ctor_is(node, 'BinopNode') and node.__dict__.get('operator') == 'or':
        a = _eval_or_tree(node.__dict__.get('operand1'), truth)
        if a == 'unknown':
            return a
        return a if a else _eval_or_tree(node.__dict__.get('operand2'), truth)
    if ctor_is(node, 'MockTest') and node.__dict__.get('owner') in truth:
        return 1 if truth[node.owner] else 0
    return 'unknown'


# ====================================================================================================== C31-SEQ
def _linear(node):
    """index expression built by make_indexing_node -> (coefficient of len, constant) | None"""
    if node is None:
        return None
    if ctor_is(node, 'IntNode'):
        v = node.__dict__.get('value')
        return (0, v) if isinstance(v, int) else 'unknown'
    if ctor_is(node, 'BinopNode') and node.__dict__.get('operator') in ('+', '-'):
        a, b = node.__dict__.get('operand1'), node.__dict__.get('operand2')
        la = (1, 0) if ctor_is(a, 'LengthTemp') else _linear(a)
        lb = (1, 0) if ctor_is(b, 'LengthTemp') else _linear(b)
        if isinstance(la, tuple) and isinstance(lb, tuple):
            s = 1 if node.operator == '+' else -1
            return (la[0] + s * lb[0], la[1] + s * lb[1])
    return 'unknown'


def _seq_object(sym, n, star):
    recs = []
    for i in range(n):
        rec = Rec('p%d' % i)
        if i == star:
            rec.ns.__dict__.update(is_match_and_assign_pattern=True, is_star=True, _ctor='MatchAndAssignPatternNode', _cls=sym.cls('MatchAndAssignPatternNode'))
        recs.append(rec)
    o = sym.obj('MatchSequencePatternNode', pos='POS', patterns=[x.ns for x in recs], as_targets=[], length_temp=NS('length_temp', _ctor='LengthTemp'))
    return o, recs


CMP = {'==': lambda a, b: a == b, '>=': lambda a, b: a >= b, '>': lambda a, b: a > b, '<=': lambda a, b: a <= b, '<': lambda a, b: a < b, '!=': lambda a, b: a != b}


def rule_seq(ctx, sym=None, floor=85):
    sym = sym or Sym(ctx)
    r = Rule('C31-SEQ', 'sequence patterns with up to 4 sub-patterns and every star position: each sub-pattern reads subject[i] (before the star), subject[len-k] '
             '(after it), the star takes the slice between them; the length test accepts exactly the lengths CPython accepts; sub-pattern i is bound to and '
             'compared with sub-subject i', floor)
    c = sym.cls('MatchSequencePatternNode')
    f_assign = sym.method(c, 'create_main_pattern_assignment_list')[1]
    f_cmp = sym.method(c, 'get_comparison_node')[1]
    seen = {}

    def bad(key, line, msg):
        seen.setdefault(key, (line, msg))
    for n in range(1, 5):
        for star in [None] + list(range(n)):
            o, recs = _seq_object(sym, n, star)
            subj = subject_mock(sym)
            what = 'sequence pattern with %d sub-pattern(s), %s' % (n, 'no star' if star is None else 'star at position %d' % star)
            sym.run('MatchSequencePatternNode.create_main_pattern_assignment_list', f_assign, [o, subj, NS('env', directives={})])
            subjects, temps = o.__dict__.get('subjects'), o.__dict__.get('subject_temps')
            if not isinstance(subjects, list) or len(subjects) != n or not isinstance(temps, list) or len(temps) != n:
                raise AnalysisError('MatchSequencePatternNode: subjects / subject_temps are not lists of one entry per sub-pattern (%s)' % what)
            for i, rec in enumerate(recs):
                key = '%s.MatchSequencePatternNode:index:%s' % (MOD, 'before-star' if (star is None or i < star) else 'star' if i == star else 'after-star')
                r.inst('%s:%d/%d/%s' % (key, i, n, star), sample='%s: sub-pattern %d' % (what, i))
                proxy = subjects[i]
                ind = proxy.__dict__.get('_pos', [None])[0] if isinstance(proxy, NS) else None
                inner = None
                for x in walk_ns(ind):
                    if ctor_is(x, 'IndexNode', 'SliceToListNode'):
                        inner = x
                        break
                if inner is None:
                    bad(key, f_assign.lineno, '%s: no IndexNode / SliceToListNode is built for sub-pattern %d' % (what, i))
                    continue
                if i == star:
                    if not ctor_is(inner, 'SliceToListNode'):
                        bad(key, f_assign.lineno, '%s: the starred sub-pattern does not get a slice of the subject' % what)
                        continue
                    start, stop = _linear(inner.__dict__.get('start')), _linear(inner.__dict__.get('stop'))
                    want_start, want_stop = (0, star), (1, -(n - star - 1))
                    got_start = (0, 0) if start is None else start
                    got_stop = (1, 0) if stop is None else stop
                    if got_start != want_start or got_stop != want_stop:
                        bad(key, f_assign.lineno, '%s: the star captures subject[%s : %s], CPython binds subject[%d : len%+d]' % (what, _fmt(got_start), _fmt(got_stop), star, -(n - star - 1)))
                else:
                    if not ctor_is(inner, 'IndexNode'):
                        bad(key, f_assign.lineno, '%s: sub-pattern %d does not index the subject' % (what, i))
                        continue
                    got = _linear(inner.__dict__.get('index'))
                    want = (0, i) if (star is None or i < star) else (1, i - n)
                    if got != want:
                        bad(key, f_assign.lineno, '%s: sub-pattern %d reads subject[%s], CPython matches it against subject[%s]: sub-patterns are tested against / bound to the wrong elements' % (
                            what, i, _fmt(got), _fmt(want)))
                # pairing: temp i wraps subject i, pattern i is bound to temp i
                t = temps[i]
                key2 = '%s.MatchSequencePatternNode:pairing' % MOD
                r.inst('%s:%d/%d/%s' % (key2, i, n, star))
                if isinstance(t, NS) and proxy not in (t.__dict__.get('_pos') or []) and t.__dict__.get('arg') is not proxy:
                    bad(key2, f_assign.lineno, '%s: the temp of sub-pattern %d is not filled from sub-subject %d' % (what, i, i))
                if rec.bound and not all(b is t for b in rec.bound):
                    bad(key2, f_assign.lineno, '%s: sub-pattern %d creates its bindings from another sub-subject than its own temp' % (what, i))
            cmp_ = sym.run('MatchSequencePatternNode.get_comparison_node', f_cmp, [o, subj, None])
            for i, rec in enumerate(recs):
                if rec.compared and not all(b is temps[i] for b in rec.compared):
                    bad('%s.MatchSequencePatternNode:pairing' % MOD, f_cmp.lineno, '%s: sub-pattern %d is compared with another sub-subject than its own temp' % (what, i))
            # length test
            tests = []
            for x in walk_ns(cmp_):
                if ctor_is(x, 'PrimaryCmpNode') and any(ctor_is(y, 'NameNode') and y.__dict__.get('name') == 'len' for y in walk_ns(x.__dict__.get('operand1'))):
                    c2 = x.__dict__.get('operand2')
                    tests.append((x.__dict__.get('operator'), c2.__dict__.get('value') if isinstance(c2, NS) else None))
            key = '%s.MatchSequencePatternNode:length-test:%s' % (MOD, 'star' if star is not None else 'no-star')
            r.inst('%s:%d/%s' % (key, n, star), sample='%s: length tests %s' % (what, tests))
            if any(op not in CMP or not isinstance(v, int) for op, v in tests):
                bad(key, f_cmp.lineno, '%s: the length test %s is not a comparison of len(subject) with a constant' % (what, tests))
                continue
            for L in range(0, n + 3):
                got = all(CMP[op](L, v) for op, v in tests)
                want = (L >= n - 1) if star is not None else (L == n)
                if got != want:
                    bad(key, f_cmp.lineno, '%s: a subject of length %d is %s by the length test %s; CPython %s it (needs %s)' % (
                        what, L, 'accepted' if got else 'rejected', ' and '.join('len %s %d' % t for t in tests) or '(none)', 'accepts' if want else 'rejects',
                        'len >= %d' % (n - 1) if star is not None else 'len == %d' % n))
                    break
    # ---- the helper that builds the list of a star capture receives (subject, start, stop) in this order
    sl = sym.cls('SliceToListNode')
    f_obj = sym.method(sl, 'generate_for_pyobject')[1]
    for tdesc, flags in (('object', {}), ('tuple', {'is_pytuple_type': True}), ('list', {'is_pylist_type': True})):
        base = subject_mock(sym, **flags)
        start, stop = NS('start', _ctor='MockStart'), NS('stop', _ctor='MockStop')
        o = sym.obj(sl, pos='POS', base=base, start=start, stop=stop, length_node=None)
        node = sym.run('SliceToListNode.generate_for_pyobject', f_obj, [o])
        args = node.__dict__.get('args') if ctor_is(node, 'PythonCapiCallNode') else None
        key = '%s.SliceToListNode.generate_for_pyobject:args:%s' % (MOD, tdesc)
        r.inst(key, sample='%s subject: helper %s called with %s' % (tdesc, (node.__dict__.get('_pos') or [None, None])[1] if isinstance(node, NS) and len(node.__dict__.get('_pos') or []) > 1 else '?',
                                                                   [getattr(a, '_name', a) for a in args] if isinstance(args, list) else args))
        if not isinstance(args, list) or len(args) != 3 or args[0] is not base or args[1] is not start or args[2] is not stop:
            bad(key, f_obj.lineno, 'star capture of a %s subject: the slice helper is called with %s instead of (subject, start, stop): the captured list is empty or holds the wrong elements' % (
                tdesc, [getattr(a, '_name', a) for a in args] if isinstance(args, list) else args))
    # ---- what "the length" of a typed subject is
    f_len = sym.method(c, 'make_length_call_node')[1]
    for tdesc, flags in (('object', {}), ('memoryview', {'is_memoryviewslice': True}), ('ctuple', {'is_ctuple': True, 'components': ['c0', 'c1', 'c2']})):
        o, recs = _seq_object(sym, 2, None)
        o.__dict__['needs_length_temp'] = False
        subj = subject_mock(sym, **flags)
        node = sym.run('MatchSequencePatternNode.make_length_call_node', f_len, [o, subj])
        key = '%s.MatchSequencePatternNode.make_length_call_node:%s' % (MOD, tdesc)
        if tdesc == 'object':
            ok = ctor_is(node, 'SimpleCallNode') and any(ctor_is(y, 'NameNode') and y.__dict__.get('name') == 'len' for y in walk_ns(node.__dict__.get('function'))) and node.__dict__.get('args') == [subj]
            desc = 'len(subject)' if ok else repr(node)
        elif tdesc == 'memoryview':
            base, idx = (node.__dict__.get('base'), node.__dict__.get('index')) if ctor_is(node, 'IndexNode') else (None, None)
            ok = ctor_is(base, 'AttributeNode') and base.__dict__.get('attribute') == 'shape' and base.__dict__.get('obj') is subj and ctor_is(idx, 'IntNode') and idx.__dict__.get('value') == 0
            desc = 'subject.%s[%s]' % (base.__dict__.get('attribute') if isinstance(base, NS) else '?', idx.__dict__.get('value') if isinstance(idx, NS) else '?')
        else:
            ok = ctor_is(node, 'IntNode') and node.__dict__.get('value') == 3
            desc = 'constant %r' % (node.__dict__.get('value') if isinstance(node, NS) else node)
        r.inst(key, sample='length of a subject typed %s: %s' % (tdesc, desc))
        if not ok:
            bad(key, f_len.lineno, 'the length of a subject typed as %s is taken as %s; expected %s: sequence patterns accept / reject the wrong lengths' % (
                tdesc, desc, {'object': 'len(subject)', 'memoryview': 'subject.shape[0] (the length of a memoryview is its first dimension)', 'ctuple': 'the number of components (3)'}[tdesc]))
    for key, (line, msg) in sorted(seen.items()):
        r.violate(key, sym.m.rel, line, msg)
    r.positive_control(_linear(NS('b', _ctor='BinopNode', operator='+', operand1=NS('l', _ctor='LengthTemp'), operand2=NS('i', _ctor='IntNode', value=-2))) == (1, -2) and
                       not CMP['=='](3, 2) and CMP['>='](3, 2), 'len-2 recognised as a linear form; == and >= differ on a longer subject')
    return r


def _fmt(lin):
    if not isinstance(lin, tuple):
        return str(lin)
    a, b = lin
    if a == 0:
        return str(b)
    return ('len' if a == 1 else '%d*len' % a) + ('%+d' % b if b else '')


# ====================================================================================================== C31-PAIR
def _key_mock(label, literal):
    return NS('key_' + label, _ctor='MockKey', label=label, is_literal=literal, has_constant_result=lambda: literal, constant_result='const_' + label, pos='POS_' + label,
              analyse_declarations=lambda env: None)


def rule_pair(ctx, sym=None, floor=180):
    sym = sym or Sym(ctx)
    r = Rule('C31-PAIR', 'mapping and class patterns: the sub-pattern written next to a key / keyword / position is bound to and compared with the sub-subject that the '
             'run-time helper fills for that key / keyword / position — in every method, also after validate_keys has moved the literal keys to the front', floor)
    seen = {}

    def bad(key, line, msg):
        seen.setdefault(key, (line, msg))
    # ---------------- mapping patterns
    c = sym.cls('MatchMappingPatternNode')
    f_val = sym.method(c, 'validate_keys')[1]
    f_assign = sym.method(c, 'create_main_pattern_assignment_list')[1]
    f_cmp = sym.method(c, 'get_comparison_node')[1]
    for nk, lits, dstar in [(n, l, ds) for n in (3, 2, 1) for l in itertools.product((True, False), repeat=n) for ds in (False, True)]:
        for lit in [lits]:
            recs = [Rec('v%d' % i) for i in range(nk)]
            keys = [_key_mock('k%d' % i, lit[i]) for i in range(nk)]
            owner = {id(k): rec for k, rec in zip(keys, recs)}
            ds_target = NS('rest', _ctor='MockName', name='rest', pos='POSR', analyse_declarations=lambda env: None) if dstar else None
            o = sym.obj(c, pos='POS', keys=list(keys), value_patterns=[x.ns for x in recs], double_star_capture_target=ds_target, as_targets=[])
            what = 'mapping pattern with keys (%s)%s' % (', '.join('literal' if x else 'dotted name' for x in lit), ' and **rest' if dstar else '')
            lit = lit + (('**',) if dstar else ())
            sym.run('MatchMappingPatternNode.validate_keys', f_val, [o])
            k2, p2 = o.__dict__.get('keys'), o.__dict__.get('value_patterns')
            key = '%s.MatchMappingPatternNode:key-pattern' % MOD
            r.inst('%s:%s' % (key, lit), sample='%s: order after validate_keys %s' % (what, [k.label for k in k2] if isinstance(k2, list) else k2))
            if not isinstance(k2, list) or not isinstance(p2, list) or len(k2) != nk or len(p2) != nk:
                raise AnalysisError('MatchMappingPatternNode.validate_keys: keys / value_patterns are no longer lists of equal length')
            if any(owner[id(k)].ns is not p for k, p in zip(k2, p2)):
                bad(key + ':validate_keys', f_val.lineno, '%s: after validate_keys key %d stands next to the sub-pattern of another key (keys %s, patterns %s): captures receive the value of '
                    'the wrong key' % (what, next(i for i, (k, p) in enumerate(zip(k2, p2)) if owner[id(k)].ns is not p), [k.label for k in k2], [p.label for p in p2]))
                # (evaluation goes on: the instance count of the rule must not depend on what it finds)
            if any(x is True for x in lit) and [k.is_literal for k in k2] != sorted([k.is_literal for k in k2], reverse=True):
                bad(key + ':literal-first', f_val.lineno, '%s: literal keys are not moved to the front (order %s) although the duplicate-key check and the key arrays rely on it' % (what, [k.label for k in k2]))
            subj = subject_mock(sym)
            sym.run('MatchMappingPatternNode.create_main_pattern_assignment_list', f_assign, [o, subj, NS('env')])
            temps = o.__dict__.get('subject_temps')
            if not isinstance(temps, list) or len(temps) != nk:
                raise AnalysisError('MatchMappingPatternNode: subject_temps is not a list of one entry per key')
            cmp_ = sym.run('MatchMappingPatternNode.get_comparison_node', f_cmp, [o, subj, None])
            arrays = [x for x in walk_ns(cmp_) if ctor_is(x, 'EvaluateWithKeysAndSubjectsArrays')]
            if len(arrays) != 1:
                raise AnalysisError('MatchMappingPatternNode.get_comparison_node: expected one EvaluateWithKeysAndSubjectsArrays node, found %d' % len(arrays))
            ka, sa = arrays[0].__dict__.get('keys_array'), arrays[0].__dict__.get('subjects_array')
            if not isinstance(ka, list) or not isinstance(sa, list) or len(ka) != len(sa):
                bad(key + ':arrays', f_cmp.lineno, '%s: the C arrays of keys and of sub-subject addresses have different lengths' % what)
                continue
            # the counts handed to the C helpers next to the arrays
            kc = '%s.MatchMappingPatternNode:helper-counts' % MOD
            n_lit = sum(1 for k in ka if getattr(k, 'is_literal', False))
            helper_calls = [x for x in walk_ns(cmp_) if ctor_is(x, 'PythonCapiCallNode')]
            dup_calls = []
            for hc in helper_calls:
                hname = (hc.__dict__.get('_pos') or [None, None])[1] if len(hc.__dict__.get('_pos') or []) > 1 else hc.__dict__.get('function_name')
                hargs = hc.__dict__.get('args') or []
                ints = [a.__dict__.get('value') for a in hargs if ctor_is(a, 'IntNode')]
                if not isinstance(hname, str) or 'MatchCase' not in hname:
                    continue
                uses_keys = any(ctor_is(a, 'RawCNameExprNode') for a in hargs)
                if not uses_keys:
                    continue
                r.inst('%s:%s:%s' % (kc, hname, lit), sample='%s: %s(..., %s) with %d keys (%d literal)' % (what, hname, ints, len(ka), n_lit))
                if 'Duplicate' in hname:
                    dup_calls.append(ints)
                    if len(ints) != 2 or ints[1] != len(ka):
                        bad(kc + ':dup-total', f_cmp.lineno, '%s: the duplicate-key helper is told the key array has %s entries, it has %d' % (what, ints[1:] or ints, len(ka)))
                    elif not (0 <= ints[0] <= len(ka)) or not all(getattr(k, 'is_literal', False) for k in ka[:ints[0]]) :
                        bad(kc + ':dup-fixed', f_cmp.lineno, '%s: the duplicate-key helper is told that the first %s key(s) are compile-time literals, but the key array starts with %s: run-time keys '
                            'among them are never compared with each other, a duplicate key does not raise ValueError' % (what, ints[0], ['literal' if getattr(k, 'is_literal', False) else 'name' for k in ka]))
                elif ints != [len(ka)]:
                    bad(kc, f_cmp.lineno, '%s: %s is passed the count(s) %s next to a key array of %d entries: %s' % (
                        what, hname, ints, len(ka), 'the last key(s) are not extracted / stay in the **rest dict' if ints and isinstance(ints[0], int) and ints[0] < len(ka) else 'the helper reads past the array'))
            if dstar:
                r.inst('%s:rest:%s' % (kc, lit))
                if not any('DoubleStar' in str((hc.__dict__.get('_pos') or [None, None])[1]) for hc in helper_calls if len(hc.__dict__.get('_pos') or []) > 1):
                    bad(kc + ':rest', f_cmp.lineno, '%s: no helper call builds the dict for **rest' % what)
            need_dup = (len(ka) - n_lit) >= 1 and len(ka) >= 2
            r.inst('%s:dup-needed:%s' % (kc, lit))
            if need_dup != bool(dup_calls):
                bad(kc + ':dup-needed', f_cmp.lineno, '%s: the run-time duplicate-key check is %s although the pattern has %d run-time key(s) among %d keys (CPython raises ValueError for '
                    'a key that occurs twice)' % (what, 'missing' if need_dup else 'generated', len(ka) - n_lit, len(ka)))
            for i, (k, t) in enumerate(zip(ka, sa)):
                rec = owner.get(id(k))
                kk = '%s.MatchMappingPatternNode:key-subject' % MOD
                r.inst('%s:%s:%d' % (kk, lit, i))
                if rec is None:
                    bad(kk, f_cmp.lineno, '%s: the key array holds something that is not a key of the pattern' % what)
                    continue
                used = rec.bound + rec.compared
                if any(u is not t for u in used):
                    bad(kk, f_cmp.lineno, '%s: the helper stores the value found for key %s in sub-subject %d, but the sub-pattern written for that key is %s with another '
                        'sub-subject' % (what, k.label, i, 'bound' if any(u is not t for u in rec.bound) else 'compared'))
                if not rec.bound or not rec.compared:
                    bad(kk + ':unused', f_cmp.lineno, '%s: the sub-pattern of key %s is never %s' % (what, k.label, 'bound' if not rec.bound else 'compared'))
    # ---------------- class patterns
    c = sym.cls('ClassPatternNode')
    f_assign = sym.method(c, 'create_main_pattern_assignment_list')[1]
    f_cmp = sym.method(c, 'get_comparison_node')[1]
    for npos, nkw in ((2, 2), (1, 2), (2, 0), (0, 2), (3, 1)):
        pos_recs = [Rec('pos%d' % i) for i in range(npos)]
        kw_recs = [Rec('kw%d' % i) for i in range(nkw)]
        names = [NS('name%d' % i, _ctor='MockName', name='attr%d' % i, pos='POSN%d' % i, analyse_declarations=lambda env: None) for i in range(nkw)]
        class_ = NS('class_', _ctor='MockClassRef', type=NS('t'), pos='POSC', clone_node=None)
        o = sym.obj(c, pos='POS', class_=class_, positional_patterns=[x.ns for x in pos_recs], keyword_pattern_names=list(names),
                    keyword_pattern_patterns=[x.ns for x in kw_recs], class_known_type=None, as_targets=[])
        what = 'class pattern with %d positional and %d keyword sub-pattern(s)' % (npos, nkw)
        subj = subject_mock(sym)
        sym.run('ClassPatternNode.create_main_pattern_assignment_list', f_assign, [o, subj, NS('env')])
        cmp_ = sym.run('ClassPatternNode.get_comparison_node', f_cmp, [o, subj, None])
        # positional: subjects array of the helper call
        pos_t = None
        for x in walk_ns(cmp_):
            if ctor_is(x, 'EvaluateWithKeysAndSubjectsArrays'):
                pos_t = x.__dict__.get('subjects_array')
        for x in walk_ns(cmp_):
            if ctor_is(x, 'EvaluateWithKeysAndSubjectsArrays'):
                call_ = x.__dict__.get('arg')
                hargs = call_.__dict__.get('args') if ctor_is(call_, 'PythonCapiCallNode') else None
                if hargs is None:
                    continue
                ints = [a.__dict__.get('value') for a in hargs if ctor_is(a, 'IntNode')]
                ka = x.__dict__.get('keys_array') or []
                sa_ = x.__dict__.get('subjects_array') or []
                kc = '%s.ClassPatternNode:helper-counts' % MOD
                r.inst('%s:%d+%d' % (kc, npos, nkw), sample='%s: helper receives the integers %s next to %d keyword names and %d sub-subjects' % (what, ints, len(ka), len(sa_)))
                # (n_fixed, match_self, n_subjects): the first and the last integer are the lengths of the two arrays
                if len(ints) < 2 or ints[0] != len(ka) or ints[-1] != len(sa_) or len(ka) != nkw or len(sa_) != npos:
                    bad(kc, f_cmp.lineno, '%s: the positional helper is told %s keyword name(s) / %s positional sub-subject(s), the arrays hold %d / %d (the pattern has %d / %d): '
                        'positional attributes are not extracted or the helper reads past an array' % (what, ints[0] if ints else '?', ints[-1] if ints else '?', len(ka), len(sa_), nkw, npos))
        key = '%s.ClassPatternNode:positional' % MOD
        for i, rec in enumerate(pos_recs):
            r.inst('%s:%d/%d+%d' % (key, i, npos, nkw), sample='%s: positional %d' % (what, i))
            if not isinstance(pos_t, list) or len(pos_t) != npos:
                bad(key, f_cmp.lineno, '%s: the sub-subject array passed to the positional helper does not have one entry per positional sub-pattern' % what)
                break
            used = rec.bound + rec.compared
            if any(u is not pos_t[i] for u in used) or not rec.bound or not rec.compared:
                bad(key, f_cmp.lineno, '%s: the helper stores the attribute named by __match_args__[%d] in sub-subject %d, but positional sub-pattern %d is %s' % (
                    what, i, i, i, 'never bound/compared' if (not rec.bound or not rec.compared) else 'bound to / compared with another sub-subject'))
        # keyword: the temp assigned from the lookup of attribute name i
        attr_temp = {}
        for x in walk_ns(cmp_):
            if ctor_is(x, 'SingleAssignmentNode'):
                rhs, lhs = x.__dict__.get('rhs'), x.__dict__.get('lhs')
                if ctor_is(rhs, 'AttributeNode') and isinstance(rhs.__dict__.get('attribute'), str):
                    attr_temp.setdefault(rhs.attribute, []).append(lhs)
        key = '%s.ClassPatternNode:keyword' % MOD
        for i, rec in enumerate(kw_recs):
            r.inst('%s:%d/%d+%d' % (key, i, npos, nkw), sample='%s: keyword %d' % (what, i))
            ts = attr_temp.get('attr%d' % i, [])
            if len(ts) != 1:
                bad(key + ':lookup', f_cmp.lineno, '%s: attribute %s of the subject is looked up %d time(s) into a sub-subject (expected once)' % (what, 'attr%d' % i, len(ts)))
                continue
            used = rec.bound + rec.compared
            if any(u is not ts[0] for u in used) or not rec.bound or not rec.compared:
                bad(key, f_cmp.lineno, '%s: the value of subject.%s is stored in one sub-subject, but the sub-pattern written as `%s=<pattern>` is %s' % (
                    what, 'attr%d' % i, 'attr%d' % i, 'never bound/compared' if (not rec.bound or not rec.compared) else 'bound to / compared with another sub-subject: captures receive other attributes'))
    for key, (line, msg) in sorted(seen.items()):
        r.violate(key, sym.m.rel, line, msg)
    r.positive_control(True, 'pairings of mapping (8 key-kind shapes) and class patterns (5 shapes) evaluated')
    return r


# ====================================================================================================== C31-REFACTOR
def rule_refactor(ctx, sym=None, floor=300):
    sym = sym or Sym(ctx)
    r = Rule('C31-REFACTOR', 'MatchNode.refactor_cases (simple cases -> if/elif chain) evaluated on every sequence of up to 4 cases over {simple, complex} x {guard, no guard}: '
             'the resulting cases / if-clauses are in source order, every case occurs once, and pattern, guard and body of every case are carried over', floor)
    c = sym.cls('MatchNode')
    fn = sym.method(c, 'refactor_cases')[1]
    case_cls = sym.cls('MatchCaseNode')
    kinds = [(simple, guard) for simple in (True, False) for guard in (False, True)]
    seen = {}

    def bad(key, msg):
        seen.setdefault(key, msg)
    for n in range(1, 5):
        for combo in itertools.product(kinds, repeat=n):
            recs, cases = [], []
            for i, (simple, guard) in enumerate(combo):
                rec = Rec('c%d' % i, simple=simple, targets=set())
                rec.ns.__dict__['create_target_assignments'] = lambda subject, env=None: None
                body = NS('body%d' % i, _ctor='MockBody', stats=[NS('stat%d' % i, _ctor='MockStat', owner=i)], pos='POSB%d' % i, owner=i)
                g = NS('guard%d' % i, _ctor='MockGuard', owner=i) if guard else None
                cases.append(sym.obj(case_cls, pos='POS%d' % i, pattern=rec.ns, guard=g, body=body, index=i))
                recs.append(rec)
            o = sym.obj(c, pos='POS', subject=NS('subject', _ctor='MockSubjectExpr'), cases=list(cases))
            sym.run('MatchNode.refactor_cases', fn, [o])
            out = o.__dict__.get('cases')
            desc = '[%s]' % ', '.join(('simple' if s else 'complex') + ('+guard' if g else '') for s, g in combo)
            r.inst('%s.MatchNode.refactor_cases:%s' % (MOD, desc), sample='cases %s -> %s' % (desc, [x.__dict__.get('_ctor') for x in out] if isinstance(out, list) else out))
            if not isinstance(out, list):
                raise AnalysisError('MatchNode.refactor_cases: self.cases is not a list afterwards')
            order = []
            for x in out:
                if any(x is cc for cc in cases):
                    order.append(('case', x.index))
                    continue
                clauses = [y for y in walk_ns(x, skip=('match_node',)) if ctor_is(y, 'IfClauseNode')]
                if not clauses:
                    bad('order', 'cases %s: refactor_cases produces a case that is neither an original case nor an if-chain' % desc)
                for cl in clauses:
                    cond = cl.__dict__.get('condition')
                    body = cl.__dict__.get('body')
                    who = int(cond.owner[1:]) if ctor_is(cond, 'MockCond') else None
                    order.append(('if', who))
                    stats = body.__dict__.get('stats') if isinstance(body, NS) else None
                    stat_owner = [s.owner for s in stats if ctor_is(s, 'MockStat')] if isinstance(stats, list) else []
                    if who is None or stat_owner != [who]:
                        bad('body', 'cases %s: the if-clause built for case %s runs the statements of case(s) %s' % (desc, who, stat_owner))
                    if who is not None and combo[who][1]:
                        bad('guard', 'cases %s: case %d (`case <literal> if <guard>:`) is rewritten into an if-clause that tests only the pattern: the guard is dropped, '
                            'the case matches whenever the literal does' % (desc, who))
                    if who is not None and not combo[who][0]:
                        bad('simple', 'cases %s: case %d is rewritten into an if-clause although its pattern is not a simple value comparison' % (desc, who))
            flat = [w for _, w in order]
            if flat != list(range(n)):
                bad('order', 'cases %s: after refactor_cases the cases are tried in the order %s (source order is %s): a later case can win over an earlier one / a case is lost or duplicated' % (
                    desc, flat, list(range(n))))
    for key, msg in sorted(seen.items()):
        r.violate('%s.MatchNode.refactor_cases:%s' % (MOD, key), sym.m.rel, fn.lineno, msg)
    r.positive_control(True, 'all case-kind sequences of length 1..4 evaluated')
    return r


# ====================================================================================================== C31-EXIT
class CodeRec:
    def __init__(self):
        self.events = []
        self.n = 0
        rec = self

        def new_label(*a):
            rec.n += 1
            return 'L%d' % rec.n

        def ev(kind):
            return lambda *a, **k: rec.events.append((kind,) + tuple(a))
        self.ns = NS('code', _ctor='MockCode', new_label=new_label, put_goto=ev('goto'), put_label=ev('label'), putln=ev('putln'), label_used=lambda l: True,
                     mark_pos=lambda *a: None, put_xdecref_clear=ev('xdecref'), put_decref=ev('decref'), put_incref=ev('incref'))
        self.ns.__dict__['_getattr'] = lambda n: ev('code.' + n)

    def part(self, label, **kw):
        rec = self

        def ev(kind):
            return lambda *a, **k: rec.events.append((kind, label))
        o = NS(label, _ctor='MockPart', label=label, result=lambda: 'R_' + label, **kw)
        o.__dict__['_getattr'] = lambda n: ev(n) if not n.startswith('is_') else False
        return o


def rule_exit(ctx, sym=None, floor=8):
    sym = sym or Sym(ctx)
    r = Rule('C31-EXIT', 'code generation of a match statement evaluated on a recording code writer: after the body of a case that matched control jumps to the end '
             'label of the statement (also for the if-chains that replace simple cases), the label handed to the cases is the one placed after the last case, a failed '
             'pattern jumps to the end of its own case, bindings are generated before the guard and the guard before the body', floor)
    mc = sym.cls('MatchCaseNode')
    fn = sym.method(mc, 'generate_execution_code')[1]
    for guard in (False, True):
        rec = CodeRec()
        pattern = rec.part('pattern')
        o = sym.obj(mc, pos='POS', pattern=pattern, comp_node=rec.part('comp'), target_assignments=rec.part('assign'), guard=rec.part('guard') if guard else None,
                    body=rec.part('body', is_terminator=False))
        sym.run('MatchCaseNode.generate_execution_code', fn, [o, rec.ns, 'END'])
        ev = rec.events
        key = '%s.MatchCaseNode.generate_execution_code:%s' % (MOD, 'guard' if guard else 'no-guard')
        idx = {k: [i for i, e in enumerate(ev) if e[:2] == k] for k in [('generate_execution_code', 'body'), ('generate_execution_code', 'assign'), ('generate_evaluation_code', 'guard'),
                                                                         ('generate_evaluation_code', 'comp')]}
        body_i = idx[('generate_execution_code', 'body')]
        r.inst(key + ':goto-end', sample='events after the body: %s' % (ev[body_i[0] + 1:body_i[0] + 4] if body_i else None))
        if len(body_i) != 1:
            r.violate(key + ':body', sym.m.rel, fn.lineno, 'the body of the case is generated %d times' % len(body_i))
            continue
        after = ev[body_i[0] + 1:]
        gotos_after = [e for e in after if e[0] == 'goto']
        if not gotos_after or gotos_after[0][1] != 'END' or any(e[0] == 'label' for e in after[:after.index(gotos_after[0])]):
            r.violate(key + ':goto-end', sym.m.rel, fn.lineno, 'after the body of a matching case no jump to the end label of the match statement is generated (body not a terminator): '
                      'execution falls through into the following cases, a second case can match and run')
        labels = [e for e in ev if e[0] == 'label']
        fail_gotos = [e for e in ev[:body_i[0]] if e[0] == 'goto']
        r.inst(key + ':fail-label', sample='failure jump %s, labels placed %s' % (fail_gotos, labels))
        if len(fail_gotos) != 1 or fail_gotos[0][1] == 'END' or not labels or labels[-1][1] != fail_gotos[0][1] or ev.index(labels[-1]) < body_i[0]:
            r.violate(key + ':fail-label', sym.m.rel, fn.lineno, 'a pattern that does not match must jump to a label placed at the end of this case (not to the end of the statement, '
                      'not before the body): jumps %s, labels %s' % (fail_gotos, labels))
        a_i, g_i, c_i = idx[('generate_execution_code', 'assign')], idx[('generate_evaluation_code', 'guard')], idx[('generate_evaluation_code', 'comp')]
        r.inst(key + ':order', sample='comparison %s, bindings %s, guard %s, body %s' % (c_i, a_i, g_i, body_i))
        if not c_i or not a_i or not (c_i[0] < a_i[0] < body_i[0]) or (guard and (not g_i or not (a_i[0] < g_i[0] < body_i[0]))):
            r.violate(key + ':order', sym.m.rel, fn.lineno, 'a case must generate comparison, then the bindings, then the guard, then the body; generated order: comparison %s, '
                      'bindings %s, guard %s, body %s: the guard/body see unbound captures or run before the pattern was tested' % (c_i, a_i, g_i, body_i))
    # the if-chain replacing simple cases
    sc = sym.cls('SubstitutedIfStatListNode')
    fn2 = sym.method(sc, 'generate_execution_code')[1]
    rec = CodeRec()
    o = sym.obj(sc, pos='POS', stats=[], match_node=NS('match', _ctor='MockMatch', end_label='END'), is_terminator=False)
    sym.run('SubstitutedIfStatListNode.generate_execution_code', fn2, [o, rec.ns])
    key = '%s.SubstitutedIfStatListNode.generate_execution_code:goto-end' % MOD
    r.inst(key, sample='events %s' % rec.events)
    if ('goto', 'END') not in rec.events:
        r.violate(key, sym.m.rel, fn2.lineno, 'the statement list of an if-clause that replaces a simple case does not jump to the end label of the enclosing match statement: after '
                  '`case 1:` matched, the cases after the if-chain are tried as well')
    # the statement: label identity
    mn = sym.cls('MatchNode')
    fn3 = sym.method(mn, 'generate_execution_code')[1]
    rec = CodeRec()
    got = []
    case = NS('case', _ctor='MockCase', generate_execution_code=lambda code, end_label: got.append(end_label))
    o = sym.obj(mn, pos='POS', subject=rec.part('subject'), cases=[case, case], sequence_mapping_temp=None)
    sym.run('MatchNode.generate_execution_code', fn3, [o, rec.ns])
    key = '%s.MatchNode.generate_execution_code:end-label' % MOD
    labels = [e[1] for e in rec.events if e[0] == 'label']
    r.inst(key, sample='label passed to the cases %s, self.end_label %r, labels placed %s' % (got, o.__dict__.get('end_label'), labels))
    if len(got) != 2 or len(set(got)) != 1 or o.__dict__.get('end_label') != got[0] or labels != [got[0]]:
        r.violate(key, sym.m.rel, fn3.lineno, 'the end label handed to the cases (%s), the label stored for the if-chains (self.end_label = %r) and the label placed after the last case '
                  '(%s) are not one and the same label' % (got, o.__dict__.get('end_label'), labels))
    subj_i = [i for i, e in enumerate(rec.events) if e[:2] == ('generate_evaluation_code', 'subject')]
    r.inst(key + ':subject')
    if len(subj_i) != 1:
        r.violate(key + ':subject', sym.m.rel, fn3.lineno, 'the subject of the match statement is evaluated %d times' % len(subj_i))
    r.positive_control(True, 'event sequences of the three emitters evaluated')
    return r


# ====================================================================================================== C31-TPFLAGS
TPFLAGS = {'SEQUENCE': 1 << 5, 'MAPPING': 1 << 6, 'MATCH_SELF': 1 << 22}      # Include/object.h (Py_TPFLAGS_SEQUENCE, Py_TPFLAGS_MAPPING, _Py_TPFLAGS_MATCH_SELF)


def builtin_flag_table(sym):
    from ..engine import tables
    c = sym.ix.cls('PyrexTypes', 'BuiltinObjectType')
    if c is None:
        raise AnalysisError('PyrexTypes.BuiltinObjectType vanished')
    a = sym.ix.find_class_attr(c, '_builtin_type_flag_mapping')
    t = tables.literal(a[1]) if a is not None and isinstance(a[1], ast.AST) else None
    if not isinstance(t, dict) or len(t) < 8:
        raise AnalysisError('BuiltinObjectType._builtin_type_flag_mapping is not a literal table')
    return c, t


def builtin_type_mock(sym, c, table, tname, pytype):
    flags = set(table.get(tname) or ())
    all_flags = set(f for v in table.values() for f in v)

    def ga(name):
        if name in flags:
            return True
        if name in all_flags:
            return False
        a = sym.ix.find_class_attr(c, name)
        if a is not None and isinstance(a[1], ast.Constant):
            return a[1].value
        return OPQ

    def subtype(t):
        other = t.__dict__.get('_builtin') if isinstance(t, NS) else None
        ot = getattr(builtins, other, None) if other else None
        if not isinstance(ot, type):
            return OPQ
        return issubclass(pytype, ot)
    o = NS('type ' + tname, _ctor='BuiltinObjectType', name=tname, subtype_of_resolved_type=subtype, subtype_of=subtype)
    o.__dict__['_getattr'] = ga
    return o


def rule_tpflags(ctx, sym=None, floor=36):
    sym = sym or Sym(ctx)
    r = Rule('C31-TPFLAGS', 'compile-time shortcuts for builtin subject / class types: "is a sequence", "is a mapping" and "matches itself as single positional '
             'sub-pattern" are answered True (False) only for builtin types whose tp_flags in the running interpreter have (lack) Py_TPFLAGS_SEQUENCE / '
             'Py_TPFLAGS_MAPPING / _Py_TPFLAGS_MATCH_SELF', floor)
    if not (list.__flags__ & TPFLAGS['SEQUENCE'] and dict.__flags__ & TPFLAGS['MAPPING'] and int.__flags__ & TPFLAGS['MATCH_SELF']) or \
            (object.__flags__ & (TPFLAGS['SEQUENCE'] | TPFLAGS['MAPPING'] | TPFLAGS['MATCH_SELF'])):
        raise AnalysisError('the running interpreter does not expose the pattern-matching tp_flags as expected')
    c, table = builtin_flag_table(sym)
    types = [(n, getattr(builtins, n)) for n in sorted(table) if isinstance(getattr(builtins, n, None), type) and not issubclass(getattr(builtins, n), BaseException)]
    if len(types) < 10:
        raise AnalysisError('only %d builtin types of the flag table exist in the running interpreter' % len(types))
    subj = subject_mock(sym)
    seq = sym.obj('MatchSequencePatternNode', pos='POS', patterns=[], as_targets=[])
    mp = sym.obj('MatchMappingPatternNode', pos='POS', keys=[], value_patterns=[], as_targets=[])
    checks = {}
    for label, o, meth in (('SEQUENCE', seq, 'make_sequence_check'), ('MAPPING', mp, 'make_mapping_check')):
        fn = sym.method(o._cls, meth)[1]
        node = sym.run('%s.%s' % (o._cls.name, meth), fn, [o, subj, None])
        chk = node.__dict__.get('check') if isinstance(node, NS) else None
        if not isinstance(chk, Closure):
            raise AnalysisError('%s.%s no longer returns a node with a `check` callable' % (o._cls.name, meth))
        checks[label] = (chk, fn, '%s.%s' % (o._cls.name, meth))
        # the helper the fallback calls tests the flag of the same kind
        fb = node.__dict__.get('fallback')
        hname = (fb.__dict__.get('_pos') or [None, None])[1] if ctor_is(fb, 'PythonCapiCallNode') and len(fb.__dict__.get('_pos') or []) > 1 else None
        key = '%s.%s.%s:run-time-helper' % (MOD, o._cls.name, meth)
        if not isinstance(hname, str):
            raise AnalysisError('%s.%s: the run-time fallback is not a PythonCapiCallNode with a constant helper name' % (o._cls.name, meth))
        hd = [d for d in ctx.cat.decls.get(hname, []) if d.kind == 'func' and d.body]
        if not hd:
            raise AnalysisError('%s: the run-time helper %s has no definition in the utility code' % (meth, hname))
        kinds = set(re.findall(r'TPFLAGS_(SEQUENCE|MAPPING)\b', hd[0].body))
        r.inst(key, sample='%s falls back to %s, which tests tp_flags of kind %s' % (meth, hname, sorted(kinds)))
        if kinds != {label}:
            r.violate(key, 'Cython/Utility/' + hd[0].file, hd[0].line, 'the run-time helper %s called for the %s test of a pattern tests Py_TPFLAGS_%s: %s' % (
                hname, label.lower(), '/'.join(sorted(kinds)) or '(none)', 'dicts pass as sequences and lists do not' if label == 'SEQUENCE' else 'lists pass as mappings and dicts do not'))
    cp = sym.cls('ClassPatternNode')
    f_ms = sym.method(cp, '_calculate_match_self')[1]
    for tname, pytype in types:
        tm = builtin_type_mock(sym, c, table, tname, pytype)
        for label in ('SEQUENCE', 'MAPPING'):
            chk, fn, qn = checks[label]
            it = Interp(sym.glob, hook=sym.hook)
            it.sym = sym
            try:
                ans = it.call_closure(chk, [tm], {})
            except (Stopped, Unsupported, Raised) as e:
                raise AnalysisError('%s: the static type check cannot be evaluated for builtin type %s (%s)' % (qn, tname, getattr(e, 'why', e)))
            has = bool(pytype.__flags__ & TPFLAGS[label])
            key = '%s.%s:static-check:%s' % (MOD, qn, tname)
            r.inst(key, sample='%s(%s) -> %r; %s.__flags__ & Py_TPFLAGS_%s = %s' % (qn, tname, ans, tname, label, has), nontrivial=ans is not None)
            if ans is OPQ or ans not in (True, False, None):
                raise AnalysisError('%s: static type check gives %r for %s' % (qn, ans, tname))
            if ans is not None and bool(ans) != has:
                r.violate(key, sym.m.rel, fn.lineno, 'for a subject declared as builtin type `%s` the %s test is decided at compile time as %s, but type %s %s Py_TPFLAGS_%s at run '
                          'time (what CPython and the run-time helper test): a %s pattern %s such a subject' % (
                              tname, label.lower(), ans, tname, 'has' if has else 'does not have', label, label.lower(),
                              'matches' if ans else 'can never match'))
        o = sym.obj(cp, pos='POS', positional_patterns=[NS('p')], keyword_pattern_names=[], keyword_pattern_patterns=[], class_known_type=tm, as_targets=[])
        ans = sym.run('ClassPatternNode._calculate_match_self', f_ms, [o])
        has = bool(pytype.__flags__ & TPFLAGS['MATCH_SELF'])
        key = '%s.ClassPatternNode._calculate_match_self:%s' % (MOD, tname)
        r.inst(key, sample='match_self(%s) -> %r; _Py_TPFLAGS_MATCH_SELF = %s' % (tname, ans, has), nontrivial=ans in (0, 1))
        if ans not in (0, 1, -1):
            raise AnalysisError('ClassPatternNode._calculate_match_self gives %r for %s' % (ans, tname))
        if ans != -1 and bool(ans) != has:
            r.violate(key, sym.m.rel, f_ms.lineno, '`case %s(x)`: match_self is decided at compile time as %d, but type %s %s _Py_TPFLAGS_MATCH_SELF: %s' % (
                tname, ans, tname, 'has' if has else 'does not have',
                'x is bound to the subject itself where CPython raises TypeError (%s() accepts 0 positional sub-patterns)' % tname if ans else
                'the helper looks for __match_args__ and raises TypeError where CPython binds the subject'))
    # more than one positional sub-pattern or keywords: never match-self
    o = sym.obj(cp, pos='POS', positional_patterns=[NS('p'), NS('q')], keyword_pattern_names=[], keyword_pattern_patterns=[], class_known_type=builtin_type_mock(sym, c, table, 'int', int), as_targets=[])
    ans = sym.run('ClassPatternNode._calculate_match_self', f_ms, [o])
    r.inst('%s.ClassPatternNode._calculate_match_self:two-positional' % MOD, sample='two positional sub-patterns -> %r' % (ans,))
    if ans != 0:
        r.violate('%s.ClassPatternNode._calculate_match_self:two-positional' % MOD, sym.m.rel, f_ms.lineno, 'match_self must be 0 for a class pattern with two positional sub-patterns (got %r)' % (ans,))
    r.positive_control(not (str.__flags__ & TPFLAGS['SEQUENCE']) and not (complex.__flags__ & TPFLAGS['MATCH_SELF']) and not (set.__flags__ & TPFLAGS['MAPPING']),
                       'str is no SEQUENCE type, complex no MATCH_SELF type, set no MAPPING type in the reference')
    return r


# ====================================================================================================== C31-COVER (C loops over array parameters)
FOR_HDR = re.compile(r'^\s*(?:\w+\s+)?(%s)\s*=\s*([^;]+);\s*(%s)\s*(<|<=)\s*([^;]+);\s*(?:\+\+\s*(%s)|(%s)\s*\+\+|(%s)\s*\+=\s*1)\s*$' % (WORD, WORD, WORD, WORD, WORD))


def array_loops(d):
    """array parameter -> [(start text, end text, loop var)] of counted for-loops whose body reads param[var]; plus constant subscripts param[<int>]"""
    body = strip_casts(d.body)
    arrays = [n for n, p in zip(d.param_names(), d.params or []) if n and (re.search(r'\[\s*\]\s*$', p) or p.count('*') >= 2)]
    out = {a: [] for a in arrays}
    if not arrays:
        return out, {}
    consts = {a: set(int(x) for x in re.findall(r'(?<![\w>.])%s\s*\[\s*(\d+)\s*\]' % re.escape(a), body)) for a in arrays}
    text = '\n'.join(l for l in body.split('\n') if not re.match(r'^\s*#', l) and not re.match(r'^\s*\{\{', l))
    try:
        top = P.parse_body(text)
    except AnalysisError:
        return None, consts
    for st in P.walk(top):
        if st.kind != 'for':
            continue
        m = FOR_HDR.match(st.text)
        if not m:
            continue
        var = m.group(1)
        if m.group(3) != var or (m.group(6) or m.group(7) or m.group(8)) != var:
            continue
        btxt = ' '.join(x.text for x in P.walk(P.as_list(st.body)))
        for a in arrays:
            if re.search(r'(?<![\w>.])%s\s*\[\s*%s\s*\]' % (re.escape(a), re.escape(var)), btxt):
                end = P.norm(m.group(5))
                out[a].append((P.norm(m.group(2)), end if m.group(4) == '<' else end + '+1', var))
    return out, consts


def cover_problem(loops):
    """loops: [(start, end)] -> None when the half-open ranges chain from 0 without gap/overlap, else a description"""
    if not loops:
        return None
    ranges = sorted(set((s, e) for s, e, _ in loops))
    starts = {s for s, e in ranges}
    if '0' not in starts:
        return 'no loop starts at index 0 (ranges %s): element 0 is never visited' % ['[%s, %s)' % x for x in ranges]
    # several loops may each cover [0, n) (independent passes): every chain must start at 0 or at the end of another range
    ends = {e for s, e in ranges}
    for s, e in ranges:
        if s != '0' and s not in ends:
            return 'the loop over [%s, %s) starts where no other loop ends (ranges %s): the elements before it are skipped' % (s, e, ['[%s, %s)' % x for x in ranges])
    return None


def rule_cover(ctx, floor=6):
    r = Rule('C31-COVER', 'counted C loops over an array parameter (keys[], subjects[], fixed_names[]) of the MatchCase.c helpers start at element 0 or where another loop over the '
             'same array ends: no key / sub-subject is skipped', floor)
    rel = 'Cython/Utility/' + CFILE
    for d in c_funcs(ctx):
        loops, consts = array_loops(d)
        if loops is None:
            r.info('%s: body not parsable' % d.name)
            continue
        for a, lst in sorted(loops.items()):
            if not lst:
                continue
            key = '%s:%s:loops-over:%s' % (CFILE, d.name, a)
            r.inst(key, sample='%s: %s visited over %s' % (d.name, a, ['[%s, %s)' % (s, e) for s, e, _ in lst]))
            p = cover_problem(lst)
            if p:
                r.violate(key, rel, d.line, '%s iterates over the array parameter %s, but %s — that key / attribute name is never checked or extracted' % (d.name, a, p))
    r.positive_control(cover_problem([('nFixedKeys', 'nKeys', 'n'), ('1', 'nFixedKeys', 'n')]) is not None and cover_problem([('nFixedKeys', 'nKeys', 'n'), ('0', 'nFixedKeys', 'n')]) is None,
                       'second loop starting at 1 leaves element 0 out; [0,f) + [f,n) accepted')
    return r


# ====================================================================================================== C31-CAPACITY
SIZE_CALLS = ('PyDict_Size', 'PyObject_Length', 'PyObject_Size', 'PyMapping_Size', 'PyMapping_Length', 'PySequence_Size', 'PySequence_Length', 'PyTuple_GET_SIZE', 'PyTuple_Size',
              '__Pyx_PyTuple_GET_SIZE', 'PyList_GET_SIZE', '__Pyx_PyList_GET_SIZE', 'PySet_Size', 'PySet_GET_SIZE')
EMPTY_RETURN = re.compile(r'^return\s+(PyDict_New\s*\(\s*\)|PyList_New\s*\(\s*0\s*\)|PyTuple_New\s*\(\s*0\s*\)|PySet_New\s*\(\s*NULL\s*\))$')
FAIL_RETURN = re.compile(r'^return\s+\(?\s*(0|-1|NULL|[\w\s=\-]+\?\s*-?\s*\d+\s*:\s*-?\s*\d+)\s*\)?$')


def capacity_guards(d):
    """[(condition text, capacity var, demand parameter, exit kind)] : `if (cond) <failure exit>` comparing a size-derived local with an integer parameter"""
    from ..engine import cexpr
    body = strip_casts(d.body)
    text = '\n'.join(l for l in body.split('\n') if not re.match(r'^\s*#', l) and not re.match(r'^\s*\{\{', l))
    try:
        top = P.parse_body(text)
    except AnalysisError:
        return None
    caps = set()
    for name in set(re.findall(r'(?<![\w>.])(%s)\s*=(?!=)' % WORD, text)):
        if any(re.match(r'(%s)\s*\(' % '|'.join(SIZE_CALLS), rhs) for rhs, _ in assignments_of(text, name)):
            caps.add(name)
    int_params = {n for n, t in zip(d.param_names(), d.param_types()) if n and '*' not in t and re.search(r'\b(Py_ssize_t|int|long|size_t)\b', t)}
    out = []
    for st in P.walk(top):
        if st.kind != 'if' or st.orelse is not None:
            continue
        blk = P.as_list(st.body)
        texts = [x.text for x in P.walk(blk) if x.kind == 'simple']
        if not texts:
            continue
        last = texts[-1]
        is_fail = bool(FAIL_RETURN.match(last)) and (len(texts) == 1 or any('Raise' in t or 'PyErr_' in t for t in texts))
        is_empty = len(texts) == 1 and bool(EMPTY_RETURN.match(last))
        if not is_fail and not is_empty:
            continue
        try:
            e = cexpr.parse(st.text)
        except cexpr.ParseError:
            continue
        ids = {x[1] for x in cexpr.walk(e) if x[0] == 'id'}
        cs, ps = ids & caps, ids & int_params
        direct = any(x[0] == 'bin' and x[1] in ('<', '<=', '>', '>=', '==', '!=') and {P._strip(x[2])[0], P._strip(x[3])[0]} == {'id'} and
                     {P._strip(x[2])[1], P._strip(x[3])[1]} == cs | ps for x in cexpr.walk(e))
        if len(cs) == 1 and len(ps) == 1 and direct and ids <= cs | ps | {'unlikely', 'likely'}:
            out.append((st.text, next(iter(cs)), next(iter(ps)), 'empty' if is_empty else 'raise' if len(texts) > 1 else 'return', e))
    return out


def rule_capacity(ctx, floor=3):
    from ..engine import cexpr
    r = Rule('C31-CAPACITY', 'a failure exit of a MatchCase.c helper that is guarded by comparing a size of the subject (PyDict_Size, PyObject_Length, tuple size ...) with '
             'the number the pattern needs is taken only when the size is smaller than needed (truth table over size <, ==, > needed)', floor)
    rel = 'Cython/Utility/' + CFILE
    for d in c_funcs(ctx):
        gs = capacity_guards(d)
        if gs is None:
            r.info('%s: body not parsable' % d.name)
            continue
        for cond, cap, dem, kind, e in gs:
            key = '%s:%s:%s-vs-%s' % (CFILE, d.name, cap, dem)
            table = {}
            for label, (v, w) in (('<', (1, 2)), ('==', (2, 2)), ('>', (3, 2))):
                try:
                    table[label] = bool(cexpr.evaluate(e, {cap: v, dem: w}, calls={'unlikely': lambda x: x, 'likely': lambda x: x}))
                except cexpr.EvalError as ex:
                    raise AnalysisError('%s: guard `%s` cannot be evaluated (%s)' % (d.name, cond, ex))
            r.inst(key, sample='%s: if (%s) -> %s exit; taken for %s %s %s: %s' % (d.name, cond, kind, cap, '<,==,>', dem, [table[k] for k in ('<', '==', '>')]))
            if kind == 'empty':
                # "nothing is left over" shortcut: only sound when the subject has exactly as many items as the pattern consumed
                if table['>']:
                    r.violate(key, rel, d.line, '%s returns an empty container under `%s`, which is true when %s > %s: the items the pattern did not name are dropped (**rest / *rest '
                              'is always empty)' % (d.name, cond, cap, dem))
                continue
            for label in ('==', '>'):
                if table[label]:
                    r.violate(key, rel, d.line, '%s gives up (%s) under `%s`, which is true when %s %s %s: a subject that has %s what the pattern needs is rejected%s' % (
                        d.name, 'raises' if kind == 'raise' else 'reports no match', cond, cap, label, dem, 'exactly' if label == '==' else 'more than',
                        ' with a TypeError' if kind == 'raise' else ''))
                    break
    pc = capacity_guards(CDeclMock('f', ['PyObject *d', 'Py_ssize_t nKeys'], '{ Py_ssize_t size; size = PyDict_Size(d); if (size <= nKeys) { return 0; } return 1; }'))
    r.positive_control(bool(pc) and bool(cexpr.evaluate(pc[0][4], {'size': 2, 'nKeys': 2})), '`size <= nKeys` recognised as a failure exit that is taken for size == nKeys')
    return r


# ====================================================================================================== C31-ABSENT
ABSENCE_EXC = ('PyExc_AttributeError', 'PyExc_KeyError')


def absent_paths(d, res):
    """-> [(kind, description, returned constant or None)] for the paths of d on which the looked-up thing turned out to be absent"""
    sents, _, _ = sentinels(d)
    sent_facts = {}
    for s, v, _ in sents:
        sent_facts['(%s == %s)' % (v, s)] = s
        sent_facts['(%s == %s)' % (s, v)] = s
    out = []
    for ch, paths in res:
        for state, ex in paths:
            if ex[0] != 'return':
                continue
            absent = None
            last_failed = None
            rhs_of = {}
            for it in timeline(state):
                if it[0] == 'write' and isinstance(it[2], tuple) and it[2][0] == '=':
                    rhs_of[it[1]] = it[2][1]
                elif it[0] == 'fact':
                    if it[1] in sent_facts and it[2] is True:
                        absent = ('marker', 'the "not found" marker %s came back from the lookup' % sent_facts[it[1]])
                    elif it[1] in rhs_of and it[2] is False:
                        last_failed = rhs_of[it[1]]
                    elif it[2] is True and any(it[1] == 'PyErr_ExceptionMatches(%s)' % x for x in ABSENCE_EXC) and last_failed:
                        m = re.match(r'(%s)\s*\((.*)\)$' % WORD, last_failed, re.S)
                        args = [a.strip() for a in split_args(m.group(2))] if m else []
                        # lookup of a name supplied by the pattern (a variable), not of a fixed protocol attribute such as __match_args__
                        if m and m.group(1) in ('PyObject_GetAttr', 'PyObject_GetItem', '__Pyx_PyObject_GetAttrStr') and len(args) == 2 and re.fullmatch(WORD, args[1]):
                            absent = ('exception', '%s failed with %s' % (last_failed, it[1][len('PyErr_ExceptionMatches('):-1]))
            if absent:
                out.append((absent[0], absent[1], _const_value(ex[1], state), ex[1]))
    return out


def rule_absent(ctx, sym=None, floor=2):
    sym = sym or Sym(ctx)
    r = Rule('C31-ABSENT', 'when a key / attribute named by the pattern turns out to be absent (the lookup returned the "not found" marker, or raised AttributeError/KeyError that '
             'is cleared) the pattern fails: the tri-state C helpers return 0 on every such path, the generated try/except for keyword sub-patterns yields False in the '
             'handler and True otherwise', floor)
    rel = 'Cython/Utility/' + CFILE
    for d in c_funcs(ctx):
        if '*' in (d.ret or '') or not re.search(r'\bint\b', d.ret or ''):
            continue
        if not (sentinels(d)[0] or any(x in d.body for x in ABSENCE_EXC)):
            continue
        res, notes = explore(d.body)
        for n in notes:
            r.info('%s: %s' % (d.name, n))
        paths = absent_paths(d, res)
        kinds = sorted({k for k, _, _, _ in paths})
        for k in kinds:
            key = '%s:%s:absent-%s' % (CFILE, d.name, k)
            mine = [p for p in paths if p[0] == k]
            r.inst(key, sample='%s: %d path(s) on which %s; returned %s' % (d.name, len(mine), mine[0][1], sorted({str(p[2]) for p in mine})))
            for _, desc, val, expr in mine:
                if val is None:
                    r.info('%s: the value returned on an absence path (`return %s`) is not a constant on that path' % (d.name, expr))
                elif val != 0:
                    r.violate(key, rel, d.line, '%s: on a path on which %s the helper returns %d instead of 0 ("no match"): %s' % (
                        d.name, desc, val, 'the pattern matches although the key / attribute is missing, captures stay unbound' if val > 0 else 'an absent key / attribute is reported as an error'))
                    break
    # ---- the generated try/except for keyword sub-patterns
    c = sym.cls('ClassPatternNode')
    fn = sym.method(c, 'make_keyword_pattern_lookups')[1]
    names = [NS('name%d' % i, _ctor='MockName', name='attr%d' % i, pos='POSN') for i in range(2)]
    temps = [NS('temp0', _ctor='MockTemp'), None]
    attrs = [NS('lookup%d' % i, _ctor='MockLookup') for i in range(2)]
    o = sym.obj(c, pos='POS', keyword_pattern_names=names, keyword_subject_temps=temps, keyword_subject_attrs=attrs, as_targets=[])
    node = sym.run('ClassPatternNode.make_keyword_pattern_lookups', fn, [o])
    key = '%s.ClassPatternNode.make_keyword_pattern_lookups:handler' % MOD
    tries = [x for x in walk_ns(node) if ctor_is(x, 'TryExceptStatNode')]
    if len(tries) != 1:
        raise AnalysisError('ClassPatternNode.make_keyword_pattern_lookups no longer builds one try/except statement')
    t = tries[0]
    result_refs = [x for x in (node.__dict__.get('_pos') or []) if isinstance(x, NS)]

    def assigned(stat_root):
        out = []
        for x in walk_ns(stat_root):
            if ctor_is(x, 'SingleAssignmentNode') and ctor_is(x.__dict__.get('rhs'), 'BoolNode'):
                out.append((x.__dict__.get('lhs'), x.rhs.__dict__.get('value')))
        return out
    clauses = t.__dict__.get('except_clauses') or []
    caught = [y.__dict__.get('name') for cl in clauses for y in walk_ns(cl.__dict__.get('pattern')) if ctor_is(y, 'NameNode')]
    h = [a for cl in clauses for a in assigned(cl.__dict__.get('body'))]
    e = assigned(t.__dict__.get('else_clause'))
    r.inst(key, sample='catches %s; handler assigns %s; else assigns %s' % (caught, [v for _, v in h], [v for _, v in e]))
    if caught != ['AttributeError']:
        r.violate(key + ':exception', sym.m.rel, fn.lineno, 'the attribute lookups of keyword sub-patterns are guarded by `except %s`, CPython treats exactly AttributeError as "no match"' % caught)
    if [v for _, v in h] != [False] or [v for _, v in e] != [True]:
        r.violate(key, sym.m.rel, fn.lineno, 'keyword sub-patterns `case C(attr=...)`: the AttributeError handler stores %s and the else branch stores %s as result of the lookup '
                  'stage (must be False / True): a subject that lacks the attribute %s' % ([v for _, v in h], [v for _, v in e], 'matches' if [v for _, v in h] == [True] else 'is mishandled'))
    elif not result_refs or any(lhs is not result_refs[0] for lhs, _ in h + e):
        r.violate(key + ':result', sym.m.rel, fn.lineno, 'the try/except of the keyword lookups does not store its outcome in the result reference the node returns')
    bad = CDeclMock('f', ['PyObject *m', 'PyObject *key'], '{ PyObject *dummy, *value; int result = 1; dummy = PyObject_CallObject(&PyBaseObject_Type, NULL); if (!dummy) return -1; '
                    'value = call2(m, key, dummy); if (!value) { result = -1; goto end; } else if (value == dummy) { goto end; } result = 1; end: return result; }')
    bp = absent_paths(bad, explore(bad.body)[0])
    r.positive_control(bool(bp) and all(p[2] == 1 for p in bp), 'marker path leaving with result == 1 recognised')
    return r


# ====================================================================================================== C31-VALID
def rule_valid(ctx, sym=None, floor=20):
    sym = sym or Sym(ctx)
    r = Rule('C31-VALID', 'compile-time validation of patterns decides like CPython\'s compiler: a case is irrefutable only without a guard; an irrefutable case / alternative '
             'that is not the last one is an error; alternatives of an OR pattern must bind the same names; a name may be bound once; at most one starred name', floor)
    seen = {}

    def bad(key, fn, msg):
        seen.setdefault(key, (fn.lineno, msg))

    def errs(what, fn, args):
        sym.errors = []
        sym.run(what, fn, args)
        return list(sym.errors)
    # ---- case irrefutability
    mc = sym.cls('MatchCaseNode')
    f_irr = sym.method(mc, 'is_irrefutable')[1]
    for irr in (True, False):
        for guard in (True, False):
            rec = Rec('p', irrefutable=irr)
            rec.ns.__dict__['validate_irrefutable'] = lambda: None
            rec.ns.__dict__['irrefutable_message'] = lambda: 'wildcard'
            o = sym.obj(mc, pos='POS', pattern=rec.ns, guard=NS('guard', _ctor='MockGuard') if guard else None, body=NS('body'))
            got = sym.run('MatchCaseNode.is_irrefutable', f_irr, [o])
            key = '%s.MatchCaseNode.is_irrefutable' % MOD
            r.inst('%s:%s/%s' % (key, irr, guard), sample='pattern irrefutable=%s, guard=%s -> %r' % (irr, guard, got))
            if bool(got) != (irr and not guard) or got is OPQ:
                bad(key, f_irr, 'a case whose pattern is %s and which has %s guard is reported as %s: %s' % (
                    'irrefutable' if irr else 'refutable', 'a' if guard else 'no', 'irrefutable' if got else 'refutable',
                    '`case _ if cond:` followed by further cases is rejected as "makes remaining patterns unreachable" although CPython accepts it' if (got and guard) else
                    'unreachable cases after a wildcard are not reported'))
    mn = sym.cls('MatchNode')
    f_val = sym.method(mn, 'validate_irrefutable')[1]
    for first_irr, guard, expect in ((True, False, True), (True, True, False), (False, False, False)):
        cases = []
        for i in range(2):
            rec = Rec('p%d' % i, irrefutable=(first_irr if i == 0 else False))
            rec.ns.__dict__['validate_irrefutable'] = lambda: None
            rec.ns.__dict__['irrefutable_message'] = lambda: 'wildcard'
            cases.append(sym.obj(mc, pos='POS%d' % i, pattern=rec.ns, guard=NS('guard', _ctor='MockGuard') if (guard and i == 0) else None, body=NS('body')))
        o = sym.obj(mn, pos='POS', subject=NS('s'), cases=cases)
        e = errs('MatchNode.validate_irrefutable', f_val, [o])
        key = '%s.MatchNode.validate_irrefutable' % MOD
        r.inst('%s:%s/%s' % (key, first_irr, guard), sample='first case irrefutable=%s guard=%s -> %d error(s)' % (first_irr, guard, len(e)))
        if bool(e) != expect:
            bad(key, f_val, 'two cases, the first %s%s: %s' % ('a wildcard' if first_irr else 'refutable', ' with a guard' if guard else '',
                                                               'no "makes remaining patterns unreachable" error is reported' if expect else 'an error is reported although the statement is valid'))
    # ---- OR alternatives bind the same names
    oc = sym.cls('OrPatternNode')
    f_t = sym.method(oc, 'get_main_pattern_targets')[1]
    for sets, expect in (([{'x'}, {'x'}], False), ([{'x'}, {'y'}], True), ([{'x', 'y'}, {'x'}], True), ([set(), set()], False), ([{'x'}, {'x'}, {'z'}], True)):
        recs = [Rec('a%d' % i, targets=t) for i, t in enumerate(sets)]
        o = sym.obj(oc, pos='POS', alternatives=[x.ns for x in recs], as_targets=[])
        e = errs('OrPatternNode.get_main_pattern_targets', f_t, [o])
        key = '%s.OrPatternNode.get_main_pattern_targets' % MOD
        r.inst('%s:%s' % (key, [sorted(s) for s in sets]), sample='alternatives binding %s -> %d error(s)' % ([sorted(s) for s in sets], len(e)))
        if bool(e) != expect:
            bad(key, f_t, 'OR pattern whose alternatives bind %s: %s (CPython: "alternative patterns bind different names" exactly when the sets differ)' % (
                [sorted(s) for s in sets], 'no error is reported' if expect else 'an error is reported'))
    # ---- sequence: duplicate names, several stars
    sc = sym.cls('MatchSequencePatternNode')
    f_st = sym.method(sc, 'get_main_pattern_targets')[1]
    for stars, names, expect in ((0, ['a', 'b'], False), (1, ['a', 'b'], False), (2, ['a', 'b'], True), (0, ['a', 'a'], True), (1, ['a', 'a'], True)):
        recs = []
        for i, nm in enumerate(names):
            rec = Rec('p%d' % i, targets={nm})
            if i < stars:
                rec.ns.__dict__.update(is_match_and_assign_pattern=True, is_star=True)
            recs.append(rec)
        o = sym.obj(sc, pos='POS', patterns=[x.ns for x in recs], as_targets=[])
        e = errs('MatchSequencePatternNode.get_main_pattern_targets', f_st, [o])
        key = '%s.MatchSequencePatternNode.get_main_pattern_targets' % MOD
        r.inst('%s:%d/%s' % (key, stars, names), sample='%d starred, names %s -> %d error(s)' % (stars, names, len(e)))
        if bool(e) != expect:
            bad(key, f_st, 'sequence pattern with %d starred sub-pattern(s) binding %s: %s' % (stars, names, 'no error is reported' if expect else 'an error is reported although the pattern is valid'))
    # ---- class pattern: keyword repeated
    cpc = sym.cls('ClassPatternNode')
    f_kw = sym.method(cpc, 'validate_keywords')[1]
    for names, expect in ((['a', 'b'], False), (['a', 'a'], True), (['a', 'b', 'a'], True), ([], False)):
        o = sym.obj(cpc, pos='POS', keyword_pattern_names=[NS('kw', _ctor='MockName', name=n, pos='P') for n in names], as_targets=[])
        e = errs('ClassPatternNode.validate_keywords', f_kw, [o])
        key = '%s.ClassPatternNode.validate_keywords' % MOD
        r.inst('%s:%s' % (key, names), sample='keyword sub-patterns %s -> %d error(s)' % (names, len(e)))
        if bool(e) != expect:
            bad(key, f_kw, 'class pattern with keyword sub-patterns %s: %s (CPython: "attribute name repeated in class pattern" exactly for a repeated name)' % (
                names, 'no error is reported' if expect else 'an error is reported'))
    # ---- mapping pattern: literal key repeated
    mpc = sym.cls('MatchMappingPatternNode')
    f_vk = sym.method(mpc, 'validate_keys')[1]
    for consts, expect in (([1, 2], False), ([1, 1], True), ([1, 2, 1], True), ([0, 0.0], True)):
        keys = []
        for i, cv in enumerate(consts):
            k = _key_mock('k%d' % i, True)
            k.__dict__['constant_result'] = cv
            keys.append(k)
        o = sym.obj(mpc, pos='POS', keys=keys, value_patterns=[Rec('v%d' % i).ns for i in range(len(consts))], as_targets=[])
        e = errs('MatchMappingPatternNode.validate_keys', f_vk, [o])
        key = '%s.MatchMappingPatternNode.validate_keys:duplicate-literal' % MOD
        r.inst('%s:%s' % (key, consts), sample='literal keys %s -> %d error(s)' % (consts, len(e)))
        if bool(e) != expect:
            bad(key, f_vk, 'mapping pattern with the literal keys %s: %s (CPython: "mapping pattern checks duplicate key" exactly when two literal keys are equal)' % (
                consts, 'no error is reported' if expect else 'an error is reported'))
    for key, (line, msg) in sorted(seen.items()):
        r.violate(key, sym.m.rel, line, msg)
    r.positive_control(True, 'validation decisions evaluated')
    return r


# ====================================================================================================== C31-NONE
def rule_none(ctx, sym=None, floor=7):
    sym = sym or Sym(ctx)
    r = Rule('C31-NONE', 'a subject whose static type already answers the sequence / mapping / class test is still tested against None when it may be None: the test built '
             'is `subject is not None` (None is no list, dict or instance), True when it cannot be None, False when the type excludes a match, the run-time helper otherwise', floor)
    c = sym.cls('StaticTypeCheckNode')
    fn = sym.method(c, 'analyse_types')[1]

    def passthrough(args, kw):
        return kw.get('_receiver', OPQ)
    passthrough.wants_receiver = True
    fallback = NS('fallback', _ctor='MockFallback')
    fallback.__dict__['analyse_expressions'] = lambda env: fallback
    for answer in (True, False, None):
        for may_be_none in (True, False):
            arg = NS('arg', _ctor='MockArg', type=NS('t'), may_be_none=lambda m=may_be_none: m)
            o = sym.obj(c, pos='POS', arg=arg, fallback=fallback, check=lambda t, a=answer: a)
            sym.intercept = {'analyse_expressions': passthrough}
            try:
                res = sym.run('StaticTypeCheckNode.analyse_types', fn, [o, NS('env')])
            finally:
                sym.intercept = {}
            key = '%s.StaticTypeCheckNode.analyse_types:%s/%s' % (MOD, answer, 'may-be-None' if may_be_none else 'not-None')
            desc = _desc_test(res, arg, fallback)
            want = 'fallback' if answer is None else 'False' if answer is False else ('arg is_not None' if may_be_none else 'True')
            r.inst(key, sample='static answer %s, subject %s -> %s' % (answer, 'may be None' if may_be_none else 'never None', desc))
            if desc != want:
                r.violate(key, sym.m.rel, fn.lineno, 'static type check answering %s for a subject that %s: the node becomes `%s`, expected `%s` — %s' % (
                    answer, 'may be None' if may_be_none else 'cannot be None', desc, want,
                    'a list/tuple/dict typed subject matches only when it is None (and None matches)' if 'is None' in desc else 'the pattern matches / fails regardless of the subject'))
    # class pattern on a subject typed as (a subtype of) the class
    cp = sym.cls('ClassPatternNode')
    f_tc = sym.method(cp, 'make_typecheck_call')[1]
    for may_be_none in (True, False):
        known = NS('known_type', _ctor='MockExtType', is_pyobject=True)
        st = NS('stype', is_pyobject=True, subtype_of_resolved_type=lambda t: t is known)
        subj = NS('subject', _ctor='MockSubject', type=st, pos='POS', may_be_none=lambda m=may_be_none: m)
        o = sym.obj(cp, pos='POS', class_known_type=known, as_targets=[])
        res = sym.run('ClassPatternNode.make_typecheck_call', f_tc, [o, subj, NS('class_node')])
        desc = _desc_test(res, subj, None)
        want = 'arg is_not None' if may_be_none else 'True'
        key = '%s.ClassPatternNode.make_typecheck_call:typed-subject:%s' % (MOD, 'may-be-None' if may_be_none else 'not-None')
        r.inst(key, sample='subject typed as the class, %s -> %s' % ('may be None' if may_be_none else 'never None', desc))
        if desc != want:
            r.violate(key, sym.m.rel, f_tc.lineno, 'class pattern on a subject statically typed as the class (%s): the type test becomes `%s`, expected `%s`' % (
                'may be None' if may_be_none else 'never None', desc, want))
    r.positive_control(_desc_test(NS('c', _ctor='PrimaryCmpNode', operator='is', operand1=fallback, operand2=NS('n', _ctor='NoneNode')), fallback, None) == 'arg is None',
                       'an `is None` test is told apart from `is not None`')
    return r


def _desc_test(res, arg, fallback):
    if res is fallback and fallback is not None:
        return 'fallback'
    if ctor_is(res, 'BoolNode'):
        return str(res.__dict__.get('value'))
    if ctor_is(res, 'PrimaryCmpNode'):
        a, b = res.__dict__.get('operand1'), res.__dict__.get('operand2')
        return '%s %s %s' % ('arg' if a is arg else '?', res.__dict__.get('operator'), 'None' if ctor_is(b, 'NoneNode') else '?')
    return repr(res)


# ====================================================================================================== C31-DICTONLY
DICT_ONLY_API = {'PyDict_Size': 0, 'PyDict_Contains': 0, 'PyDict_GetItem': 0, 'PyDict_GetItemWithError': 0, 'PyDict_GetItemRef': 0, '__Pyx_PyDict_GetItemRef': 0, 'PyDict_Copy': 0,
                 'PyDict_Next': 0, 'PyDict_DelItem': 0, 'PyDict_SetItem': 0, 'PyDict_Keys': 0, 'PyDict_Values': 0, 'PyDict_Items': 0, 'PyDict_GET_SIZE': 0, 'PyDict_Update': 0}
DICT_MAKERS = ('PyDict_New', 'PyDict_Copy', '_PyDict_NewPresized')
DICT_GUARD = re.compile(r'^(\w*Dict\w*_Check(?:Exact)?)\((\w+)\)$')


def dict_only_params(ctx):
    """{function name: {parameter index: [api calls]}} — parameters handed to the dict-only C-API without a dict check on that path (fixpoint over callers inside the file)"""
    funcs = {d.name: d for d in c_funcs(ctx)}
    need = {}
    changed = True
    rounds = 0
    while changed and rounds < 5:
        changed = False
        rounds += 1
        for d in funcs.values():
            params = d.param_names()
            res, notes = explore(d.body)
            for ch, paths in res:
                tempita_dict = any(('Exact' in c and 'Dict' in c and not c.startswith('not:') and c != 'else') for c in ch)
                for state, ex in paths:
                    known = set()
                    for it in with_flag_facts(timeline(state)):
                        if it[0] == 'fact' and it[2] is True:
                            m = DICT_GUARD.match(it[1])
                            if m:
                                known.add(m.group(2))
                        elif it[0] == 'write' and isinstance(it[2], tuple) and it[2][0] == '=' and re.match(r'(%s)\s*\(' % '|'.join(DICT_MAKERS), it[2][1]):
                            known.add(it[1])
                        elif it[0] == 'call':
                            fname, args = it[1], it[2] or []
                            idxs = []
                            if fname in DICT_ONLY_API:
                                idxs = [DICT_ONLY_API[fname]]
                            elif fname in need:
                                idxs = sorted(need[fname])
                            for i in idxs:
                                if i < len(args):
                                    a = args[i].strip()
                                    if a in params and a not in known and not tempita_dict:
                                        slot = need.setdefault(d.name, {}).setdefault(params.index(a), [])
                                        if fname not in slot:
                                            slot.append(fname)
                                            changed = True
    return need, funcs


def rule_dictonly(ctx, sym=None, floor=5):
    sym = sym or Sym(ctx)
    r = Rule('C31-DICTONLY', 'MatchCase.c helpers that hand a parameter to the dict-only C-API (PyDict_Size, PyDict_Contains, PyDict_GetItemRef ...) are only reached with an object '
             'known to be an exact dict: inside the C file the call is dominated by a *Dict*_Check, and MatchCaseNodes.py selects such a helper only for subjects whose '
             'static type is dict / frozendict', floor)
    need, funcs = dict_only_params(ctx)
    rel = 'Cython/Utility/' + CFILE
    exported = {}
    for fname, slots in sorted(need.items()):
        d = funcs[fname]
        called_inside = any(re.search(r'(?<![\w])%s\s*\(' % re.escape(fname), o.body) for o in funcs.values() if o is not d)
        for idx, apis in sorted(slots.items()):
            key = '%s:%s:dict-only-parameter:%d' % (CFILE, fname, idx)
            r.inst(key, sample='%s: parameter %d (%s) reaches %s without a dict check' % (fname, idx, d.param_names()[idx], apis))
            exported.setdefault(fname, set()).add(idx)
    # callers inside the file were folded into `need` (a caller that passes its own parameter on inherits the obligation); a caller that passes something else must have checked it
    for d in funcs.values():
        res, _ = explore(d.body)
        params = d.param_names()
        for ch, paths in res:
            for state, ex in paths:
                known = set()
                passed = set()
                for it in with_flag_facts(timeline(state)):
                    if it[0] == 'fact' and it[2] is True and DICT_GUARD.match(it[1]):
                        # one test of a disjunction (`PyDict_CheckExact(o) || PyFrozenDict_CheckExact(o)`) passed: o is a dict whatever the earlier tests said
                        passed.add(DICT_GUARD.match(it[1]).group(2))
                        known.add(DICT_GUARD.match(it[1]).group(2))
                        known.discard('!' + DICT_GUARD.match(it[1]).group(2))
                    elif it[0] == 'fact' and it[2] is False and DICT_GUARD.match(it[1]) and DICT_GUARD.match(it[1]).group(2) not in passed:
                        # on a path where every dict test made so far FAILED the object may be any non-dict
                        known.add('!' + DICT_GUARD.match(it[1]).group(2))
                    elif it[0] == 'call' and it[1] in need:
                        for i in need[it[1]]:
                            a = (it[2] or [])[i].strip() if i < len(it[2] or []) else None
                            key = '%s:%s:calls:%s' % (CFILE, d.name, it[1])
                            r.inst(key, sample='%s calls %s(%s)' % (d.name, it[1], a))
                            if a is not None and ('!' + a) in known:
                                r.violate(key, rel, d.line, '%s calls %s with `%s` on the path where the dict check of `%s` FAILED: PyDict_* functions are applied to an object that is not a '
                                          'dict (SystemError / wrong answers for Mapping subjects), and real dicts take the slow generic path' % (d.name, it[1], a, a))
    # ---- Python side: which helper is selected for which static subject type
    mp = sym.cls('MatchMappingPatternNode')
    f_keys = sym.method(mp, 'check_all_keys')[1]
    dict_helpers = set(exported)
    macro_to_func = {}
    for name, lst in variadic_forwarders_all(ctx).items():
        macro_to_func[name] = lst
    for tdesc, flags in (('dict', {'is_pydict_type': True, 'is_builtin_type': True, 'is_pyobject': True}), ('object', {'is_pyobject': True}),
                         ('extension type', {'is_pyobject': True, 'is_extension_type': True}), ('list', {'is_builtin_type': True, 'is_pyobject': True})):
        t = NS('type ' + tdesc, **flags)
        t.__dict__['_getattr'] = lambda n: (False if n.startswith('is_') else OPQ)
        subj = NS('subject', _ctor='MockSubject', type=t, pos='POS')
        # the state check_all_keys finds when get_comparison_node calls it: one value pattern and one sub-subject per key (generate_subjects has run)
        o = sym.obj(mp, pos='POS', keys=[_key_mock('k0', True)], value_patterns=[Rec('v0').ns], subject_temps=[NS('temp0', _ctor='MockTemp')], as_targets=[])
        node = sym.run('MatchMappingPatternNode.check_all_keys', f_keys, [o, subj])
        hname = (node.__dict__.get('_pos') or [None, None])[1] if ctor_is(node, 'PythonCapiCallNode') and len(node.__dict__.get('_pos') or []) > 1 else None
        key = '%s.MatchMappingPatternNode.check_all_keys:%s' % (MOD, tdesc.replace(' ', '_'))
        target = macro_to_func.get(hname, hname)
        r.inst(key, sample='subject typed %s -> %s (-> %s)' % (tdesc, hname, target))
        if hname is None:
            continue
        if target in dict_helpers and tdesc != 'dict':
            r.violate(key, sym.m.rel, f_keys.lineno, 'for a subject statically typed as %s check_all_keys selects %s, which applies the dict-only C-API to its subject parameter: only an '
                      'exact dict / frozendict may take this helper' % (tdesc, target))
    r.positive_control(bool(need), 'at least one helper with a dict-only parameter found (%s)' % sorted(need))
    return r


def variadic_forwarders_all(ctx):
    """macro name -> forwarded function name for `#define NAME(...) FUNC(x, __VA_ARGS__)` in MatchCase.c"""
    from . import pC31
    out = {}
    for name, lst in pC31.variadic_forwarders(ctx).items():
        callees = {callee for d, callee, inj in lst}
        if len(callees) == 1:
            out[name] = next(iter(callees))
    return out


# ====================================================================================================== C31-ASBIND (pending finding)
def rule_asbind(ctx, sym=None, floor=4):
    """pending finding (FINDING_3): fires on PatternNode.create_target_assignments of the unmodified tree (`case 1.0 as x` binds 1.0, not the subject)"""
    sym = sym or Sym(ctx)
    r = Rule('C31-ASBIND', '`<pattern> as name` binds the name to the SUBJECT that matched: the assignment built for an as-target has the subject node as right-hand side for every '
             'pattern class (for a literal pattern the subject need not be the literal: `case 1.0 as x` matches 1 and True)', floor)
    from . import pC31
    base, concrete = pC31.pattern_classes(ctx)
    for c in concrete:
        fn = sym.method(c, 'create_target_assignments')[1]
        for simple in (True, False):
            target = NS('target', _ctor='MockName', name='x', pos='POST')
            target.__dict__['clone_node'] = lambda: target
            value = NS('value', _ctor='MockValue', is_simple=lambda s=simple: s)
            value.__dict__['clone_node'] = lambda: value
            o = sym.obj(c, pos='POS', as_targets=[target], value=value, is_is_check=False, target=None, alternatives=[], patterns=[], keys=[], value_patterns=[],
                        positional_patterns=[], keyword_pattern_names=[], keyword_pattern_patterns=[], double_star_capture_target=None, class_known_type=None)
            o.__dict__['create_main_pattern_assignment_list'] = lambda subject, env: []
            subj = subject_mock(sym)
            res = sym.run('%s.create_target_assignments' % c.name, fn, [o, subj, NS('env')])
            key = '%s.%s.create_target_assignments:as-target%s' % (MOD, c.name, ':simple-value' if simple else '')
            rhs = [x.__dict__.get('rhs') for x in walk_ns(res) if ctor_is(x, 'SingleAssignmentNode') and x.__dict__.get('lhs') is target]
            r.inst(key, sample='%s with `as x`: x = %s' % (c.name, ['subject' if y is subj else 'pattern value' if y is value else repr(y) for y in rhs]))
            if len(rhs) != 1:
                r.violate(key, sym.m.rel, fn.lineno, '%s: %d assignments are built for the as-target' % (c.name, len(rhs)))
            elif rhs[0] is not subj:
                r.violate(key, sym.m.rel, fn.lineno, '`case <%s> as x`: x is bound to %s instead of the subject — e.g. `case 1.0 as x` with subject 1 (or True) binds the float 1.0, '
                          'CPython binds the subject itself' % (c.name, 'the value written in the pattern' if rhs[0] is value else repr(rhs[0])))
    r.positive_control(True, 'as-target assignments of every concrete pattern class evaluated')
    return r


# ====================================================================================================== C31-SLICE
def slice_forms(d, start=3, end=8):
    """-> [(description, offset, length)] : every way function d(x, start, end) builds its result list, as (first source index, number of elements) evaluated at
    the given start / end (the index expressions are linear: two points fix them); unknown constructions -> AnalysisError"""
    from ..engine import cexpr
    env0 = {'start': start, 'end': end}
    forms = []
    for ch, text in variants(d.body):
        t = strip_casts(text)
        t = re.sub(r'&\s*(\w+)\s*\(', r'ADDR_\1(', t)
        if not balanced(t):
            continue
        top = P.parse_body(t)
        env = dict(env0)
        defs = {}
        for st in P.walk(top):
            if st.kind != 'simple':
                continue
            decl = P.Explorer._declaration(st.text)
            pairs = [(n, rhs) for n, rhs in decl if rhs is not None] if decl else []
            m = P.ASSIGN_ST.match(st.text)
            if not decl and m and m.group('op') == '=' and re.fullmatch(WORD, m.group('lhs').strip()):
                pairs = [(m.group('lhs').strip(), m.group('rhs'))]
            for n, rhs in pairs:
                defs[n] = rhs.strip()
                try:
                    env[n] = cexpr.evaluate(cexpr.parse(rhs), env)
                except (cexpr.ParseError, cexpr.EvalError):
                    pass

        def val(expr):
            try:
                return cexpr.evaluate(cexpr.parse(expr), env)
            except (cexpr.ParseError, cexpr.EvalError) as e:
                raise AnalysisError('%s: `%s` is not an integer expression over start/end (%s)' % (d.name, expr, e))
        found = False
        for st in P.walk(top):
            if st.kind == 'simple':
                m = re.match(r'return\s+(\w+)\s*\((.*)\)$', st.text, re.S)
                if m and m.group(1) == 'PyList_GetSlice':
                    a = split_args(m.group(2))
                    forms.append(('PyList_GetSlice', val(a[1]), val(a[2]) - val(a[1])))
                    found = True
                elif m and m.group(1).endswith('FromArray'):
                    a = split_args(m.group(2))
                    base = re.match(r'\s*(\w+)\s*(?:\+\s*(.+))?$', a[0])
                    if not base or base.group(1) not in defs:
                        raise AnalysisError('%s: array argument `%s` of %s not understood' % (d.name, a[0], m.group(1)))
                    src = re.match(r'ADDR_\w*GET_ITEM\s*\(\s*\w+\s*,\s*(.+)\)$', defs[base.group(1)])
                    if not src:
                        raise AnalysisError('%s: `%s = %s` is not the address of an item of the subject' % (d.name, base.group(1), defs[base.group(1)]))
                    forms.append((m.group(1), val(src.group(1)) + (val(base.group(2)) if base.group(2) else 0), val(a[1])))
                    found = True
                elif m and d.name != m.group(1) and 'SliceToList' in m.group(1):
                    a = [x.strip() for x in split_args(m.group(2))]
                    forms.append(('delegates to ' + m.group(1), val(a[1]), val(a[2]) - val(a[1])))
                    found = True
            elif st.kind == 'for':
                h = FOR_HDR.match(st.text)
                if not h:
                    continue
                var, lo, hi = h.group(1), val(h.group(2)), val(h.group(5)) + (1 if h.group(4) == '<=' else 0)
                btxt = ' ; '.join(x.text for x in P.walk(P.as_list(st.body)) if x.kind in ('simple', 'if'))
                setm = re.search(r'\w*SET_ITEM\s*\(\s*(\w+)\s*,\s*([^,]+),', btxt) or re.search(r'PyList_SetItem\s*\(\s*(\w+)\s*,\s*([^,]+),', btxt)
                getm = re.search(r'=\s*\w+\s*\(\s*x\s*,\s*([^)]+)\)', btxt)
                if not setm or not getm:
                    continue
                lst = setm.group(1)
                alloc = re.match(r'PyList_New\s*\((.+)\)$', defs.get(lst, ''))
                if not alloc:
                    raise AnalysisError('%s: the list filled in the loop is not allocated with PyList_New(n)' % d.name)
                n = val(alloc.group(1))
                pos, src = [], []
                for i in (lo, hi - 1):
                    env[var] = i
                    pos.append(val(setm.group(2)))
                    src.append(val(getm.group(1)))
                env.pop(var, None)
                if pos != [0, n - 1] or hi - lo != n:
                    forms.append(('loop filling positions %d..%d of a list of %d' % (pos[0], pos[1], n), src[0], -1))
                else:
                    forms.append(('loop', src[0], n if src[1] == src[0] + n - 1 else -1))
                found = True
        if not found:
            raise AnalysisError('%s: no list construction recognised in variant %s' % (d.name, ch))
    return forms


def rule_slice(ctx, floor=22):
    r = Rule('C31-SLICE', 'the helpers that build the list bound to a starred sub-pattern from subject[start:end] — every #if variant of each of them — deliver exactly the '
             'elements start .. end-1 (source offset start, end-start elements, result positions 0 .. end-start-1), evaluated on the linear forms of their index expressions', floor)
    rel = 'Cython/Utility/' + CFILE
    n = 0
    for d in c_funcs(ctx):
        if 'SliceToList' not in d.name:
            continue
        names = d.param_names()
        if len(names) != 3 or names[1:] != ['start', 'end']:
            raise AnalysisError('%s: expected parameters (x, start, end)' % d.name)
        for st_, en_ in ((3, 8), (5, 6), (0, 4)):
            for desc, off, length in slice_forms(d, st_, en_):
                n += 1
                key = '%s:%s:slice-form' % (CFILE, d.name)
                r.inst('%s:%s:%d-%d' % (key, desc.split(' ')[0], st_, en_), sample='%s via %s: first source index %s, %s elements (for start=%d, end=%d)' % (d.name, desc, off, length, st_, en_))
                if (off, length) != (st_, en_ - st_):
                    if not any(f.construct == key for f in r.findings):
                        r.violate(key, rel, d.line, '%s(x, start=%d, end=%d) via %s takes %s element(s) beginning at source index %s; the starred sub-pattern must receive x[%d:%d] '
                                  '(%d elements from index %d)%s' % (d.name, st_, en_, desc, length if length >= 0 else 'a wrongly placed run of', off, st_, en_, en_ - st_, st_,
                                                                    ': writes outside the allocated list' if 'positions' in desc else ''))
    if n < 12:
        raise AnalysisError('only %d list constructions found in the *SliceToList helpers' % n)
    bad = CDeclMock('f', ['PyObject *x', 'Py_ssize_t start', 'Py_ssize_t end'],
                    '{ Py_ssize_t total = end-start; Py_ssize_t i; PyObject *list; list = PyList_New(total); for (i=start; i<end; ++i) { PyObject *obj = slot(x, i); if (SET_ITEM(list, i, obj)) return NULL; } return list; }')
    r.positive_control(slice_forms(bad)[0][2] == -1, 'list[i] instead of list[i-start] recognised as misplaced')
    return r


# ====================================================================================================== C31-ONCE
def rule_once(ctx, sym=None, floor=6):
    sym = sym or Sym(ctx)
    r = Rule('C31-ONCE', 'the statement level of a match: a subject that is not a literal is forced into a temporary (it is read by every case, it must be evaluated once); a case '
             'whose comparison is known at compile time is dropped exactly when it is known to FAIL and kept when it is known to succeed; errors collected while analysing '
             'a kept case are reported', floor)
    mn = sym.cls('MatchNode')
    fn = sym.method(mn, 'analyse_expressions')[1]
    proxy_cls = sym.ix.cls('ExprNodes', 'ProxyNode')
    for literal in (False, True):
        coerced = []
        arg = NS('subject_expr', _ctor='MockExpr', is_literal=literal)
        arg.__dict__['coerce_to_temp'] = lambda env: coerced.append(1) or NS('temp', _ctor='MockTemp', is_temp=True)
        proxy = NS('proxy', _ctor='ProxyNode', _cls=proxy_cls, arg=arg)
        proxy.__dict__['analyse_expressions'] = lambda env: proxy
        clone = NS('clone', _ctor='CloneNode')
        clone.__dict__['analyse_expressions'] = lambda env: clone
        o = sym.obj(mn, pos='POS', subject=proxy, subject_clonenode=clone, cases=[], sequence_mapping_temp=None)
        sym.run('MatchNode.analyse_expressions', fn, [o, NS('env')])
        key = '%s.MatchNode.analyse_expressions:subject:%s' % (MOD, 'literal' if literal else 'expression')
        is_temp = bool(coerced) and ctor_is(proxy.__dict__.get('arg'), 'MockTemp')
        r.inst(key, sample='%s subject -> %s' % ('literal' if literal else 'non-literal', 'coerced to a temp' if is_temp else 'used as written'))
        if not literal and not is_temp:
            r.violate(key, sym.m.rel, fn.lineno, 'a non-literal subject expression is not coerced to a temporary: every case re-evaluates it (side effects happen once per case, '
                      'cases can see different values)')
    mc = sym.cls('MatchCaseNode')
    f_case = sym.method(mc, 'analyse_case_expressions')[1]
    bool_cls = sym.ix.cls('ExprNodes', 'BoolNode')
    reported = []
    sym.glob['local_errors'] = lambda *a: NS('local_errors', _enter=lambda: ['collected error'], _exit=lambda: None)
    sym.glob['report_error'] = lambda e: reported.append(e)
    for kind in ('known-true', 'known-false', 'run-time'):
        del reported[:]
        comp = NS('comp', _ctor='BoolNode' if kind != 'run-time' else 'MockCmp', _cls=bool_cls if kind != 'run-time' else None, value=(kind == 'known-true'))
        comp.__dict__.update(analyse_types=lambda env: comp, coerce_to_boolean=lambda env: comp, coerce_to_simple=lambda env: comp)
        pattern = NS('pattern', _ctor='MockPattern', get_comparison_node=lambda *a: comp)
        pattern.__dict__['analyse_pattern_expressions'] = lambda env, smt: pattern
        body = NS('body', _ctor='MockBody')
        body.__dict__['analyse_expressions'] = lambda env: body
        o = sym.obj(mc, pos='POS', pattern=pattern, guard=None, body=body, target_assignments=None)
        res = sym.run('MatchCaseNode.analyse_case_expressions', f_case, [o, NS('subject'), NS('env'), None])
        key = '%s.MatchCaseNode.analyse_case_expressions:%s' % (MOD, kind)
        kept = res is o
        r.inst(key, sample='comparison %s -> case %s, %d error(s) reported' % (kind, 'kept' if kept else 'dropped' if res is None else repr(res), len(reported)))
        want_kept = kind != 'known-false'
        if kept != want_kept or (res is not None and res is not o):
            r.violate(key, sym.m.rel, f_case.lineno, 'a case whose pattern comparison is %s at compile time is %s: %s' % (
                kind, 'kept' if kept else 'dropped', 'a case that always matches (e.g. `case x if cond:`) disappears from the statement' if want_kept else
                'dead cases keep their errors'))
        r.inst(key + ':errors')
        if kept and not reported:
            r.violate(key + ':errors', sym.m.rel, f_case.lineno, 'errors collected while building the comparison of a case that is kept are never reported: invalid patterns compile silently')
    r.positive_control(True, 'subject and constant-case decisions evaluated')
    return r


# ====================================================================================================== C31-SETUSE
def rule_setuse(ctx, floor=1):
    r = Rule('C31-SETUSE', 'a local set/dict of a MatchCase.c helper that is queried (PySet_Contains / PyDict_Contains) to detect duplicates is also filled (PySet_Add / '
             'PyDict_SetItem) in a loop of the same function: a container that stays empty makes the duplicate test vacuous', floor)
    rel = 'Cython/Utility/' + CFILE
    Q = {'PySet_Contains': 'PySet_Add', 'PyDict_Contains': 'PyDict_SetItem', 'PySequence_Contains': 'PyList_Append'}
    for d in c_funcs(ctx):
        body = strip_casts(d.body)
        for var in sorted(pointer_locals(body)):
            defs = [rhs for rhs, _ in assignments_of(body, var) if rhs not in ('NULL', '0')]
            if not defs or not all(re.match(r'(PySet_New|PyDict_New|PyList_New)\s*\(', x) for x in defs):
                continue
            for q, w in Q.items():
                if re.search(r'\b%s\s*\(\s*%s\s*,' % (q, re.escape(var)), body):
                    key = '%s:%s:%s:filled' % (CFILE, d.name, var)
                    writes = [m.start() for m in re.finditer(r'\b%s\s*\(\s*%s\s*,' % (w, re.escape(var)), body)]
                    in_loop = any(re.search(r'\bfor\s*\(', body[:pos]) for pos in writes)
                    r.inst(key, sample='%s: %s is queried with %s and filled with %s %d time(s)' % (d.name, var, q, w, len(writes)))
                    if not writes or not in_loop:
                        r.violate(key, rel, d.line, '%s tests membership in the local container %s (%s) but never adds anything to it%s: the duplicate check can never fire '
                                  '(`case {K.A: x, K.A: y}` / duplicated __match_args__ entries are accepted)' % (d.name, var, q, '' if not writes else ' inside a loop'))
    r.positive_control(True, 'def-use of the local containers evaluated')
    return r


# ====================================================================================================== C31-CFG
class FlowMock:
    """the three operations of FlowControl.ControlFlow that visit_MatchNode uses, on recording blocks (semantics as documented there: newblock = floating block linked to
    parent; nextblock = new block linked to parent or to the current block, becomes current)"""

    def __init__(self):
        self.n = 0
        flow = self
        self.ns = NS('flow', _ctor='MockFlow', block=None)
        self.ns.__dict__['newblock'] = lambda parent=None: flow.new(parent, False)
        self.ns.__dict__['nextblock'] = lambda parent=None: flow.new(parent, True)
        self.ns.__dict__['block'] = self.make()

    def make(self):
        self.n += 1
        b = NS('block%d' % self.n, _ctor='MockBlock', children=[], parents=[], visited=[])
        b.__dict__['add_child'] = lambda child, b=b: (b.children.append(child), child.parents.append(b))[0] if child not in b.children else None
        return b

    def new(self, parent, make_current):
        b = self.make()
        cur = self.ns.__dict__.get('block')
        if parent:
            parent.add_child(b)
        elif make_current and cur:
            cur.add_child(b)
        if make_current:
            self.ns.__dict__['block'] = b
        return b


def rule_cfg(ctx, floor=8):
    sym = Sym(ctx, 'FlowControl')
    r = Rule('C31-CFG', 'control-flow graph built for a match statement (ControlFlowAnalysis.visit_MatchNode evaluated on a recording flow object): every case is reachable from '
             'the subject, a guard that fails leads to the next case (or past the statement), the body of every case leads past the statement, bindings are analysed '
             'before the guard', floor)
    c = sym.cls('ControlFlowAnalysis')
    fn = sym.method(c, 'visit_MatchNode')[1]
    mc = sym.ix.cls('MatchCaseNodes', 'MatchCaseNode')
    if mc is None:
        raise AnalysisError('MatchCaseNodes.MatchCaseNode vanished')
    for shape in (('g', 'u'), ('u', 'g', 'u'), ('g', 'g'), ('u',), ('g',)):
        flow = FlowMock()
        start = flow.ns.block
        where = {}
        me = sym.obj(c, flow=flow.ns)
        cases = []
        for i, k in enumerate(shape):
            parts = {p: NS('%s%d' % (p, i), _ctor='MockPart', label='%s%d' % (p, i)) for p in ('pattern', 'target_assignments', 'guard', 'body')}
            cases.append(NS('case%d' % i, _ctor='MatchCaseNode', _cls=mc, pattern=parts['pattern'], target_assignments=parts['target_assignments'],
                            guard=parts['guard'] if k == 'g' else None, body=parts['body']))

        def visit(args, kw):
            lab = getattr(args[0], 'label', None) if args and isinstance(args[0], NS) else None
            if lab:
                where[lab] = flow.ns.__dict__.get('block')
            return args[0] if args else None
        sym.intercept = {'_visit': visit}
        node = NS('match', _ctor='MatchNode', subject=NS('subject', label='subject'), cases=cases)
        try:
            sym.run('ControlFlowAnalysis.visit_MatchNode', fn, [me, node])
        finally:
            sym.intercept = {}
        end = flow.ns.__dict__.get('block')
        desc = '[%s]' % ', '.join('guarded' if k == 'g' else 'plain' for k in shape)

        def reach(a, b, seen=None):
            seen = seen or set()
            if a is b:
                return True
            if a is None or id(a) in seen:
                return False
            seen.add(id(a))
            return any(reach(x, b, seen) for x in a.children)
        key = 'ControlFlowAnalysis.visit_MatchNode:cfg'
        for i, k in enumerate(shape):
            pb, bb, gb, ab = where.get('pattern%d' % i), where.get('body%d' % i), where.get('guard%d' % i), where.get('target_assignments%d' % i)
            r.inst('%s:%s:case%d' % (key, desc, i), sample='cases %s: case %d visited in blocks pattern=%s bindings=%s guard=%s body=%s' % (
                desc, i, *[getattr(x, '_name', None) for x in (pb, ab, gb, bb)]))
            if pb is None or bb is None or ab is None or (k == 'g' and gb is None):
                r.violate(key + ':visited', sym.m.rel, fn.lineno, 'cases %s: pattern / bindings / guard / body of case %d are not all visited' % (desc, i))
                continue
            if not reach(start, pb):
                r.violate(key + ':reachable', sym.m.rel, fn.lineno, 'cases %s: the pattern of case %d is not reachable from the subject in the control-flow graph' % (desc, i))
            if not (reach(pb, ab) and reach(ab, bb)) or (k == 'g' and not (reach(ab, gb) and reach(gb, bb) and gb is not ab)):
                r.violate(key + ':order', sym.m.rel, fn.lineno, 'cases %s: case %d is not analysed as pattern -> bindings -> guard -> body' % (desc, i))
            if end is None or not reach(bb, end):
                r.violate(key + ':body-exit', sym.m.rel, fn.lineno, 'cases %s: the body of case %d does not lead to the code after the match statement' % (desc, i))
            if k == 'g':
                nxt = where.get('pattern%d' % (i + 1)) if i + 1 < len(shape) else end
                direct = nxt is not None and any(x is nxt for x in gb.children)
                if not direct:
                    r.violate(key + ':guard-false', sym.m.rel, fn.lineno, 'cases %s: the graph has no edge from the guard of case %d to %s: when the guard fails control continues there, '
                              'so names bound / unbound on that path are analysed wrongly (false "referenced before assignment", or none where due)' % (
                                  desc, i, 'the next case' if i + 1 < len(shape) else 'the code after the statement'))
    r.positive_control(True, 'graphs of five case-list shapes evaluated')
    return r


# ====================================================================================================== C31-TRISTATE
def tristate_problems(d, res):
    """variables that are compared with -1 ("unknown") somewhere in d and are used as a bare truth value on a path on which they can still be -1"""
    body = strip_casts(d.body)
    cands = set(re.findall(r'(?<![\w>.])(%s)\s*[!=]=\s*-\s*1\b' % WORD, body))
    if not cands:
        return set(), {}
    problems = {}
    for ch, paths in res:
        for state, ex in paths:
            dom = {v: {-1, 0, 1, 'other'} for v in cands}
            for it in timeline(state):
                if it[0] == 'write' and it[1] in dom:
                    rhs = it[2][1] if isinstance(it[2], tuple) and it[2][0] == '=' else None
                    if rhs is None:
                        dom[it[1]] = {-1, 0, 1, 'other'}
                    elif re.fullmatch(r'-?\d+', rhs.strip()):
                        dom[it[1]] = {int(rhs)}
                    elif re.match(r'(?:\w*HasFeature|\w*_Check\w*|PyType_IsSubtype)\s*\(', rhs.strip()) or '||' in rhs or '&&' in rhs or re.search(r'[!=<>]=|[<>]', rhs):
                        dom[it[1]] = {0, 1}          # a truth value
                    else:
                        dom[it[1]] = {-1, 0, 1, 'other'}
                elif it[0] == 'fact':
                    m = re.fullmatch(r'\((%s) == (-?\d+)\)' % WORD, it[1] or '')
                    if m and m.group(1) in dom and isinstance(it[2], bool):
                        c = int(m.group(2))
                        dom[m.group(1)] = (dom[m.group(1)] & {c}) if it[2] else (dom[m.group(1)] - {c})
                    elif it[1] in dom and isinstance(it[2], bool):
                        if -1 in dom[it[1]]:
                            problems.setdefault(it[1], 'the tri-state `%s` (-1 = "not known yet") is used as a plain truth value on a path on which it can still be -1: "unknown" '
                                                'is treated as "yes"' % it[1])
                        dom[it[1]] = (dom[it[1]] - {0}) if it[2] else (dom[it[1]] & {0})
    return cands, problems


def rule_tristate(ctx, floor=1):
    r = Rule('C31-TRISTATE', 'an int of a MatchCase.c helper that is compared with -1 (its "unknown" value) is resolved to 0/1 on every path before it is used as a truth value '
             '(value-set tracking along every path of every #if variant)', floor)
    rel = 'Cython/Utility/' + CFILE
    for d in c_funcs(ctx):
        res, notes = explore(d.body)
        cands, problems = tristate_problems(d, res)
        bare = {v for v in cands if re.search(r'(?:\bif\s*\(|&&|\|\||!)\s*(?:un)?(?:likely\s*\(\s*)?%s\s*[)&|]' % re.escape(v), strip_casts(d.body))}
        for v in sorted(cands & bare):
            key = '%s:%s:tri-state:%s' % (CFILE, d.name, v)
            r.inst(key, sample='%s: %s is compared with -1 and used as a truth value' % (d.name, v))
            if v in problems:
                r.violate(key, rel, d.line, '%s: %s — e.g. a class that defines __match_args__ is matched as if it were one of the "match self" builtins' % (d.name, problems[v]))
    bad = '{ if (ms != 1) { m = get(); } if (m) { if (!check(m)) return -1; } else if (!m && ms == -1) { ms = HasFeature(t); } if (ms) { return 1; } return 0; }'
    c2, p2 = tristate_problems(CDeclMock('f', ['int ms'], bad), explore(bad)[0])
    r.positive_control('ms' in p2, 'truth test of a tri-state that may still be -1 recognised')
    return r


# ====================================================================================================== C31-PARSE
class ScanMock:
    """token stream standing in for PyrexScanner: sy / systring / next() / position()"""

    def __init__(self, toks):
        self.toks = list(toks) + [('EOF', '')]
        self.i = 0
        sc = self
        self.ns = NS('scanner', _ctor='MockScanner', compile_time_expr=False, compile_time_env={}, in_python_file=False, context=NS('ctx', language_level=3))
        self.ns.__dict__['next'] = lambda: sc.advance()
        self.ns.__dict__['position'] = lambda: 'POS%d' % sc.i
        self.ns.__dict__['error'] = lambda *a, **k: sc.errors.append(a)
        self.ns.__dict__['expect'] = lambda what, *a: sc.advance()
        self.errors = []
        self.sync()

    def sync(self):
        self.ns.__dict__['sy'], self.ns.__dict__['systring'] = self.toks[min(self.i, len(self.toks) - 1)]

    def advance(self):
        self.i += 1
        self.sync()


def rule_parse(ctx, floor=6):
    sym = Sym(ctx, 'Parsing')
    r = Rule('C31-PARSE', 'the pattern parser evaluated on token streams: `*name` / `*_` inside a sequence pattern produce a starred capture / wildcard and a plain name an '
             'unstarred one; a leading `-` of a numeric literal pattern is kept (UnaryMinus of the literal), a leading `+` is not', floor)
    f_star = sym.m.functions.get('p_maybe_star_pattern')
    f_lit = sym.m.functions.get('p_literal_pattern')
    if f_star is None or f_lit is None:
        raise AnalysisError('Parsing.p_maybe_star_pattern / p_literal_pattern vanished')
    sym.glob['tentatively_scan'] = lambda s: NS('tentative', _enter=lambda: [], _exit=lambda: None)
    for label, toks, want_star, want_target in (('*b', [('*', '*'), ('IDENT', 'b'), (',', ',')], True, 'b'), ('*_', [('*', '*'), ('IDENT', '_'), (',', ',')], True, None),
                                                ('b', [('IDENT', 'b'), (',', ',')], False, 'b')):
        sc = ScanMock(toks)
        if want_star:
            node = sym.run('Parsing.p_maybe_star_pattern', f_star, [sc.ns])
        else:
            # an unstarred name goes through the back-tracking alternatives of p_closed_pattern; its last stage is p_capture_pattern
            f_cap = sym.m.functions.get('p_capture_pattern')
            if f_cap is None:
                raise AnalysisError('Parsing.p_capture_pattern vanished')
            node = sym.run('Parsing.p_capture_pattern', f_cap, [sc.ns])
        key = 'Parsing.p_maybe_star_pattern:%s' % label
        tgt = node.__dict__.get('target') if isinstance(node, NS) else None
        got_star = bool(node.__dict__.get('is_star')) if ctor_is(node, 'MatchAndAssignPatternNode') else None
        if got_star is None and isinstance(node, NS) and node.__dict__.get('_cls') is not None:
            got_star = bool(sym.member(node, node.__dict__['_cls'], 'is_star')) if 'is_star' not in node.__dict__ else bool(node.__dict__['is_star'])
        tname = tgt.__dict__.get('name') if isinstance(tgt, NS) else None
        r.inst(key, sample='`%s` -> %s(target=%s, is_star=%s)' % (label, node.__dict__.get('_ctor') if isinstance(node, NS) else node, tname, got_star))
        if not ctor_is(node, 'MatchAndAssignPatternNode') or got_star != want_star or tname != want_target:
            r.violate(key, sym.m.rel, f_star.lineno, 'the sub-pattern `%s` is parsed as %s with target %r and is_star=%r; expected a capture pattern with target %r and is_star=%r: %s' % (
                label, node.__dict__.get('_ctor') if isinstance(node, NS) else node, tname, got_star, want_target, want_star,
                '`[a, *rest]` is compiled as a pattern of exactly two elements' if want_star else 'a plain capture swallows the rest of the sequence'))
    sym.intercept = {'p_int_literal': None}

    def int_lit(args, kw):
        s = args[0]
        v = s.__dict__['systring']
        s.__dict__['next']()
        return NS('IntNode', _ctor='IntNode', value=v)
    sym.intercept = {'p_int_literal': int_lit}
    try:
        for label, toks, want in (('-1', [('-', '-'), ('INT', '1'), (':', ':')], ('neg', '1')), ('+1', [('+', '+'), ('INT', '1'), (':', ':')], ('pos', '1')),
                                  ('1', [('INT', '1'), (':', ':')], ('pos', '1')), ('-2.5', [('-', '-'), ('FLOAT', '2.5'), (':', ':')], ('neg', '2.5'))):
            sc = ScanMock(toks)
            node = sym.run('Parsing.p_literal_pattern', f_lit, [sc.ns])
            val = node.__dict__.get('value') if ctor_is(node, 'MatchValuePatternNode') else None
            if ctor_is(val, 'UnaryMinusNode'):
                inner = val.__dict__.get('operand')
                got = ('neg', inner.__dict__.get('value') if isinstance(inner, NS) else None)
            elif isinstance(val, NS):
                got = ('pos', val.__dict__.get('value'))
            else:
                got = None
            key = 'Parsing.p_literal_pattern:%s' % label
            r.inst(key, sample='`case %s:` -> value %s' % (label, got))
            if got != want:
                r.violate(key, sym.m.rel, f_lit.lineno, '`case %s:` is parsed as the value pattern %s, expected %s: the sign of a numeric literal pattern is %s' % (
                    label, got, want, 'lost (`case -1` matches 1)' if want[0] == 'neg' else 'wrong'))
    finally:
        sym.intercept = {}
    r.positive_control(True, 'three sub-pattern spellings and four literal spellings parsed')
    return r
