"""Tree-builder interpreter (TB) and the C01 rules built on it.

Several transforms of the compiler replace a piece of the user's program by a tree they assemble from node constructors
(`ExprNodes.CondExprNode(pos, true_val=..., ...)`, `UtilNodes.ResultRefNode(x)`, `LetNode(t, body)`).  What the replacement computes is
a property of the *shape* of that tree.  TB runs such a rewriting function on symbolic input nodes with an interpreter that belongs to
the checker (a whitelisted Python subset: assignments, if/for/try, closures, list operations, node constructors resolved by name) and
returns the tree that would be built, for every combination of the node facts the function asks about (unknown facts fork both
ways).  The rules then give the built tree its meaning with a small reference semantics of the node classes involved and compare
that meaning with the language reference - over a COMPLETE finite domain (all outcomes of the comparisons a cascade can make, all
kinds of target operands), never by running repository code.

 C01-MINMAX   min(a, b, ...) / max(a, b, ...) inlined by EarlyReplaceBuiltinCalls: for 2..4 arguments (positional or one list/tuple display)
              and EVERY outcome of the pairwise comparisons, the built cascade evaluates each argument once and in order, performs the same
              comparisons with the same operands on the same sides as CPython's min/max (`item OP best`, strict, first of equals wins)
              and returns the same argument.
 C01-INPLACE  `target OP= rhs` expanded by ExpandInplaceOperators: for every kind of target (name, subscript, attribute, nested) and every kind
              of operand (name / other expression, Python object / C typed): every operand expression of the target is evaluated once,
              operands in source order and all of them before `rhs`; nothing but the final store happens after `rhs`; every temporary is bound.
"""
import ast, itertools, re

from ..core import Rule, AnalysisError, node_src as _node_src
from ..engine.pyindex import walk_no_nested

_SRC_MEMO = {}


def node_src(n, limit=160):
    """memoised core.node_src (the interpreter asks for the text of the same test node on every path)"""
    k = (id(n), limit)
    v = _SRC_MEMO.get(k)
    if v is None or v[0] is not n:
        v = (n, _node_src(n, limit))
        _SRC_MEMO[k] = v
    return v[1]


# =================================================================================================================== values
class TBGiveUp(Exception):
    """the analysed code left the modelled subset"""


class _Fork(Exception):
    def __init__(self, key):
        self.key = key


class _Raise(Exception):
    def __init__(self, name):
        self.name = name


class _Return(Exception):
    def __init__(self, value):
        self.value = value


class _Break(Exception):
    pass


class _Continue(Exception):
    pass


class SNode:
    """A node (or other object) of the program under transformation: known facts + lazily created unknown attributes."""

    def __init__(self, label, facts=None, cls=None):
        self.label, self.facts, self.cls = label, dict(facts or {}), cls
        self.auto = False

    def __repr__(self):
        return '<%s>' % self.label


class BNode:
    """A node built by the analysed code."""
    _n = [0]

    def __init__(self, cls, fields, args=(), lineno=0):
        BNode._n[0] += 1
        self.id = BNode._n[0]
        self.cls, self.fields, self.args, self.lineno = cls, dict(fields), list(args), lineno

    def __repr__(self):
        return '%s#%d(%s)' % (self.cls, self.id, ', '.join('%s=%r' % kv for kv in sorted(self.fields.items()) if not isinstance(kv[1], Opaque)))


class Opaque:
    def __init__(self, what):
        self.what = what

    def __repr__(self):
        return '<?%s>' % self.what


class ModRef:
    def __init__(self, name):
        self.name = name


class ClassRef:
    def __init__(self, name, mod=None):
        self.name, self.mod = name, mod

    def __repr__(self):
        return 'class %s' % self.name


class BoundMethod:
    def __init__(self, recv, name):
        self.recv, self.name = recv, name


class Closure:
    def __init__(self, fn, env, owner=None):
        self.fn, self.env, self.owner = fn, env, owner


class DictOf:
    def __init__(self, node):
        self.node = node


class Label:
    """a C label handed out by the code writer"""
    _n = [0]

    def __init__(self, name=None):
        Label._n[0] += 1
        self.id, self.name = Label._n[0], name

    def __repr__(self):
        return 'L%d%s' % (self.id, '_' + self.name if self.name else '')


class CodeRec:
    """Stand-in for Code.CCodeWriter while a generate_*_code method is interpreted: records what is emitted."""

    def __init__(self):
        self.items = []             # ('text', str) | ('label', Label) | ('goto', Label) | ('eval', leaf label) | ('exec', leaf label, break label, continue label)
        self.break_label = None
        self.continue_label = None
        self.ntemps = 0


class Env:
    def __init__(self, parent=None):
        self.vars, self.parent = {}, parent

    def get(self, k):
        e = self
        while e is not None:
            if k in e.vars:
                return e.vars[k]
            e = e.parent
        raise KeyError(k)

    def has(self, k):
        try:
            self.get(k)
            return True
        except KeyError:
            return False

    def set(self, k, v):
        self.vars[k] = v


NODE_MODULES = ('ExprNodes', 'Nodes', 'UtilNodes')
KNOWN_MODULES = NODE_MODULES + ('PyrexTypes', 'Builtin', 'Visitor', 'Options', 'Naming', 'TypeSlots', 'Symtab')
# methods of tree nodes that return a node evaluating the same operands as the receiver (type analysis / coercion wrappers): modelled as identity
SAME_NODE_METHODS = {'analyse_types', 'analyse_target_types', 'analyse_expressions', 'coerce_to', 'coerce_to_pyobject', 'coerce_to_simple',
                     'coerce_to_temp', 'analyse_target_declaration', 'coerce_to_boolean', 'as_none_safe_node'}
NODE_FACTORIES = {'binop_node'}
NONE_METHODS = {'analyse_operation', 'analyse_declarations'}
MAX_STEPS = 20000
MAX_PATHS = 512


class TB:
    """One run of one function under a fixed dictionary of fork decisions."""

    def __init__(self, ix, module, decisions, owner=None, stubs=None):
        self.ix, self.module, self.dec, self.owner = ix, module, decisions, owner
        self.steps = 0
        self.depth = 0
        self.fork_seen = {}
        self.stubs = stubs or {}        # function / method name -> callable(tb, args, kw) replacing the analysed code's own definition
        self.calls = []                 # (dotted name, args, kw) of calls to functions of other modules that are not node constructors

    # ------------------------------------------------------------------------------------------------------------ helpers
    def decide(self, key):
        n = self.fork_seen.get(key, 0)
        self.fork_seen[key] = n + 1
        k = key if n == 0 else '%s#%d' % (key, n + 1)
        if k in self.dec:
            return self.dec[k]
        raise _Fork(k)

    def truth(self, v, text=''):
        if isinstance(v, (bool, int, str, list, tuple, dict)) or v is None:
            return bool(v)
        if isinstance(v, SNode):
            if v.auto:
                return self.decide(v.label)
            return True
        if isinstance(v, (BNode, ClassRef, ModRef, Closure, BoundMethod, Label, CodeRec)):
            return True
        if isinstance(v, Opaque):
            return self.decide('?' + (text or v.what))
        raise TBGiveUp('truth of %r' % (v,))

    def class_of_name(self, name):
        memo = self.ix.__dict__.setdefault('_tb_class_memo', {})
        if name not in memo:
            memo[name] = self._class_of_name(name)
        return memo[name]

    def _class_of_name(self, name):
        for m in NODE_MODULES:
            try:
                mod = self.ix.mod(m)
            except AnalysisError:
                continue
            if name in mod.classes:
                return mod.classes[name]
            b = mod.bindings.get(name)          # module-level alias  `LetRefNode = ResultRefNode`
            if isinstance(b, ast.Name) and b.id in mod.classes:
                return mod.classes[b.id]
        return None

    def is_subclass(self, cname, target):
        c = self.class_of_name(cname)
        if c is None:
            return None
        return any(k.name == target for k in self.ix.mro(c))

    # ------------------------------------------------------------------------------------------------------------ attributes
    def getattr(self, v, attr, text=''):
        if isinstance(v, ModRef):
            if v.name in NODE_MODULES or v.name in KNOWN_MODULES:
                return ClassRef(attr, v.name)
            return Opaque('%s.%s' % (v.name, attr))
        if isinstance(v, CodeRec):
            if attr in ('break_label', 'continue_label'):
                return getattr(v, attr)
            if attr in ('funcstate', 'globalstate'):
                return v
            if attr == 'directives':
                return Opaque('directives')
            return BoundMethod(v, attr)
        if isinstance(v, SNode):
            if attr in v.facts:
                return v.facts[attr]
            if attr == 'result_in_temp' and '_rit' in v.facts:
                return BoundMethod(v, attr)
            if getattr(self, 'inline', None) and v.cls in self.inline:
                c = self.class_of_name(v.cls)
                if c is not None:
                    if self.ix.find_method(c, attr):
                        return BoundMethod(v, attr)
                    found = self.ix.find_class_attr(c, attr)
                    if found is not None and isinstance(found[1], ast.Constant):
                        return found[1].value
            if getattr(self, 'leaf_methods', None) is not None and v.facts.get('leaf'):
                return BoundMethod(v, attr) if attr not in ('pos',) else Opaque('pos')
            if attr == '__class__' and v.cls:
                return ClassRef(v.cls)
            if attr == '__dict__':
                return DictOf(v)
            if attr == 'pos':
                return Opaque('pos')
            if v.cls == '<self>':
                return BoundMethod(v, attr) if self.owner is not None and attr in self.owner.methods else self._auto(v, attr)
            return self._auto(v, attr, methodish=True)
        if isinstance(v, BNode):
            if attr in v.fields:
                return v.fields[attr]
            if attr == '__class__':
                return ClassRef(v.cls)
            if attr == '__dict__':
                return DictOf(v)
            if attr == 'pos':
                return Opaque('pos')
            c = self.class_of_name(v.cls)
            if c is not None:
                if self.ix.find_method(c, attr):
                    return BoundMethod(v, attr)
                found = self.ix.find_class_attr(c, attr)
                if found is not None:
                    val = found[1] if isinstance(found, tuple) else found
                    if isinstance(val, ast.Constant):
                        if val.value is None and attr in ('type', 'entry', 'result_ctype'):
                            # "not analysed yet" defaults: the built node is analysed later, the value is unknown here
                            key = '_auto_' + attr
                            if key not in v.fields:
                                sn = SNode('%s#%d.%s' % (v.cls, v.id, attr))
                                sn.auto = True
                                v.fields[key] = sn
                            return v.fields[key]
                        return val.value
            return BoundMethod(v, attr) if attr in SAME_NODE_METHODS or attr in NONE_METHODS else Opaque('%s.%s' % (v.cls, attr))
        if isinstance(v, ClassRef):
            return BoundMethod(v, attr)
        if isinstance(v, (list, str, dict, tuple)):
            return BoundMethod(v, attr)
        if isinstance(v, Opaque):
            return Opaque('%s.%s' % (v.what, attr))
        if isinstance(v, DictOf):
            return BoundMethod(v, attr)
        raise TBGiveUp('attribute %s of %r' % (attr, v))

    def _auto(self, v, attr, methodish=False):
        if methodish and (attr in SAME_NODE_METHODS or attr in NONE_METHODS):
            return BoundMethod(v, attr)
        key = '_auto_' + attr
        if key not in v.facts:
            s = SNode('%s.%s' % (v.label, attr))
            s.auto = True
            v.facts[key] = s
        return v.facts[key]

    def setattr(self, v, attr, val):
        if isinstance(v, SNode):
            v.facts[attr] = val
        elif isinstance(v, BNode):
            v.fields[attr] = val
        elif isinstance(v, Opaque):
            pass
        else:
            raise TBGiveUp('attribute store on %r' % (v,))

    # ------------------------------------------------------------------------------------------------------------ expressions
    def ev(self, n, env):
        self.steps += 1
        if self.steps > MAX_STEPS:
            raise TBGiveUp('step limit')
        m = getattr(self, 'e_' + type(n).__name__, None)
        if m is None:
            raise TBGiveUp('expression %s: %s' % (type(n).__name__, node_src(n, 60)))
        return m(n, env)

    def e_Constant(self, n, env):
        return n.value

    def e_Name(self, n, env):
        if env.has(n.id):
            return env.get(n.id)
        if n.id in KNOWN_MODULES:
            return ModRef(n.id)
        c = self.class_of_name(n.id)
        if c is not None:
            return ClassRef(n.id)
        if n.id in ('len', 'list', 'tuple', 'map', 'isinstance', 'reversed', 'enumerate', 'zip', 'range', 'getattr', 'hasattr', 'type', 'bool',
                    'any', 'all', 'sorted', 'min', 'max', 'str', 'int', 'iter', 'next', 'id'):
            return BoundMethod(None, n.id)
        if n.id in ('ValueError', 'TypeError', 'KeyError', 'AttributeError', 'IndexError', 'Exception', 'InternalError', 'CompileError'):
            return ClassRef(n.id)
        # module-level names of the analysed module (functions, imported node classes)
        mod = self.module
        if mod is not None:
            fn = mod.functions.get(n.id) if hasattr(mod, 'functions') else None
            if fn is not None:
                return Closure(fn, Env(), None)
            imp = getattr(mod, 'imports', {}).get(n.id)
            if imp:
                tail = imp[1].split('.')[-1] if imp[0] == 'module' else imp[2]
                if imp[0] == 'module' and tail in KNOWN_MODULES:
                    return ModRef(tail)
                if imp[0] == 'symbol':
                    if self.class_of_name(tail) is not None:
                        return ClassRef(tail)
                    if tail in KNOWN_MODULES:
                        return ModRef(tail)
        return Opaque(n.id)

    def e_Attribute(self, n, env):
        return self.getattr(self.ev(n.value, env), n.attr, node_src(n, 80))

    def e_Tuple(self, n, env):
        return tuple(self.ev(x, env) for x in n.elts)

    def e_List(self, n, env):
        return [self.ev(x, env) for x in n.elts]

    def e_Dict(self, n, env):
        d = {}
        for k, v in zip(n.keys, n.values):
            if k is None:
                raise TBGiveUp('dict unpacking')
            d[self.ev(k, env)] = self.ev(v, env)
        return d

    def e_JoinedStr(self, n, env):
        parts = []
        for v in n.values:
            if isinstance(v, ast.Constant):
                parts.append(str(v.value))
                continue
            x = self.ev(v.value, env)
            if v.format_spec is not None or v.conversion not in (-1, 115):
                return Opaque('fstring')
            if isinstance(x, (str, int)) and not isinstance(x, bool):
                parts.append(str(x))
            else:
                return Opaque('fstring')
        return ''.join(parts)

    def e_Lambda(self, n, env):
        return Closure(n, env, None)

    def e_IfExp(self, n, env):
        return self.ev(n.body, env) if self.truth(self.ev(n.test, env), node_src(n.test, 80)) else self.ev(n.orelse, env)

    def e_BoolOp(self, n, env):
        v = None
        for x in n.values:
            v = self.ev(x, env)
            t = self.truth(v, node_src(x, 80))
            if isinstance(n.op, ast.And) and not t:
                return v
            if isinstance(n.op, ast.Or) and t:
                return v
        return v

    def e_UnaryOp(self, n, env):
        v = self.ev(n.operand, env)
        if isinstance(n.op, ast.Not):
            return not self.truth(v, node_src(n.operand, 80))
        if isinstance(n.op, ast.USub) and isinstance(v, int):
            return -v
        if isinstance(n.op, ast.UAdd) and isinstance(v, int):
            return v
        raise TBGiveUp('unary operator')

    def e_BinOp(self, n, env):
        a, b = self.ev(n.left, env), self.ev(n.right, env)
        if isinstance(n.op, ast.Add):
            if isinstance(a, list) and isinstance(b, list):
                return a + b
            if isinstance(a, tuple) and isinstance(b, tuple):
                return a + b
            if isinstance(a, int) and isinstance(b, int) and not isinstance(a, bool):
                return a + b
            if isinstance(a, str) and isinstance(b, str):
                return a + b
        if isinstance(n.op, ast.Sub) and isinstance(a, int) and isinstance(b, int):
            return a - b
        if isinstance(n.op, ast.Mult) and isinstance(a, int) and isinstance(b, int):
            return a * b
        if isinstance(n.op, ast.Mod) and isinstance(a, str):
            vals = b if isinstance(b, tuple) else (b,)
            if all(isinstance(x, (str, int)) and not isinstance(x, bool) for x in vals):
                try:
                    return a % (b if isinstance(b, tuple) else (b,))
                except (TypeError, ValueError):
                    return Opaque('format')
            return Opaque('format')
        if isinstance(a, Opaque) or isinstance(b, Opaque):
            return Opaque('binop')
        raise TBGiveUp('binary operator on %r, %r' % (a, b))

    def e_Compare(self, n, env):
        left = self.ev(n.left, env)
        for op, c in zip(n.ops, n.comparators):
            right = self.ev(c, env)
            r = self._cmp(op, left, right, node_src(n, 80))
            if not r:
                return False
            left = right
        return True

    def _cmp(self, op, a, b, text):
        if isinstance(op, (ast.Is, ast.IsNot)):
            if isinstance(a, Opaque) or isinstance(b, Opaque) or (isinstance(a, SNode) and a.auto) or (isinstance(b, SNode) and b.auto):
                if (a is None or b is None) or isinstance(a, Opaque) or isinstance(b, Opaque):
                    r = self.decide('is:' + text)
                    return r if isinstance(op, ast.Is) else not r
            same = a is b or (type(a) in (bool, type(None)) and type(a) is type(b) and a == b)
            return same if isinstance(op, ast.Is) else not same
        simple = (int, str, bool, type(None), tuple)
        if isinstance(op, (ast.Eq, ast.NotEq)) and (isinstance(a, Label) or isinstance(b, Label)) and (isinstance(a, Label) or a is None) \
                and (isinstance(b, Label) or b is None):
            return (a is b) if isinstance(op, ast.Eq) else (a is not b)
        if isinstance(op, (ast.Eq, ast.NotEq)):
            if isinstance(a, simple) and isinstance(b, simple):
                return (a == b) if isinstance(op, ast.Eq) else (a != b)
            if isinstance(a, (list,)) and isinstance(b, (list,)):
                return (a == b) if isinstance(op, ast.Eq) else (a != b)
            r = self.decide('eq:' + text)
            return r if isinstance(op, ast.Eq) else not r
        if isinstance(op, (ast.Lt, ast.LtE, ast.Gt, ast.GtE)):
            if isinstance(a, int) and isinstance(b, int):
                return {ast.Lt: a < b, ast.LtE: a <= b, ast.Gt: a > b, ast.GtE: a >= b}[type(op)]
            return self.decide('cmp:' + text)
        if isinstance(op, (ast.In, ast.NotIn)):
            if isinstance(b, (tuple, list, str, dict)) and isinstance(a, simple):
                r = a in b
                return r if isinstance(op, ast.In) else not r
            r = self.decide('in:' + text)
            return r if isinstance(op, ast.In) else not r
        raise TBGiveUp('comparison ' + text)

    def e_Subscript(self, n, env):
        v = self.ev(n.value, env)
        if isinstance(n.slice, ast.Slice):
            lo = self.ev(n.slice.lower, env) if n.slice.lower is not None else None
            hi = self.ev(n.slice.upper, env) if n.slice.upper is not None else None
            st = self.ev(n.slice.step, env) if n.slice.step is not None else None
            if isinstance(v, (list, tuple)) and all(x is None or isinstance(x, int) for x in (lo, hi, st)):
                return v[lo:hi:st]
            if isinstance(v, Opaque):
                return Opaque('slice')
            raise TBGiveUp('slice of %r' % (v,))
        i = self.ev(n.slice, env)
        if isinstance(v, (list, tuple)) and isinstance(i, int):
            try:
                return v[i]
            except IndexError:
                raise _Raise('IndexError')
        if isinstance(v, dict):
            try:
                return v[i]
            except (KeyError, TypeError):
                raise _Raise('KeyError')
        if isinstance(v, Opaque) or (isinstance(v, SNode) and v.auto):
            return Opaque('item')
        raise TBGiveUp('subscript of %r' % (v,))

    def e_ListComp(self, n, env):
        if len(n.generators) != 1 or n.generators[0].is_async:
            raise TBGiveUp('comprehension')
        g = n.generators[0]
        out = []
        for item in self.iterate(self.ev(g.iter, env), node_src(g.iter, 60)):
            e2 = Env(env)
            self.bind(g.target, item, e2)
            if all(self.truth(self.ev(c, e2), node_src(c, 60)) for c in g.ifs):
                out.append(self.ev(n.elt, e2))
        return out

    e_GeneratorExp = e_ListComp

    def e_Starred(self, n, env):
        raise TBGiveUp('starred expression')

    # ------------------------------------------------------------------------------------------------------------ calls
    def e_Call(self, n, env):
        f = self.ev(n.func, env)
        args = []
        for a in n.args:
            if isinstance(a, ast.Starred):
                v = self.ev(a.value, env)
                if not isinstance(v, (list, tuple)):
                    raise TBGiveUp('*args of %r' % (v,))
                args.extend(v)
            else:
                args.append(self.ev(a, env))
        kw = {}
        for k in n.keywords:
            v = self.ev(k.value, env)
            if k.arg is None:
                if isinstance(v, DictOf):
                    src = v.node
                    kw.update(src.fields if isinstance(src, BNode) else {a: b for a, b in src.facts.items() if not a.startswith('_auto_')})
                    kw['__copy_of__'] = src
                elif isinstance(v, dict):
                    kw.update(v)
                else:
                    raise TBGiveUp('**kwargs of %r' % (v,))
            else:
                kw[k.arg] = v
        return self.call(f, args, kw, n)

    def call(self, f, args, kw, n):
        text = node_src(n, 80)
        if isinstance(f, ClassRef):
            if f.name in ('ValueError', 'TypeError', 'KeyError', 'AttributeError', 'IndexError', 'Exception', 'InternalError', 'CompileError'):
                return ClassRef(f.name)
            if f.mod is not None and self.class_of_name(f.name) is None and f.name[:1].islower():
                # a plain function of another module (Visitor.recursively_replace_node, ...): recorded, result unknown
                # (ExprNodes.binop_node is a node factory: kept as a node)
                if f.name in self.stubs:
                    return self.stubs[f.name](self, args, kw)
                if f.name not in NODE_FACTORIES:
                    self.calls.append(('%s.%s' % (f.mod, f.name), args, kw))
                    return Opaque('%s.%s()' % (f.mod, f.name))
            if '__copy_of__' in kw:
                src = kw.pop('__copy_of__')
                b = BNode(f.name, kw, args, n.lineno)
                b.copy_of = src
                if isinstance(src, SNode):
                    # a shallow copy of an input node is the same kind of node with the same children
                    s = SNode(src.label + "'", src.facts, src.cls)
                    s.copy_of = src
                    return s
                return b
            return BNode(f.name, kw, args, n.lineno)
        if isinstance(f, Closure):
            nm = getattr(f.fn, 'name', None)
            if nm in self.stubs:
                return self.stubs[nm](self, args, kw)
            return self.invoke(f, args, kw, text)
        if isinstance(f, BoundMethod):
            return self.call_method(f.recv, f.name, args, kw, n, text)
        if isinstance(f, Opaque):
            return Opaque('%s()' % f.what)
        if isinstance(f, SNode) and f.auto:
            return Opaque('%s()' % f.label)
        raise TBGiveUp('call of %r' % (f,))

    def call_method(self, recv, name, args, kw, n, text):
        if recv is None:
            return self.builtin(name, args, kw, text)
        if isinstance(recv, list):
            if name == 'append' and len(args) == 1:
                recv.append(args[0])
                return None
            if name == 'reverse' and not args:
                recv.reverse()
                return None
            if name == 'extend' and len(args) == 1 and isinstance(args[0], (list, tuple)):
                recv.extend(args[0])
                return None
            if name == 'insert' and len(args) == 2 and isinstance(args[0], int):
                recv.insert(args[0], args[1])
                return None
            if name == 'pop' and len(args) <= 1 and all(isinstance(a, int) for a in args):
                try:
                    return recv.pop(*args)
                except IndexError:
                    raise _Raise('IndexError')
            if name == 'copy' and not args:
                return list(recv)
            if name == 'index' and len(args) == 1:
                for i, x in enumerate(recv):
                    if x is args[0]:
                        return i
                raise _Raise('ValueError')
            raise TBGiveUp('list.%s' % name)
        if isinstance(recv, dict):
            if name == 'get' and 1 <= len(args) <= 2:
                try:
                    return recv.get(*args)
                except TypeError:
                    raise TBGiveUp('dict.get with an unhashable key')
            if name in ('items', 'keys', 'values') and not args:
                return list(getattr(recv, name)())
            raise TBGiveUp('dict.%s' % name)
        if isinstance(recv, str):
            if name in ('lower', 'upper', 'strip', 'lstrip', 'rstrip', 'startswith', 'endswith', 'format', 'join', 'replace', 'split', 'isdecimal', 'isdigit',
                        'capitalize', 'title'):
                try:
                    return getattr(recv, name)(*args)
                except Exception:
                    return Opaque('str.' + name)
            raise TBGiveUp('str.%s' % name)
        if isinstance(recv, DictOf):
            if name == 'copy':
                return recv
            raise TBGiveUp('__dict__.%s' % name)
        if isinstance(recv, ClassRef):
            if name == 'from_node' and args:
                src = args[0]
                fields = dict(src.fields) if isinstance(src, BNode) else {a: b for a, b in getattr(src, 'facts', {}).items() if not a.startswith('_auto_')}
                fields.update(kw)
                b = BNode(recv.name, fields, [], n.lineno)
                b.from_node = src
                return b
            if name.startswith('for_'):
                b = BNode(recv.name, dict(kw, value=args[1] if len(args) > 1 else None), args[:1], n.lineno)
                return b
            return Opaque('%s.%s()' % (recv.name, name))
        if isinstance(recv, CodeRec):
            return self.code_method(recv, name, args, kw)
        if isinstance(recv, SNode) and recv.facts.get('leaf') and getattr(self, 'leaf_methods', None) is not None:
            return self.leaf_methods(self, recv, name, args, kw)
        if isinstance(recv, SNode) and getattr(self, 'inline', None) and recv.cls in self.inline:
            if name in self.stubs:
                return self.stubs[name](self, [recv] + args, kw)
            c = self.class_of_name(recv.cls)
            found = self.ix.find_method(c, name) if c is not None else None
            if found:
                owner, fn = found
                return self.invoke(Closure(fn, Env(), None), [recv] + args, kw, text)
            return Opaque('%s.%s()' % (recv.label, name))
        if isinstance(recv, SNode) and recv.cls == '<self>':
            if name in self.stubs:
                return self.stubs[name](self, args, kw)
            if self.owner is not None and name in self.owner.methods:
                return self.invoke(Closure(self.owner.methods[name], Env(), self.owner), [recv] + args, kw, text)
            return Opaque('self.%s()' % name)
        if isinstance(recv, SNode) and name == 'result_in_temp' and not args and '_rit' in recv.facts:
            return recv.facts['_rit']
        if isinstance(recv, (SNode, BNode)):
            if name in SAME_NODE_METHODS:
                return recv
            if name in NONE_METHODS:
                return None
            return Opaque('%s.%s()' % (getattr(recv, 'label', None) or recv.cls, name))
        raise TBGiveUp('method %s of %r' % (name, recv))

    def code_method(self, code, name, args, kw):
        def txt(v):
            return v if isinstance(v, str) else '<?>'
        if name in ('putln', 'put'):
            code.items.append(('text', txt(args[0]) if args else ''))
            return None
        if name == 'put_label':
            code.items.append(('label', args[0]))
            return None
        if name == 'put_goto':
            code.items.append(('goto', args[0]))
            return None
        if name == 'new_label':
            return Label(args[0] if args and isinstance(args[0], str) else None)
        if name == 'new_loop_labels':
            old = (code.break_label, code.continue_label)
            code.break_label, code.continue_label = Label('break'), Label('continue')
            return old
        if name == 'set_loop_labels':
            if not (isinstance(args[0], tuple) and len(args[0]) == 2):
                raise TBGiveUp('set_loop_labels(%r)' % (args[0],))
            code.break_label, code.continue_label = args[0]
            return None
        if name == 'get_loop_labels':
            return (code.break_label, code.continue_label)
        if name == 'allocate_temp':
            code.ntemps += 1
            return 't%d' % code.ntemps
        if name in ('error_goto', 'error_goto_if', 'error_goto_if_neg', 'error_goto_if_null', 'error_goto_if_PyErr'):
            return 'ERRGOTO'
        if name in ('mark_pos', 'release_temp', 'put_gotref', 'put_giveref', 'put_incref', 'put_decref', 'put_xdecref', 'put_xgotref', 'put_decref_clear',
                    'put_xdecref_clear', 'funcstate', 'put_trace_line', 'use_label', 'putln_openmp', 'put_var_incref', 'put_var_decref'):
            return None
        if name == 'label_used':
            return True
        return Opaque('code.%s()' % name)

    def builtin(self, name, args, kw, text):
        if name == 'len' and len(args) == 1:
            if isinstance(args[0], (list, tuple, str, dict)):
                return len(args[0])
            raise TBGiveUp('len of %r' % (args[0],))
        if name in ('list', 'tuple') and len(args) <= 1:
            seq = list(self.iterate(args[0], text)) if args else []
            return seq if name == 'list' else tuple(seq)
        if name == 'map' and len(args) == 2:
            return [self.call(args[0], [x], {}, _FakeCall(text)) for x in self.iterate(args[1], text)]
        if name == 'reversed' and len(args) == 1:
            return list(self.iterate(args[0], text))[::-1]
        if name == 'enumerate' and 1 <= len(args) <= 2:
            start = args[1] if len(args) == 2 else kw.get('start', 0)
            if not isinstance(start, int):
                raise TBGiveUp('enumerate start')
            return [(start + i, x) for i, x in enumerate(self.iterate(args[0], text))]
        if name == 'zip':
            return [tuple(t) for t in zip(*[list(self.iterate(a, text)) for a in args])]
        if name == 'range' and all(isinstance(a, int) for a in args) and 1 <= len(args) <= 3:
            return list(range(*args))
        if name == 'isinstance' and len(args) == 2:
            return self.isinstance(args[0], args[1], text)
        if name == 'getattr' and 2 <= len(args) <= 3 and isinstance(args[1], str):
            v = args[0]
            if isinstance(v, SNode) and args[1] not in v.facts and len(args) == 3:
                if v.cls == '<self>':
                    return Opaque('getattr(self.%s)' % args[1])
                return self.getattr(v, args[1])
            return self.getattr(v, args[1])
        if name == 'hasattr':
            return self.decide('hasattr:' + text)
        if name == 'type' and len(args) == 1:
            return self.getattr(args[0], '__class__')
        if name == 'bool' and len(args) == 1:
            return self.truth(args[0], text)
        if name in ('any', 'all') and len(args) == 1:
            vals = [self.truth(x, text) for x in self.iterate(args[0], text)]
            return any(vals) if name == 'any' else all(vals)
        if name == 'str' and len(args) == 1 and isinstance(args[0], (str, int)):
            return str(args[0])
        if name == 'int' and len(args) == 1 and isinstance(args[0], (str, int)):
            try:
                return int(args[0])
            except ValueError:
                raise _Raise('ValueError')
        return Opaque('%s()' % name)

    def isinstance(self, v, t, text):
        ts = t if isinstance(t, tuple) else (t,)
        names = []
        for x in ts:
            if isinstance(x, ClassRef):
                names.append(x.name)
            elif x is list or (isinstance(x, BoundMethod) and x.recv is None and x.name in ('list', 'tuple', 'str', 'int', 'bool')):
                names.append('@' + x.name)
            else:
                raise TBGiveUp('isinstance against %r' % (x,))
        py = {'@list': list, '@tuple': tuple, '@str': str, '@int': int, '@bool': bool}
        if isinstance(v, (list, tuple, str, int, bool)) or v is None:
            return any(n in py and isinstance(v, py[n]) for n in names)
        cname = v.cls if isinstance(v, (BNode, SNode)) else None
        if isinstance(v, SNode):
            for nm in names:
                k = 'isinstance:' + nm
                if k in v.facts:
                    if v.facts[k]:
                        return True
                    names = [x for x in names if x != nm]
            if not names:
                return False
        if cname and cname != '<self>':
            res = [self.is_subclass(cname, nm) for nm in names if not nm.startswith('@')]
            if all(r is not None for r in res):
                return any(res)
        if isinstance(v, (SNode, Opaque)):
            return self.decide('isinstance:%s' % text)
        raise TBGiveUp('isinstance of %r' % (v,))

    def iterate(self, v, text=''):
        if isinstance(v, (list, tuple)):
            return list(v)
        if isinstance(v, dict):
            return list(v)
        raise TBGiveUp('iteration over %r (%s)' % (v, text))

    # ------------------------------------------------------------------------------------------------------------ functions
    def invoke(self, clo, args, kw, text=''):
        self.depth += 1
        if self.depth > 40:
            raise TBGiveUp('recursion depth')
        try:
            fn = clo.fn
            env = Env(clo.env)
            a = fn.args
            params = [p.arg for p in a.posonlyargs + a.args]
            defaults = a.defaults
            if len(args) > len(params) and a.vararg is None:
                raise TBGiveUp('too many arguments for %s' % getattr(fn, 'name', 'lambda'))
            for p, v in zip(params, args):
                env.set(p, v)
            if a.vararg is not None:
                env.set(a.vararg.arg, list(args[len(params):]))
            rest = params[len(args):]
            doff = len(params) - len(defaults)
            kw = dict(kw)
            for i, p in enumerate(params):
                if p in rest:
                    if p in kw:
                        env.set(p, kw.pop(p))
                    elif i >= doff:
                        env.set(p, self.ev(defaults[i - doff], clo.env))
                    else:
                        raise TBGiveUp('missing argument %s for %s' % (p, getattr(fn, 'name', 'lambda')))
            for p, d in zip(a.kwonlyargs, a.kw_defaults):
                if p.arg in kw:
                    env.set(p.arg, kw.pop(p.arg))
                elif d is not None:
                    env.set(p.arg, self.ev(d, clo.env))
                else:
                    raise TBGiveUp('missing keyword argument %s' % p.arg)
            if kw:
                if a.kwarg is not None:
                    env.set(a.kwarg.arg, kw)
                else:
                    raise TBGiveUp('unexpected keyword arguments %s' % sorted(kw))
            if isinstance(fn, ast.Lambda):
                return self.ev(fn.body, env)
            saved = self.owner
            if clo.owner is not None:
                self.owner = clo.owner
            try:
                self.block(fn.body, env)
            except _Return as r:
                return r.value
            finally:
                self.owner = saved
            return None
        finally:
            self.depth -= 1

    # ------------------------------------------------------------------------------------------------------------ statements
    def bind(self, t, v, env):
        if isinstance(t, ast.Name):
            env.set(t.id, v)
        elif isinstance(t, (ast.Tuple, ast.List)):
            if isinstance(v, Opaque):
                for x in t.elts:
                    self.bind(x, Opaque('item'), env)
                return
            if not isinstance(v, (tuple, list)) or len(v) != len(t.elts) or any(isinstance(x, ast.Starred) for x in t.elts):
                raise TBGiveUp('unpacking %r' % (v,))
            for x, y in zip(t.elts, v):
                self.bind(x, y, env)
        elif isinstance(t, ast.Attribute):
            self.setattr(self.ev(t.value, env), t.attr, v)
        elif isinstance(t, ast.Subscript):
            c = self.ev(t.value, env)
            i = self.ev(t.slice, env) if not isinstance(t.slice, ast.Slice) else None
            if isinstance(c, list) and isinstance(i, int):
                try:
                    c[i] = v
                except IndexError:
                    raise _Raise('IndexError')
            elif isinstance(c, dict) and i is not None:
                c[i] = v
            elif isinstance(c, Opaque):
                pass
            else:
                raise TBGiveUp('subscript store')
        else:
            raise TBGiveUp('assignment target')

    def block(self, stmts, env):
        for s in stmts:
            self.stmt(s, env)

    def stmt(self, s, env):
        self.steps += 1
        if self.steps > MAX_STEPS:
            raise TBGiveUp('step limit')
        if isinstance(s, ast.Assign):
            v = self.ev(s.value, env)
            for t in s.targets:
                self.bind(t, v, env)
        elif isinstance(s, ast.AnnAssign):
            if s.value is not None:
                self.bind(s.target, self.ev(s.value, env), env)
        elif isinstance(s, ast.AugAssign):
            cur = self.ev(ast.copy_location(ast.Name(id=s.target.id, ctx=ast.Load()), s), env) if isinstance(s.target, ast.Name) else None
            v = self.ev(s.value, env)
            if isinstance(s.target, ast.Name) and isinstance(s.op, ast.Add) and isinstance(cur, list) and isinstance(v, (list, tuple)):
                cur.extend(v)
            elif isinstance(s.target, ast.Name) and isinstance(cur, int) and isinstance(v, int) and isinstance(s.op, (ast.Add, ast.Sub)):
                env.set(s.target.id, cur + v if isinstance(s.op, ast.Add) else cur - v)
            else:
                raise TBGiveUp('augmented assignment')
        elif isinstance(s, ast.Expr):
            if isinstance(s.value, ast.Constant):
                return
            self.ev(s.value, env)
        elif isinstance(s, ast.If):
            self.block(s.body if self.truth(self.ev(s.test, env), node_src(s.test, 80)) else s.orelse, env)
        elif isinstance(s, ast.For):
            broke = False
            for item in self.iterate(self.ev(s.iter, env), node_src(s.iter, 60)):
                self.bind(s.target, item, env)
                try:
                    self.block(s.body, env)
                except _Break:
                    broke = True
                    break
                except _Continue:
                    continue
            if not broke:
                self.block(s.orelse, env)
        elif isinstance(s, ast.Return):
            raise _Return(self.ev(s.value, env) if s.value is not None else None)
        elif isinstance(s, ast.Pass):
            return
        elif isinstance(s, ast.Assert):
            return
        elif isinstance(s, ast.Break):
            raise _Break()
        elif isinstance(s, ast.Continue):
            raise _Continue()
        elif isinstance(s, ast.FunctionDef):
            env.set(s.name, Closure(s, env, None))
        elif isinstance(s, ast.Raise):
            name = 'Exception'
            if s.exc is not None:
                e = s.exc.func if isinstance(s.exc, ast.Call) else s.exc
                name = e.id if isinstance(e, ast.Name) else (e.attr if isinstance(e, ast.Attribute) else 'Exception')
            raise _Raise(name)
        elif isinstance(s, ast.Try):
            try:
                try:
                    self.block(s.body, env)
                except _Raise as r:
                    for h in s.handlers:
                        names = []
                        if h.type is None:
                            names = None
                        else:
                            for t in (h.type.elts if isinstance(h.type, ast.Tuple) else [h.type]):
                                names.append(t.id if isinstance(t, ast.Name) else getattr(t, 'attr', '?'))
                        if names is None or r.name in names or 'Exception' in names or 'BaseException' in names:
                            if h.name:
                                env.set(h.name, Opaque('exception'))
                            self.block(h.body, env)
                            break
                    else:
                        raise
                else:
                    self.block(s.orelse, env)
            finally:
                if s.finalbody:
                    self.block(s.finalbody, env)
        elif isinstance(s, (ast.Global, ast.Nonlocal, ast.Import, ast.ImportFrom)):
            return
        elif isinstance(s, ast.Delete):
            return
        else:
            raise TBGiveUp('statement %s' % type(s).__name__)


class _FakeCall:
    def __init__(self, text):
        self.lineno = 0
        self.text = text


def explore(ix, module, owner, fn, make_args, limit=MAX_PATHS, stubs=None, with_tb=False):
    """Run fn (a method of `owner`) for every combination of fork decisions.  make_args() -> fresh (args list, kwargs).
    -> [(decisions, outcome)] with outcome ('return', value) | ('raise', name)"""
    out, todo, n = [], [dict()], 0
    while todo:
        d = todo.pop()
        n += 1
        if n > limit:
            raise TBGiveUp('%s: more than %d paths' % (fn.name, limit))
        tb = TB(ix, module, d, owner, stubs)
        args, kw = make_args()
        try:
            v = tb.invoke(Closure(fn, Env(), owner), args, kw)
            out.append((d, ('return', v)) + ((tb,) if with_tb else ()))
        except _Fork as f:
            for b in (True, False):
                d2 = dict(d)
                d2[f.key] = b
                todo.append(d2)
        except _Raise as r:
            out.append((d, ('raise', r.name)) + ((tb,) if with_tb else ()))
    return out


def self_node():
    return SNode('self', cls='<self>')


# =================================================================================================================== C01-MINMAX
class Undecidable(Exception):
    pass


class _Oracle:
    """lazily forked truth assignment for comparisons  (op, left argument, right argument)"""

    def __init__(self, dec):
        self.dec = dec

    def cmp(self, op, i, j):
        k = (op, i, j)
        if k not in self.dec:
            raise _Fork(k)
        return self.dec[k]


TEMP_CLASSES = ('ResultRefNode', 'LetRefNode')
LET_CLASSES = ('EvalWithTempExprNode', 'LetNode', 'EvalWithTempExprNode')


def _temp_expr(b):
    """expression wrapped by a temporary reference node: first positional argument or `expression=`"""
    if 'expression' in b.fields and b.fields['expression'] is not None:
        return b.fields['expression']
    if b.args:
        return b.args[0]
    return None


class ExprSem:
    """Reference semantics of the expression tree classes a builtin cascade is made of.  Values are argument indices."""

    def __init__(self, oracle):
        self.oracle = oracle
        self.trace = []
        self.bound = {}

    def ev(self, v):
        if isinstance(v, SNode):
            if 'argno' not in v.facts:
                raise Undecidable('the tree contains the foreign node %r' % v)
            self.trace.append(('eval', v.facts['argno']))
            return v.facts['argno']
        if not isinstance(v, BNode):
            raise Undecidable('the tree contains %r where a node is expected' % (v,))
        if v.cls in TEMP_CLASSES:
            if v.id not in self.bound:
                raise Undecidable('temporary %s#%d is used before/without being bound' % (v.cls, v.id))
            return self.bound[v.id]
        if v.cls in LET_CLASSES:
            if len(v.args) < 2:
                raise Undecidable('%s with %d positional arguments' % (v.cls, len(v.args)))
            ref, body = v.args[0], v.args[1]
            if not (isinstance(ref, BNode) and ref.cls in TEMP_CLASSES):
                raise Undecidable('%s binds %r' % (v.cls, ref))
            inner = _temp_expr(ref)
            if inner is None:
                raise Undecidable('%s#%d has no expression' % (ref.cls, ref.id))
            if ref.id in self.bound:
                raise Undecidable('temporary %s#%d is bound twice' % (ref.cls, ref.id))
            self.bound[ref.id] = self.ev(inner)
            return self.ev(body)
        if v.cls == 'CondExprNode':
            f = v.fields
            if not all(k in f for k in ('test' if 'test' in f else 'condition', 'true_val', 'false_val')):
                raise Undecidable('CondExprNode without test/true_val/false_val')
            t = self.ev_bool(f.get('test', f.get('condition')))
            return self.ev(f['true_val'] if t else f['false_val'])
        raise Undecidable('node class %s is outside the modelled cascade classes' % v.cls)

    def ev_bool(self, v):
        if isinstance(v, BNode) and v.cls == 'PrimaryCmpNode':
            f = v.fields
            if f.get('cascade') is not None:
                raise Undecidable('cascaded comparison')
            a = self.ev(f['operand1'])
            b = self.ev(f['operand2'])
            op = f.get('operator')
            if not isinstance(op, str):
                raise Undecidable('comparison operator %r' % (op,))
            self.trace.append(('cmp', op, a, b))
            return self.oracle.cmp(op, a, b)
        if isinstance(v, BNode) and v.cls == 'NotNode':
            return not self.ev_bool(v.fields['operand'])
        raise Undecidable('condition %r' % (v,))


def cpython_min_max(n, op, oracle):
    """Python/bltinmodule.c min_max: items are taken in order; `item OP best` (Py_LT for min, Py_GT for max) replaces best."""
    trace = [('eval', i) for i in range(n)]
    best = 0
    for i in range(1, n):
        trace.append(('cmp', op, i, best))
        if oracle.cmp(op, i, best):
            best = i
    return best, trace


def _all_oracles(run):
    """run(oracle) for every lazily discovered truth assignment; -> [(assignment, result)]"""
    out, todo = [], [dict()]
    while todo:
        d = todo.pop()
        if len(out) > 5000:
            raise AnalysisError('comparison oracle: too many assignments')
        try:
            out.append((d, run(_Oracle(d))))
        except _Fork as f:
            for b in (True, False):
                d2 = dict(d)
                d2[f.key] = b
                todo.append(d2)
    return out


def minmax_problems(tree, n, op):
    """compare the built tree with CPython's min/max for every outcome of the comparisons -> [message]"""
    def run(oracle):
        sem = ExprSem(oracle)
        try:
            got = sem.ev(tree)
        except Undecidable as e:
            return ('undecidable', str(e))
        want, wtrace = cpython_min_max(n, op, oracle)
        return ('ok', got, sem.trace, want, wtrace)
    probs = []
    for d, res in _all_oracles(run):
        if res[0] == 'undecidable':
            raise Undecidable(res[1])
        _, got, trace, want, wtrace = res
        outcome = ', '.join('a%d %s a%d is %s' % (k[1], k[0], k[2], v) for k, v in sorted(d.items()))
        evs = [t[1] for t in trace if t[0] == 'eval']
        cmps = [t for t in trace if t[0] == 'cmp']
        wcmps = [t for t in wtrace if t[0] == 'cmp']
        if evs != list(range(n)):
            probs.append(('eval', 'the arguments are evaluated as %s instead of each once in order' % evs))
        first_cmp = next((i for i, t in enumerate(trace) if t[0] == 'cmp'), len(trace))
        if any(t[0] == 'eval' for t in trace[first_cmp:]):
            probs.append(('eval-late', 'an argument is evaluated after the first comparison (CPython evaluates all arguments before the call)'))
        if cmps != wcmps:
            probs.append(('cmp', 'when %s: the comparisons made are %s, CPython makes %s (operand order / operator / sequence differs: rich comparison '
                          'methods are called on the other operand, NaN and unorderable operands behave differently)'
                          % (outcome or 'always', ['a%d %s a%d' % (a, o, b) for _, o, a, b in cmps], ['a%d %s a%d' % (a, o, b) for _, o, a, b in wcmps])))
        elif got != want:
            probs.append(('result', 'when %s: argument %d is returned, CPython returns argument %d (which of several equal values wins)' % (outcome or 'always', got, want)))
    seen, out = set(), []
    for k, m in probs:
        if k not in seen:
            seen.add(k)
            out.append((k, m))
    return out


MINMAX_OPS = {'min': '<', 'max': '>'}


def _build_minmax(ix, cls, mod, hname, n, display):
    fn = cls.methods[hname]

    def make_args():
        args = [SNode('arg%d' % i, {'argno': i, 'is_sequence_constructor': False}, cls='NameNode') for i in range(n)]
        if display:
            pos_args = [SNode('display', {'is_sequence_constructor': True, 'args': args, 'mult_factor': None}, cls=display)]
        else:
            pos_args = list(args)
        node = SNode('call', {'pos_args': pos_args}, cls='SimpleCallNode')
        return [self_node(), node, pos_args], {}
    return explore(ix, mod, cls, fn, make_args)


PC_MINMAX = '''
class K:
    def _handle_simple_function_max(self, node, pos_args):
        return self._opt(node, pos_args, '>')
    def _opt(self, node, args, operator):
        if len(args) <= 1:
            return node
        refs = list(map(UtilNodes.ResultRefNode, args))
        last = refs[0]
        for arg in refs[1:]:
            last = ExprNodes.CondExprNode(arg.pos, true_val=last, false_val=arg,
                                          test=ExprNodes.PrimaryCmpNode(arg.pos, operand1=last, operator=operator, operand2=arg))
        for r in refs[::-1]:
            last = UtilNodes.EvalWithTempExprNode(r, last)
        return last
'''


class _MiniClass:
    def __init__(self, cdef):
        self.name = cdef.name
        self.methods = {s.name: s for s in cdef.body if isinstance(s, ast.FunctionDef)}


def rule_minmax(ctx, rid='C01-MINMAX', floor=10):
    r = Rule(rid, 'inlined min()/max() (EarlyReplaceBuiltinCalls): for 2..4 arguments and every outcome of the pairwise comparisons the built conditional cascade '
             'evaluates each argument once in order, compares `item OP best` like CPython (same operands on the same sides, strict operator) and returns the same argument', floor)
    ix = ctx.index
    mod = ix.mod('Optimize')
    cls = ix.cls('Optimize', 'EarlyReplaceBuiltinCalls')
    rel = mod.rel
    reported = set()
    for bname, op in sorted(MINMAX_OPS.items()):
        hname = '_handle_simple_function_' + bname
        if hname not in cls.methods:
            r.info('%s is not inlined (no %s)' % (bname, hname))
            continue
        fn = cls.methods[hname]
        for display in (None, 'TupleNode'):
            for n in (2, 3, 4):
                key = 'EarlyReplaceBuiltinCalls.%s:%d-args%s' % (hname, n, ':display' if display else '')
                try:
                    outcomes = _build_minmax(ix, cls, mod, hname, n, display)
                except TBGiveUp as e:
                    raise AnalysisError('%s: %s leaves the modelled subset of the tree-builder interpreter: %s' % (rid, hname, e))
                replaced = 0
                for d, (kind, v) in outcomes:
                    if kind == 'raise':
                        r.violate(key + ':raises', rel, fn.lineno, '%s raises %s while rewriting %s() with %d arguments (compiler crash)' % (hname, v, bname, n))
                        continue
                    if isinstance(v, SNode) and v.label == 'call':
                        continue                     # left to the generic call
                    if v is None:
                        r.violate(key + ':none', rel, fn.lineno, '%s returns None for %s() with %d arguments: the call disappears from the tree' % (hname, bname, n))
                        continue
                    replaced += 1
                    try:
                        probs = minmax_problems(v, n, op)
                    except Undecidable as e:
                        raise AnalysisError('%s: the tree built by %s for %d arguments is outside the modelled node classes: %s' % (rid, hname, n, e))
                    for k, msg in probs:
                        fkey = 'EarlyReplaceBuiltinCalls.%s:%s' % (hname, k)
                        if fkey not in reported:            # one finding per handler and kind of deviation (smallest argument count)
                            reported.add(fkey)
                            r.violate(fkey, rel, fn.lineno, '%s(%s)%s: %s' % (bname, ', '.join('a%d' % i for i in range(n)),
                                                                              ' written with one list/tuple display' if display else '', msg))
                r.inst(key, sample='%s: %d path(s), %d build a cascade' % (key, len(outcomes), replaced), nontrivial=replaced > 0)
    # positive control: the cascade with the operands turned round
    pcm = ast.parse(PC_MINMAX).body[0]
    k = _MiniClass(pcm)

    def make_args():
        args = [SNode('arg%d' % i, {'argno': i, 'is_sequence_constructor': False}, cls='NameNode') for i in range(3)]
        return [self_node(), SNode('call', cls='SimpleCallNode'), list(args)], {}
    outs = explore(ix, mod, k, k.methods['_handle_simple_function_max'], make_args)
    found = set()
    for d, (kind, v) in outs:
        if kind == 'return' and isinstance(v, BNode):
            found |= {p for p, _ in minmax_problems(v, 3, '>')}
    r.positive_control('cmp' in found, 'a cascade `best if best > item else item` is reported (operand order of the comparison)')
    return r


# =================================================================================================================== C01-INPLACE
OPERAND_KINDS = ('name/py', 'name/c', 'expr/py', 'expr/c', 'sub/py', 'sub/c', 'attr/py', 'attr/c', 'cattr/py')
INDEX_KINDS = ('name/py', 'name/c', 'expr/py', 'expr/c')


def _type(py):
    return SNode('type', {'is_pyobject': py, 'is_cpp_class': False, 'is_memoryviewslice': False, 'is_buffer': False, 'is_fused': False,
                          'is_ptr': False, 'is_array': False, 'is_struct': False, 'is_struct_or_union': False, 'is_error': False})


def _operand(label, kind, units):
    """symbolic operand of the given kind; appends the evaluation units (label, is C lvalue name) it is made of to `units`"""
    shape, ty = kind.split('/') if '/' in kind else (kind, 'c')
    py = ty == 'py'
    facts = {'type': _type(py), 'is_name': False, 'is_subscript': False, 'is_attribute': False, 'is_literal': False, 'is_temp': False,
             'is_sequence_constructor': False, 'is_none': False}
    # ExprNode.result_in_temp(): a Python-object value that is looked up or created (call, Python __getitem__ / attribute lookup) lives in a temp;
    # a name and a C-level access path (cdef attribute of an extension type, C array element) do not.  `cattr/py` is the C-level attribute that holds an object.
    facts['_rit'] = py and shape in ('expr', 'sub', 'attr')
    if shape == 'name':
        facts['is_name'] = True
        n = SNode(label, facts, cls='NameNode')
        units.append(n)
        return n
    if shape == 'expr':
        n = SNode(label, facts, cls='SimpleCallNode')
        units.append(n)
        return n
    if shape == 'buf':
        n = SNode(label, dict(facts, is_subscript=True), cls='BufferIndexNode')
        units.append(n)
        return n
    # a subscript / attribute operand: Python-object valued ones are one evaluation unit for the reference semantics only if the transform treats them
    # as one (wraps them whole); if it rebuilds them, their own operands are the units.  Both are accepted: the unit list holds the parts, and a whole-node
    # evaluation counts as one evaluation of each part.
    sub_ty = 'py' if py else 'c'
    if shape == 'sub':
        facts['is_subscript'] = True
        n = SNode(label, facts, cls='IndexNode')
        n.facts['base'] = _operand(label + '.base', 'name/' + sub_ty, units)
        n.facts['index'] = _operand(label + '.index', 'name/' + sub_ty, units)
        n.parts = [n.facts['base'], n.facts['index']]
        return n
    if shape in ('attr', 'cattr'):
        facts['is_attribute'] = True
        n = SNode(label, facts, cls='AttributeNode')
        n.facts['obj'] = _operand(label + '.obj', 'name/' + sub_ty, units)
        n.facts['attribute'] = 'member'
        n.parts = [n.facts['obj']]
        return n
    raise AnalysisError('operand kind ' + kind)


def inplace_shapes():
    """-> [(shape key, builder)]; builder() -> (target SNode, units in source order, {unit label: (position, kind)}, composite operand (label, position, kind) or None)"""
    out = []

    def name_target(py):
        def b():
            t = _operand('T', 'name/' + ('py' if py else 'c'), [])
            return t, [], {}, None
        return b
    for py in (True, False):
        out.append(('name/%s' % ('py' if py else 'c'), name_target(py)))

    def positions(units, top, top_pos, top_kind):
        pos = {}
        for u in units:
            if u is top:
                pos[u.label] = (top_pos, top_kind)
            else:
                pos[u.label] = (top_pos + '.' + u.label.split('.', 1)[1], 'name/' + top_kind.split('/')[1])
        comp = (top.label, top_pos, top_kind) if getattr(top, 'parts', None) else None
        return pos, comp

    def sub_target(py, bk, ik):
        def b():
            units = []
            base = _operand('B', bk, units)
            nb = len(units)
            index = _operand('I', ik, units)
            t = SNode('T', {'type': _type(py), 'is_name': False, 'is_subscript': True, 'is_attribute': False, 'base': base, 'index': index,
                            'is_literal': False}, cls='IndexNode')
            pos, comp = positions(units[:nb], base, 'subscript.base', bk)
            for u in units[nb:]:
                pos[u.label] = ('subscript.index', ik)
            return t, units, pos, comp
        return b
    for py in (True, False):
        for bk in OPERAND_KINDS:
            for ik in INDEX_KINDS:
                out.append(('subscript[%s][%s]->%s' % (bk, ik, 'py' if py else 'c'), sub_target(py, bk, ik)))

    def attr_target(py, ok):
        def b():
            units = []
            obj = _operand('O', ok, units)
            t = SNode('T', {'type': _type(py), 'is_name': False, 'is_subscript': False, 'is_attribute': True, 'obj': obj, 'attribute': 'member',
                            'is_literal': False}, cls='AttributeNode')
            pos, comp = positions(units, obj, 'attribute.obj', ok)
            return t, units, pos, comp
        return b
    for py in (True, False):
        for ok in OPERAND_KINDS:
            out.append(('attribute[%s]->%s' % (ok, 'py' if py else 'c'), attr_target(py, ok)))
    return out


class InplaceSem:
    """reference semantics of the statement tree built for `target OP= rhs`: a list of events
       ('eval', unit label) / ('load', composite label or 'T') / ('rhs',) / ('op',) / ('store', 'T')"""

    def __init__(self, depth1_label=None):
        self.events = []
        self.bound = set()
        self.problems = []
        self.depth1 = depth1_label          # label of the composite operand a rebuilt nested Index/AttributeNode stands for

    def unit_eval(self, s):
        src = getattr(s, 'copy_of', None) or s
        if src.label == 'T':
            self.events.append(('load', 'T'))
            return
        if getattr(src, 'parts', None):
            for p in src.parts:          # a composite operand evaluated as a whole evaluates its parts, in order, then loads
                self.unit_eval(p)
            self.events.append(('load', src.label))
            return
        self.events.append(('eval', src.label))

    def ev(self, v, depth=0):
        if isinstance(v, SNode):
            if v.label == 'rhs':
                self.events.append(('rhs',))
                return
            self.unit_eval(v)
            return
        if not isinstance(v, BNode):
            raise Undecidable('%r where an expression node is expected' % (v,))
        if v.cls in TEMP_CLASSES:
            if v.id not in self.bound:
                self.problems.append(('unbound', 'a %s is referred to without being bound by an enclosing LetNode' % v.cls))
            return
        if v.cls in ('IndexNode', 'AttributeNode'):
            self.operands(v, depth)
            self.events.append(('load', self.label_at(depth)))
            return
        if v.cls == 'binop_node':
            self.ev(v.fields.get('operand1'))
            self.ev(v.fields.get('operand2'))
            self.events.append(('op',))
            return
        raise Undecidable('expression class %s is outside the modelled classes' % v.cls)

    def label_at(self, depth):
        if depth == 0:
            return 'T'
        if depth == 1 and self.depth1:
            return self.depth1
        raise Undecidable('rebuilt operand at nesting depth %d' % depth)

    def operands(self, v, depth):
        if v.cls == 'IndexNode':
            self.ev(v.fields.get('base'), depth + 1)
            self.ev(v.fields.get('index'), depth + 1)
        else:
            self.ev(v.fields.get('obj'), depth + 1)

    def store(self, v):
        if isinstance(v, SNode):
            src = getattr(v, 'copy_of', None) or v
            if src.facts.get('is_name') and src.label == 'T':
                self.events.append(('store', 'T'))
                return
            raise Undecidable('store to %r' % v)
        if isinstance(v, BNode) and v.cls in ('IndexNode', 'AttributeNode'):
            self.operands(v, 0)
            self.events.append(('store', 'T'))
            return
        raise Undecidable('assignment target %r' % (v,))

    def run(self, v):
        if isinstance(v, BNode) and v.cls in LET_CLASSES:
            if len(v.args) < 2:
                raise Undecidable('%s with %d positional arguments' % (v.cls, len(v.args)))
            ref, body = v.args[0], v.args[1]
            if not (isinstance(ref, BNode) and ref.cls in TEMP_CLASSES):
                raise Undecidable('%s binds %r' % (v.cls, ref))
            if ref.id in self.bound:
                self.problems.append(('rebound', 'a temporary is bound by two LetNodes: its expression is evaluated twice'))
            inner = _temp_expr(ref)
            if inner is None:
                raise Undecidable('temporary without expression')
            self.ev(inner, 1)
            self.bound.add(ref.id)
            self.run(body)
            return
        if isinstance(v, BNode) and v.cls == 'SingleAssignmentNode':
            self.ev(v.fields.get('rhs'))
            self.store(v.fields.get('lhs'))
            return
        raise Undecidable('statement %r' % (v,))


def inplace_problems(tree, target, units, pos, composite=None):
    """-> [(position, operand kind, problem key, message)]; composite = (label, position, kind) of the composite operand, if any"""
    sem = InplaceSem(composite[0] if composite else None)
    sem.run(tree)
    ev = sem.events
    out = [('target', '-', k, m) for k, m in sem.problems]
    if ev.count(('rhs',)) != 1:
        out.append(('target', '-', 'rhs-count', 'the right-hand side is evaluated %d times' % ev.count(('rhs',))))
        return out
    ri = ev.index(('rhs',))
    before, after = ev[:ri], ev[ri + 1:]
    stores = [i for i, e in enumerate(ev) if e == ('store', 'T')]
    loads = [i for i, e in enumerate(ev) if e == ('load', 'T')]
    if len(stores) != 1 or stores[0] != len(ev) - 1:
        out.append(('target', '-', 'store', 'the result is not stored exactly once as the last action (events: %s)' % (ev,)))
    if len(loads) != 1 or loads[0] > ri:
        out.append(('target', '-', 'load', 'the old value is not loaded exactly once before the right-hand side (events: %s)' % (ev,)))
    if composite:
        label, cpos, ckind = composite
        n = sum(1 for e in ev if e == ('load', label))
        if ckind.endswith('/py') and n != 1:
            out.append((cpos, ckind, 'reload', 'the Python-object operand in position %s (%s, e.g. `a[i]` in `a[i].x += v` or `o.p` in `o.p.x += v`) is evaluated %d times: '
                        'its __getitem__ / attribute lookup runs once for the load and again for the store, CPython evaluates it once' % (cpos, ckind, n)))
    order = []
    for u in units:
        p, kind = pos[u.label]
        nb = sum(1 for e in before if e == ('eval', u.label))
        na = sum(1 for e in after if e == ('eval', u.label))
        lvalue_c_name = u.facts.get('is_name') and not u.facts['type'].facts['is_pyobject'] and not p.endswith('index')
        what = 'the name' if u.facts.get('is_name') else 'the expression'
        if na and not lvalue_c_name:
            out.append((p, kind, 'reread', '%s in operand position %s (%s) is evaluated again AFTER the right-hand side (for the store): CPython evaluates the operands of the '
                        'target once, before the right-hand side, and stores to the same container/index - `a[i] += (i := i + 1)` or a right-hand side that '
                        'rebinds the name stores to a different element' % (what, p, kind)))
        if nb == 0:
            out.append((p, kind, 'late', '%s in operand position %s (%s) is not evaluated before the right-hand side' % (what, p, kind)))
        if nb > 1 and not lvalue_c_name:
            out.append((p, kind, 'twice', '%s in operand position %s (%s) is evaluated %d times before the right-hand side' % (what, p, kind, nb)))
        first = next((i for i, e in enumerate(before) if e == ('eval', u.label)), None)
        if first is not None and not lvalue_c_name:          # a C lvalue name (C array, struct variable) is not an evaluation
            order.append((first, u.label, bool(u.facts.get('is_name'))))
    effects = [(i, l) for i, l, is_name in order if not is_name]
    if [l for _, l in sorted(effects)] != [l for _, l in effects]:
        out.append(('target', '-', 'order', 'the operand expressions of the target are evaluated in the order %s, the source order is %s' % (
            [l for _, l in sorted(effects)], [l for _, l in effects])))
    elif [l for _, l, _ in sorted(order)] != [l for _, l, _ in order]:
        out.append(('target', '-', 'order-names', 'a plain name among the operands is read after a later operand expression was evaluated (order %s, source order %s): '
                    'an index expression that rebinds the container name changes the container' % ([l for _, l, _ in sorted(order)], [l for _, l, _ in order])))
    return out


def inplace_finding_class(p, kind, k):
    """problems that hold on the unmodified tree and are recorded as a known finding (K14; FINDING_1 of session s4-G1): -> 'F1' | None.
    The owner / container of the target, when it is a plain NAME or a C-level attribute path (`self.x` with a cdef attribute), is not copied into a
    temporary: it is read for the load, and read again for the store after the right-hand side ran.  Python-level lookups (FINDING_2) were repaired in
    43f76656b and are ordinary violations again."""
    if k == 'reread' and kind == 'name/py' and not p.endswith('index'):
        return 'F1'         # `a[i] += (a := other)`, `o.x += (o := other).x`: the container/owner NAME is read again for the store
    if k == 'order-names':
        return 'F1'
    if k == 'reload' and kind == 'cattr/py' and p == 'attribute.obj':
        return 'F1'         # `self.cattr.x += v`: the C-level attribute path is read again for the store (kept by upstream so that it works without the GIL)
    return None


PC_INPLACE = '''
class K:
    def visit_InPlaceAssignmentNode(self, node):
        lhs = node.lhs
        def ref(n):
            if n.is_name:
                return n, []
            elif n.is_subscript:
                base, temps = ref(n.base)
                index, t2 = ref(n.index)
                return ExprNodes.IndexNode(n.pos, base=base, index=index), temps + t2
            else:
                n = LetRefNode(n)
                return n, [n]
        lhs, temps = ref(lhs)
        dup = lhs.__class__(**lhs.__dict__)
        binop = ExprNodes.binop_node(node.pos, operator=node.operator, operand1=dup, operand2=node.rhs, inplace=True)
        out = Nodes.SingleAssignmentNode(node.pos, lhs=lhs, rhs=binop)
        for t in temps[::-1]:
            out = LetNode(t, out)
        return out
'''

def _run_inplace(ix, mod, cls, fn, builder):
    """-> [(decisions, 'return'|'raise', value, {'t','units','pos','comp','node'})]"""
    holder = {}

    def make_args():
        t, units, pos, comp = builder()
        holder.update(t=t, units=units, pos=pos, comp=comp)
        rhs = SNode('rhs', {'type': _type(True)}, cls='SimpleCallNode')
        node = SNode('stmt', {'lhs': t, 'rhs': rhs, 'operator': '+'}, cls='InPlaceAssignmentNode')
        holder['node'] = node
        return [self_node(), node], {}
    res = []
    todo, n = [dict()], 0
    while todo:
        d = todo.pop()
        n += 1
        if n > MAX_PATHS:
            raise TBGiveUp('more than %d paths' % MAX_PATHS)
        tb = TB(ix, mod, d, cls)
        args, kw = make_args()
        try:
            v = tb.invoke(Closure(fn, Env(), cls), args, kw)
            res.append((d, 'return', v, dict(holder)))
        except _Fork as f:
            for b in (True, False):
                d2 = dict(d)
                d2[f.key] = b
                todo.append(d2)
        except _Raise as r:
            res.append((d, 'raise', r.name, dict(holder)))
    return res


def rule_inplace(ctx, pending=False, floor=None, tolerant=False):
    """tolerant: a tree outside the modelled subset is an info line, not an ANALYSIS-ERROR (for the property that registers this rule next to another rule deciding the same trees)"""
    rid = 'C01-INPLACE-NAME' if pending else 'C01-INPLACE'
    r = Rule(rid, '`target OP= rhs` expanded into `target = target OP rhs` (ExpandInplaceOperators): for every kind of target and operand the operands of the target are '
             'evaluated once, in source order, before the right-hand side; only the store follows it; every temporary is bound'
             + (' [the owner / container NAME and C-level attribute path of the target: read again for the store, known finding K14]' if pending else ''), floor if floor is not None else (25 if pending else 70))
    ix = ctx.index
    mod = ix.mod('ParseTreeTransforms')
    cls = ix.cls('ParseTreeTransforms', 'ExpandInplaceOperators')
    hname = 'visit_InPlaceAssignmentNode'
    if hname not in cls.methods:
        raise AnalysisError('ExpandInplaceOperators.%s not found' % hname)
    fn = cls.methods[hname]
    reported = set()
    skipped = set()
    for skey, builder in inplace_shapes():
        try:
            res = _run_inplace(ix, mod, cls, fn, builder)
        except TBGiveUp as e:
            if tolerant:
                r.info('%s: %s leaves the modelled subset of the tree-builder interpreter for target %s: %s; not decided here' % (rid, hname, skey, e))
                continue
            raise AnalysisError('%s: %s leaves the modelled subset of the tree-builder interpreter for target %s: %s' % (rid, hname, skey, e))
        expanded = 0
        relevant = False
        for d, kind, v, h in res:
            if kind == 'raise':
                if not pending:
                    r.violate('ExpandInplaceOperators.%s:%s:raises' % (hname, skey), mod.rel, fn.lineno, '%s raises %s for a target of shape %s (compiler crash)' % (hname, v, skey))
                continue
            if v is h['node']:
                continue            # not expanded: InPlaceAssignmentNode generates the operation itself
            if v is None:
                if not pending:
                    r.violate('ExpandInplaceOperators.%s:%s:none' % (hname, skey), mod.rel, fn.lineno, '%s returns None for a target of shape %s: the statement disappears' % (hname, skey))
                continue
            expanded += 1
            try:
                probs = inplace_problems(v, h['t'], h['units'], h['pos'], h['comp'])
            except Undecidable as e:
                if tolerant:
                    r.info('%s: the tree built for target %s is outside the modelled node classes: %s; not decided here' % (rid, skey, e))
                    continue
                raise AnalysisError('%s: the tree built for target %s is outside the modelled node classes: %s' % (rid, skey, e))
            for p, okind, k, msg in probs:
                fc = inplace_finding_class(p, okind, k)
                if (fc is not None) != pending:
                    if fc is not None:
                        skipped.add('%s:%s:%s [%s]' % (p, okind, k, fc))
                    continue
                fkey = 'ExpandInplaceOperators.%s:%s:%s:%s' % (hname, p, okind, k)
                if fkey in reported:
                    continue
                reported.add(fkey)
                r.violate(fkey, mod.rel, fn.lineno, 'target shape %s: %s' % (skey, msg))
        h0 = res[0][3] if res else None
        if pending and h0 is not None:
            # shapes that contain an operand position of the pending findings, whether or not the obligation holds today
            relevant = any(k == 'name/py' and not p.endswith('index') for p, k in h0['pos'].values()) or \
                bool(h0['comp'] and h0['comp'][1] == 'attribute.obj' and h0['comp'][2].endswith('/py'))
        if not pending or relevant:
            r.inst(skey, sample='%s: %d path(s), %d expanded' % (skey, len(res), expanded), nontrivial=expanded > 0)
    if skipped:
        r.info('obligations that fail on the unmodified tree and are reported by C01-INPLACE-NAME (known finding K14): ' + '; '.join(sorted(skipped)))
    # positive control: a reference helper that treats the index like the base (names are returned as they are)
    k = _MiniClass(ast.parse(PC_INPLACE).body[0])
    b = dict(inplace_shapes())['subscript[name/py][name/py]->py']
    found = set()
    for d, kind, v, h in _run_inplace(ix, mod, k, k.methods[hname], b):
        if kind == 'return' and isinstance(v, BNode):
            found |= {(p, k2) for p, _, k2, _ in inplace_problems(v, h['t'], h['units'], h['pos'], h['comp'])}
    r.positive_control(('subscript.index', 'reread') in found, 'an index name that is read again for the store is reported')
    return r


# =================================================================================================================== C01-RESTORE
# Tree visitors keep context in attributes of the visitor (`self.in_lambda`, `self.scope`, `self.nogil`, ...).  A handler that changes such an
# attribute for the duration of its subtree saves the old value in a local, and has to put it back on EVERY normal path out of the handler -
# otherwise the context of one subtree leaks into every node visited afterwards (closures not created after the first lambda, a class body
# treated as nested in the previous class, ...).  Pairing on all paths, decided with the path-sensitive flow engine:
#   instance   method M of a visitor class, local v, attribute a with  `v = self.a`  and somewhere later  `self.a = v`
#   violation  a normal exit (return / end of body) is reachable on which self.a was assigned something else after the save and not
#              assigned v again ("restore forgotten on one path"), or self.a is restored from a local that saved a DIFFERENT attribute.
def _self_attr(e):
    return e.attr if isinstance(e, ast.Attribute) and isinstance(e.value, ast.Name) and e.value.id == 'self' else None


def _assign_pairs(s):
    """(target expr, value expr) pairs of an assignment statement, tuple assignments split element-wise"""
    if not isinstance(s, ast.Assign):
        return []
    out = []
    for t in s.targets:
        if isinstance(t, (ast.Tuple, ast.List)) and isinstance(s.value, (ast.Tuple, ast.List)) and len(t.elts) == len(s.value.elts):
            out += list(zip(t.elts, s.value.elts))
        else:
            out.append((t, s.value))
    return out


def restore_sites(fn):
    """-> ({local: attribute} save slots, same dict): a local v is a save slot of self.a when its only assignment is `v = self.a`, self.a is
    assigned something else afterwards in the function, and every use of v is the complete right-hand side of an assignment to an attribute
    of self (the write-back) - a local that is also read for other purposes is an ordinary variable, not a saved context."""
    saves = {}
    for s in walk_no_nested(fn):
        for t, v in _assign_pairs(s):
            a = _self_attr(v)
            if isinstance(t, ast.Name) and a:
                saves.setdefault(t.id, set()).add(a)
    saves = {k: next(iter(v)) for k, v in saves.items() if len(v) == 1}
    writeback_values = set()
    changed = {}
    for s in walk_no_nested(fn):
        for t, v in _assign_pairs(s):
            if isinstance(t, ast.Name) and t.id in saves and _self_attr(v) != saves[t.id]:
                saves.pop(t.id)
            a = _self_attr(t)
            if a:
                if isinstance(v, ast.Name):
                    writeback_values.add(id(v))
                if not (isinstance(v, ast.Name) and saves.get(v.id) == a):
                    changed.setdefault(a, []).append(s.lineno)
        if isinstance(s, (ast.AugAssign, ast.For, ast.comprehension)) and isinstance(getattr(s, 'target', None), ast.Name):
            saves.pop(s.target.id, None)
        if isinstance(s, ast.AugAssign) and _self_attr(s.target):
            changed.setdefault(_self_attr(s.target), []).append(s.lineno)
        if isinstance(s, (ast.With,)):
            for it in s.items:
                if isinstance(it.optional_vars, ast.Name):
                    saves.pop(it.optional_vars.id, None)
    for n in walk_no_nested(fn):
        if isinstance(n, ast.Name) and isinstance(n.ctx, ast.Load) and n.id in saves and id(n) not in writeback_values:
            saves.pop(n.id)            # read for another purpose
    params = {a.arg for a in fn.args.args + fn.args.kwonlyargs}
    slots = {}
    for v, a in saves.items():
        if v in params:
            continue
        save_line = min(s.lineno for s in walk_no_nested(fn) for t, val in _assign_pairs(s) if isinstance(t, ast.Name) and t.id == v)
        if any(ln >= save_line for ln in changed.get(a, [])):
            slots[v] = a
    return slots, saves


def restore_problems(fn):
    """-> (instances [(local, attr)], problems [(key, message, lineno)])"""
    from ..engine.pyflow import Flow
    restored, saves = restore_sites(fn)
    if not restored:
        return [], []
    problems = {}

    def transfer(node, state):
        if not isinstance(node, ast.Assign):
            return state
        st = set(state)
        for t, v in _assign_pairs(node):
            a = _self_attr(t)
            if isinstance(t, ast.Name) and t.id in restored and _self_attr(v) == restored[t.id]:
                st.add(('saved', t.id))
                st.discard(('dirty', restored[t.id], t.id))
                continue
            if not a:
                continue
            for loc, attr in restored.items():
                if attr != a or ('saved', loc) not in st:
                    continue
                if isinstance(v, ast.Name) and v.id == loc:
                    st.discard(('dirty', a, loc))
                elif isinstance(v, ast.Name) and v.id in saves and saves[v.id] != a:
                    st.add(('cross', a, v.id, node.lineno))
                    st.add(('dirty', a, loc))
                else:
                    st.add(('dirty', a, loc))
        return frozenset(st)
    o = Flow(transfer, correlate=True, raise_in_try=False).run(fn)
    for st in set(o.normal) | set(o.returns):
        for f in st:
            if isinstance(f, tuple) and f[0] == 'dirty':
                _, a, loc = f
                cross = [x for x in st if isinstance(x, tuple) and x[0] == 'cross' and x[1] == a]
                if cross:
                    problems.setdefault('self.%s:restored-from:%s' % (a, cross[0][2]),
                                        ('self.%s is restored from the local %r, which holds the saved value of self.%s (its own saved value is in %r): after this handler '
                                         'the visitor continues with the wrong context' % (a, cross[0][2], saves[cross[0][2]], loc), cross[0][3]))
                else:
                    problems.setdefault('self.%s:not-restored' % a,
                                        ('a normal path leaves the method with self.%s still set to the value for this subtree (saved in %r but not written back on this path): '
                                         'the context leaks into every node visited afterwards' % (a, loc), fn.lineno))
    return sorted(restored.items()), [(k, m, ln) for k, (m, ln) in sorted(problems.items())]


PC_RESTORE = '''
def visit_LambdaNode(self, node):
    was_in_lambda = self.in_lambda
    self.in_lambda = True
    if not node.def_node:
        return node
    self.visitchildren(node)
    self.in_lambda = was_in_lambda
    return node
'''


def rule_restore(ctx, floor=35):
    r = Rule('C01-RESTORE', 'tree visitors: an attribute of the visitor that a handler saves in a local and changes for its subtree (`old = self.x; self.x = ...; visit; self.x = old`) '
             'is written back from that same local on every normal path out of the handler', floor)
    ix = ctx.index
    visitor_root = ix.cls('Visitor', 'TreeVisitor')
    visitors = {id(c) for c in [visitor_root] + ix.subclasses(visitor_root)}
    for mname, m in sorted(ix.modules.items()):
        if '.Compiler.' not in mname:
            continue
        for qn, owner, fn in ix.functions_of(m):
            if owner is None or id(owner) not in visitors:
                continue
            inst, probs = restore_problems(fn)
            for loc, attr in inst:
                r.inst('%s.%s:self.%s' % (m.short, qn, attr), sample='%s.%s saves self.%s in %r and writes it back' % (m.short, qn, attr, loc))
            for k, msg, ln in probs:
                r.violate('%s.%s:%s' % (m.short, qn, k), m.rel, ln, '%s.%s: %s' % (m.short, qn, msg))
    pc = ast.parse(PC_RESTORE).body[0]
    _, probs = restore_problems(pc)
    pc2 = ast.parse(PC_RESTORE.replace('    self.in_lambda = was_in_lambda\n', '')).body[0]
    _, probs2 = restore_problems(pc2)
    r.positive_control(any(k.endswith(':not-restored') for k, _, _ in probs) and any(k.endswith(':not-restored') for k, _, _ in probs2),
                       'an early return between the change and the write-back is reported, and so is a handler that never writes the saved value back')
    return r


# =================================================================================================================== C01-PARSEROLE
# The recursive-descent parser consumes the token stream left to right: a sub-tree that was parsed earlier stands earlier in the source.
# Which child role a sub-tree gets is fixed by the grammar (`true_val if condition else false_val`, `operand1 OP operand2`, `key: value`,
# `lhs := rhs`, `assert condition, value`, `raise exc_type from cause` ...).  For every node constructor call in Parsing.py whose role values are
# local variables, the parse positions of two roles must therefore be ordered like the roles in the grammar production.
# ROLE_ORDER: child roles in SOURCE order.  Source: The Python Language Reference, "Expressions" 6.3-6.14, "Simple statements" 7.1-7.8,
# "Compound statements" 8.1-8.5 (the productions named in the comments).
ROLE_ORDER = {
    'CondExprNode': ('true_val', 'condition', 'false_val'),          # conditional_expression ::= or_test ["if" or_test "else" expression]
    'binop_node': ('operand1', 'operand2'),                         # m_expr / a_expr / shift_expr / and_expr / xor_expr / or_expr / power
    'PrimaryCmpNode': ('operand1', 'operand2'),                     # comparison ::= or_expr (comp_operator or_expr)*
    'CascadedCmpNode': ('operand2',),
    'BoolBinopNode': ('operand1', 'operand2'),                      # or_test / and_test
    'AssignmentExpressionNode': ('lhs', 'rhs'),                     # assignment_expression ::= [identifier ":="] expression
    'IndexNode': ('base', 'index'),                                 # subscription ::= primary "[" expression_list "]"
    'SliceIndexNode': ('base', 'start', 'stop'),                    # slicing
    'SliceNode': ('start', 'stop', 'step'),                         # proper_slice ::= [lower_bound] ":" [upper_bound] [ ":" [stride] ]
    'AttributeNode': ('obj', 'attribute'),                          # attributeref ::= primary "." identifier
    'SimpleCallNode': ('function', 'args'),                         # call ::= primary "(" [argument_list] ")"
    'GeneralCallNode': ('function', 'positional_args', 'keyword_args'),
    'DictItemNode': ('key', 'value'),                               # dict_item ::= expression ":" expression
    'DictComprehensionAppendNode': ('key_expr', 'value_expr'),
    'LambdaNode': ('args', 'result_expr'),                          # lambda_expr ::= "lambda" [parameter_list] ":" expression
    'AssertStatNode': ('condition', 'value'),                       # assert_stmt ::= "assert" expression ["," expression]
    'RaiseStatNode': ('exc_type', 'exc_value', 'exc_tb'),           # raise_stmt ::= "raise" [expression ["from" expression]]
    'RaiseStatNode#2': ('exc_type', 'cause'),
    'IfClauseNode': ('condition', 'body'),                          # if_stmt
    'IfStatNode': ('if_clauses', 'else_clause'),
    'WhileStatNode': ('condition', 'body', 'else_clause'),          # while_stmt
    'ForInStatNode': ('target', 'iterator', 'body', 'else_clause'),  # for_stmt ::= "for" target_list "in" starred_list ":" suite ["else" ":" suite]
    'WithStatNode': ('manager', 'target', 'body'),                  # with_item ::= expression ["as" target]
    'ExceptClauseNode': ('pattern', 'target', 'body'),              # "except" [expression ["as" identifier]] ":" suite
    'TryExceptStatNode': ('body', 'except_clauses', 'else_clause'),
    'TryFinallyStatNode': ('body', 'finally_clause'),
    'SingleAssignmentNode': ('lhs', 'rhs'),                         # assignment_stmt
    'InPlaceAssignmentNode': ('lhs', 'rhs'),                        # augmented_assignment_stmt ::= augtarget augop (expression_list | yield_expression)
    'KeywordArgsNode': ('starstar_arg', 'keyword_args'),
    'ComprehensionAppendNode': ('expr',),
    'ForFromStatNode': ('bound1', 'target', 'bound2', 'step', 'body', 'else_clause'),
    'DefNode': ('name', 'args', 'star_arg', 'starstar_arg', 'return_type_annotation', 'body'),
    'PyClassDefNode': ('name', 'bases', 'body'),
}
PARSE_MODULE = 'Parsing'


def _consumes_tokens(e, scanner='s'):
    for n in ast.walk(e):
        if isinstance(n, ast.Call) and any(isinstance(a, ast.Name) and a.id == scanner for a in n.args):
            return True
    return False


def _pos(n):
    return (n.lineno, n.col_offset)


class ParseOrder:
    """parse position of a local of one parser function, as seen from a program point"""

    def __init__(self, fn):
        self.fn = fn
        self.assigns = {}          # name -> [(position, value expr)]
        scanner = None
        for a in fn.args.args:          # the scanner parameter: annotated PyrexScanner, or called `s`
            ann = a.annotation
            if (ann is not None and 'Scanner' in ast.unparse(ann)) or a.arg == 's':
                scanner = a.arg
                break
        self.scanner = scanner
        for s in walk_no_nested(fn):
            if isinstance(s, ast.Assign):
                for t, v in _assign_pairs(s):
                    if isinstance(t, ast.Name):
                        self.assigns.setdefault(t.id, []).append((_pos(s), v, s))
                    elif isinstance(t, (ast.Tuple, ast.List)):
                        for x in t.elts:
                            if isinstance(x, ast.Name):
                                self.assigns.setdefault(x.id, []).append((_pos(s), v, s))
            elif isinstance(s, ast.AnnAssign) and isinstance(s.target, ast.Name) and s.value is not None:
                self.assigns.setdefault(s.target.id, []).append((_pos(s), s.value, s))
            elif isinstance(s, ast.NamedExpr) and isinstance(s.target, ast.Name):
                self.assigns.setdefault(s.target.id, []).append((_pos(s), s.value, s))
        for k in self.assigns:
            self.assigns[k].sort(key=lambda x: x[0])

    def where(self, name, before, depth=0):
        """position at which the tokens of the sub-tree held by `name` (as of program point `before`) were consumed, or None"""
        if depth > 6:
            return None
        cands = [(p, v, s) for p, v, s in self.assigns.get(name, []) if p < before]
        for p, v, s in reversed(cands):
            if isinstance(v, ast.Constant) or (isinstance(v, (ast.List, ast.Tuple, ast.Dict)) and not getattr(v, 'elts', getattr(v, 'keys', None))):
                continue                    # initialisation with a constant / empty display: not a parse
            if isinstance(v, ast.Name):
                if v.id == name:
                    continue
                return self.where(v.id, p, depth + 1)
            if _consumes_tokens(v, self.scanner):
                # the right-hand side may combine an earlier sub-tree with newly parsed ones (n1 = binop_node(pos, op, n1, n2)): the earliest
                # constituent decides where the sub-tree starts
                inner = [self.where(n.id, p, depth + 1) for n in ast.walk(v) if isinstance(n, ast.Name) and n.id != self.scanner and n.id in self.assigns]
                inner = [x for x in inner if x is not None]
                return min(inner + [p])
            names = [n.id for n in ast.walk(v) if isinstance(n, ast.Name) and n.id in self.assigns and n.id != name]
            inner = [self.where(n, p, depth + 1) for n in names]
            inner = [x for x in inner if x is not None]
            if inner:
                return min(inner)
            return None
        return None


def _ctor_name(call, tb_modules=NODE_MODULES):
    f = call.func
    if isinstance(f, ast.Attribute) and isinstance(f.value, ast.Name) and f.value.id in tb_modules:
        return f.attr
    return None


def _value_candidates(e):
    """locals a role value may be: the name itself, either operand of `a or b` / `a and b`, either branch of a conditional expression"""
    if isinstance(e, ast.Name):
        return [e.id]
    if isinstance(e, ast.BoolOp):
        out = []
        for v in e.values:
            out += _value_candidates(v)
        return out
    if isinstance(e, ast.IfExp):
        return _value_candidates(e.body) + _value_candidates(e.orelse)
    return []


def parse_role_problems(ix, fn):
    """-> (instances [(key, sample)], problems [(key, message, lineno)])"""
    po = ParseOrder(fn)
    inst, probs = [], []
    if po.scanner is None:
        return inst, probs          # not a parsing function (no token stream): the order of its statements says nothing about the source
    for call in walk_no_nested(fn):
        if not isinstance(call, ast.Call):
            continue
        cname = _ctor_name(call)
        if cname is None:
            continue
        roles = {}
        for k in call.keywords:
            if k.arg:
                c = _value_candidates(k.value)
                if c:
                    roles[k.arg] = c
        if cname == 'binop_node' or (not roles and len(call.args) > 1):
            # positional construction: parameter names from the callee's signature
            target = None
            for m in NODE_MODULES:
                mod = ix.mod(m)
                if cname in mod.functions:
                    target = mod.functions[cname]
                elif cname in mod.classes:
                    found = ix.find_method(mod.classes[cname], '__init__')
                    target = found[1] if found else None
                    if target is not None:
                        target = ast.FunctionDef(name='__init__', args=ast.arguments(posonlyargs=[], args=target.args.args[1:], kwonlyargs=[], kw_defaults=[], defaults=[]),
                                                 body=[], decorator_list=[])
                if target is not None:
                    break
            if target is not None:
                params = [a.arg for a in target.args.args]
                for p, a in zip(params, call.args):
                    if p not in roles and _value_candidates(a):
                        roles[p] = _value_candidates(a)
        for table_key, order in ROLE_ORDER.items():
            if table_key.split('#')[0] != cname:
                continue
            present = [(r, roles[r]) for r in order if r in roles]
            # a role value may be one of several locals (`a or b`, `a if c else b`): every candidate that was parsed counts
            located = []
            for r_, names in present:
                ws = [(v, po.where(v, _pos(call))) for v in names]
                ws = [(v, w) for v, w in ws if w is not None]
                if ws:
                    located.append((r_, ws))
            if len(located) < 2:
                continue
            key = '%s:%s(%s)' % (fn.name, cname, ','.join(r_ for r_, _ in located))
            inst.append((key, '%s builds %s with %s' % (fn.name, cname, ', '.join('%s=%s' % (r_, '|'.join(v for v, _ in ws)) for r_, ws in located))))
            for (r1, ws1), (r2, ws2) in zip(located, located[1:]):
                bad = [(v1, w1, v2, w2) for v1, w1 in ws1 for v2, w2 in ws2 if v1 != v2 and w1 > w2]
                if bad:
                    v1, w1, v2, w2 = bad[0]
                    probs.append(('%s:%s:%s-before-%s' % (fn.name, cname, r2, r1),
                                  '%s passes %r (parsed at line %d) as %s and %r (parsed at line %d) as %s of %s, but in the grammar %s stands before %s: the sub-trees '
                                  'are attached in exchanged roles' % (fn.name, v1, w1[0], r1, v2, w2[0], r2, cname, r1, r2), call.lineno))
    return inst, probs


PC_PARSEROLE = '''
def p_test(s):
    pos = s.position()
    expr = p_or_test(s)
    if s.sy == 'if':
        s.next()
        test = p_or_test(s)
        s.expect('else')
        other = p_test(s)
        return ExprNodes.CondExprNode(pos, condition=test, true_val=other, false_val=expr)
    return expr
'''


def rule_parserole(ctx, floor=20):
    r = Rule('C01-PARSEROLE', 'parser: sub-trees are attached in the child role the grammar gives to their position in the source - for every node constructor call of '
             'Parsing.py with role values held in locals, the order in which the locals were parsed equals the order of the roles in the grammar production', floor)
    ix = ctx.index
    m = ix.mod(PARSE_MODULE)
    seen = set()
    for qn, owner, fn in ix.functions_of(m):
        inst, probs = parse_role_problems(ix, fn)
        for key, sample in inst:
            k = key
            n = 2
            while k in seen:
                k = '%s#%d' % (key, n)
                n += 1
            seen.add(k)
            r.inst(k, sample=sample)
        for key, msg, ln in probs:
            r.violate('Parsing.' + key, m.rel, ln, msg)
    _, probs = parse_role_problems(ix, ast.parse(PC_PARSEROLE).body[0])
    r.positive_control(any('false_val-before-true_val' in k or 'true_val' in k for k, _, _ in probs), 'a conditional expression built with true_val / false_val exchanged is reported')
    return r


# =================================================================================================================== C01-SKEL
# Control skeleton of the code generators.  generate_execution_code / generate_evaluation_code of the statement and expression nodes with plain
# control flow (if / while / conditional expression / and-or) are interpreted on a recording code writer; children are leaves that emit an
# event when asked to generate their code.  The recorded C skeleton (if/else blocks, while(1), break, labels, gotos, result assignments) is then
# run by a small interpreter for EVERY truth assignment of the conditions and every outcome of a loop body (normal / break / continue), and the
# sequence of child events is compared with the reference semantics of the statement (language reference 8.1 if, 8.2 while, 6.13 conditional
# expressions, 6.11 boolean operations).  Nothing of the repository is executed; the emitted text is matched by shape (what kind of C control
# line), never by its exact wording.
class SkelGiveUp(Exception):
    pass


LEAF_IGNORED = {'generate_disposal_code', 'free_temps', 'generate_post_assignment_code', 'make_owned_reference', 'make_owned_memoryviewslice',
                'generate_function_definitions', 'annotate', 'generate_subexpr_disposal_code', 'free_subexpr_temps', 'release_temp_result', 'allocate_temp_result'}


def _leaf_methods(tb, recv, name, args, kw):
    code = next((a for a in args if isinstance(a, CodeRec)), None)
    if name in ('generate_evaluation_code', 'generate_result_code') and code is not None:
        code.items.append(('eval', recv.label))
        return None
    if name == 'generate_execution_code' and code is not None:
        code.items.append(('exec', recv.label, code.break_label, code.continue_label))
        return None
    if name in ('result', 'py_result', 'result_as', 'calculate_result_code'):
        return '<%s>' % recv.label
    if name in LEAF_IGNORED:
        return None
    return Opaque('%s.%s()' % (recv.label, name))


def leaf(label, pyobject=True, **facts):
    f = {'leaf': True, 'is_terminator': False, 'type': _type(pyobject), 'branch_hint': None}
    f.update(facts)
    return SNode(label, f, cls='NameNode')


def emit(ix, cls_name, method, node, extra_args=(), inline=(), stubs=None):
    """interpret  node.<method>(code, *extra_args)  -> [(decisions, CodeRec)]"""
    out, todo, n = [], [dict()], 0
    base_stubs = {'result': lambda tb, a, k: '<result>', 'allocate_temp_result': lambda tb, a, k: None, 'ctype': lambda tb, a, k: Opaque('ctype'),
                  'release_temp_result': lambda tb, a, k: None}
    base_stubs.update(stubs or {})
    while todo:
        d = todo.pop()
        n += 1
        if n > MAX_PATHS:
            raise TBGiveUp('%s.%s: more than %d paths' % (cls_name, method, MAX_PATHS))
        tb = TB(ix, None, d, None, base_stubs)
        tb.inline = set(inline) | {cls_name}
        tb.leaf_methods = _leaf_methods
        code = CodeRec()
        root = node()
        c = tb.class_of_name(cls_name)
        found = ix.find_method(c, method) if c is not None else None
        if not found:
            raise TBGiveUp('%s.%s not found' % (cls_name, method))
        tb.module = found[0].module
        try:
            tb.invoke(Closure(found[1], Env(), None), [root, code] + list(extra_args), {})
            out.append((d, code))
        except _Fork as f:
            for b in (True, False):
                d2 = dict(d)
                d2[f.key] = b
                todo.append(d2)
        except _Raise as r:
            raise TBGiveUp('%s.%s raises %s' % (cls_name, method, r.name))
    return out


def _cond_atom(text):
    """`!t1` / `unlikely(<a>)` / `(<a>)` -> (negated, atom text)"""
    import re
    t = text.strip()
    neg = False
    while True:
        m = re.fullmatch(r'(?:likely|unlikely)\((.*)\)', t)
        if m:
            t = m.group(1).strip()
            continue
        if t.startswith('(') and t.endswith(')') and t.count('(') == 1:
            t = t[1:-1].strip()
            continue
        if t.startswith('!'):
            neg = not neg
            t = t[1:].strip()
            continue
        break
    return neg, t


def compile_skeleton(items):
    """recorded items -> (instructions, label positions).  Instructions: ('evt', ...) ('jf', atom, negated, target) ('jmp', target) ('goto', Label)
    ('set', name, rhs text) ('result', rhs text)"""
    import re
    ins, stack, labels = [], [], {}

    def here():
        return len(ins)
    for it in items:
        k = it[0]
        if k in ('eval', 'exec'):
            ins.append(('evt',) + it)
            continue
        if k == 'label':
            labels[it[1].id] = here()
            continue
        if k == 'goto':
            if not isinstance(it[1], Label):
                raise SkelGiveUp('goto %r' % (it[1],))
            ins.append(('goto', it[1]))
            continue
        t = ' '.join(it[1].split())
        if not t or t.startswith('/*') and t.endswith('*/'):
            continue
        m = re.fullmatch(r'if\s*\((.*)\)\s*\{', t)
        if m:
            neg, atom = _cond_atom(m.group(1))
            stack.append(['if', here()])
            ins.append(['jf', atom, neg, None])
            continue
        if re.fullmatch(r'\}\s*else\s*\{', t):
            if not stack or stack[-1][0] != 'if':
                raise SkelGiveUp('`} else {` without an open if')
            top = stack.pop()
            ins.append(['jmp', None])
            ins[top[1]][3] = here()
            stack.append(['else', here() - 1])
            continue
        if re.fullmatch(r'(/\*.*\*/ )?\{', t):
            stack.append(['block', None])
            continue
        if re.fullmatch(r'while\s*\(\s*1\s*\)\s*\{', t):
            stack.append(['loop', here(), []])
            continue
        m = re.fullmatch(r'if\s*\((.*)\)\s*break\s*;', t)
        if m:
            loops = [x for x in stack if x[0] == 'loop']
            if not loops:
                raise SkelGiveUp('break outside a loop')
            neg, atom = _cond_atom(m.group(1))
            # if (c) break;  ==  jump to the loop end when c is true
            ins.append(['jt', atom, neg, None])
            loops[-1][2].append(here() - 1)
            continue
        if t == '}':
            if not stack:
                raise SkelGiveUp('unbalanced `}`')
            top = stack.pop()
            if top[0] == 'if':
                ins[top[1]][3] = here()
            elif top[0] == 'else':
                ins[top[1]][1] = here()
            elif top[0] == 'loop':
                ins.append(['jmp', top[1]])
                for i in top[2]:
                    ins[i][3] = here()
            continue
        m = re.fullmatch(r'(\w+) = __Pyx_PyObject_IsTrue\((<[^>]*>)\);.*', t)
        if m:
            ins.append(('set', m.group(1), m.group(2)))
            continue
        m = re.fullmatch(r'(<result>|\w+) = (?:\([^()]*\))?\s*\(?(<[^>]*>)\)?;', t)
        if m:
            ins.append(('result', m.group(2)))
            continue
        if re.match(r'(for|switch|do|case|default|goto|return|break|continue)\b', t) or t.endswith('{') or t.startswith('}'):
            raise SkelGiveUp('control line `%s` is outside the modelled skeleton shapes' % t[:60])
        # any other line is straight-line C (reference counting, temps): no control effect
    if stack:
        raise SkelGiveUp('unbalanced `{`')
    return [tuple(i) for i in ins], labels


def run_skeleton(ins, labels, oracle, max_steps=400):
    """-> trace [('eval', leaf) | ('exec', leaf) | ('result', leaf)] or raises SkelGiveUp"""
    trace, env, pc, steps = [], {}, 0, 0
    counts = {}

    def truth_of(atom):
        if atom in env:
            return env[atom]
        if atom.startswith('<') and atom.endswith('>'):
            name = atom[1:-1]
            return leaf_truth(name)
        raise SkelGiveUp('condition on `%s`, which is neither a child result nor a truth temporary' % atom)

    def leaf_truth(name):
        name = name[:-6] if name.endswith('.value') else name
        n = counts.get(('eval', name), 0)
        if n == 0:
            raise SkelGiveUp('the truth of %s is tested before it is evaluated' % name)
        return oracle.get(('truth', name, n - 1))      # the value of its latest evaluation
    while pc < len(ins):
        steps += 1
        if steps > max_steps:
            trace.append(('nonterminating',))
            return trace
        i = ins[pc]
        k = i[0]
        if k == 'evt':
            if i[1] == 'eval':
                name = i[2]
                if name.endswith('.value'):
                    pc += 1
                    continue            # the coerced view of an operand that was evaluated already
                counts[('eval', name)] = counts.get(('eval', name), 0) + 1
                trace.append(('eval', name))
            else:
                name, brk, cont = i[2], i[3], i[4]
                n = counts.get(('exec', name), 0)
                counts[('exec', name)] = n + 1
                trace.append(('exec', name))
                if brk is not None or cont is not None:
                    outcome = oracle.get(('outcome', name, n))
                    if outcome == 'break':
                        if brk is None or brk.id not in labels:
                            trace.append(('goto-undefined-label', 'break'))
                            return trace
                        pc = labels[brk.id]
                        continue
                    if outcome == 'continue':
                        if cont is None or cont.id not in labels:
                            trace.append(('goto-undefined-label', 'continue'))
                            return trace
                        pc = labels[cont.id]
                        continue
            pc += 1
        elif k in ('jf', 'jt'):
            v = truth_of(i[1])
            if i[2]:
                v = not v
            if (k == 'jf' and not v) or (k == 'jt' and v):
                pc = i[3]
            else:
                pc += 1
        elif k == 'jmp':
            pc = i[1]
        elif k == 'goto':
            if i[1].id not in labels:
                trace.append(('goto-undefined-label', repr(i[1])))
                return trace
            pc = labels[i[1].id]
        elif k == 'set':
            env[i[1]] = leaf_truth(i[2][1:-1])
            pc += 1
        elif k == 'result':
            nm = i[1][1:-1]
            trace.append(('result', nm[:-6] if nm.endswith('.value') else nm))
            pc += 1
        else:
            raise SkelGiveUp('instruction %r' % (i,))
    return trace


class _LazyOracle:
    def __init__(self, dec):
        self.dec = dec

    def get(self, key):
        if key not in self.dec:
            raise _Fork(key)
        return self.dec[key]


def _oracle_runs(run, choices):
    out, todo = [], [dict()]
    while todo:
        d = todo.pop()
        if len(out) > 4000:
            raise AnalysisError('skeleton oracle: too many assignments')
        try:
            out.append((d, run(_LazyOracle(d))))
        except _Fork as f:
            for c in choices(f.key, d):
                d2 = dict(d)
                d2[f.key] = c
                todo.append(d2)
    return out


def _choices(key, d):
    if key[0] == 'truth':
        # a loop condition is re-evaluated: at most two true evaluations, then it is false (keeps the table finite)
        if key[2] >= 2:
            return (False,)
        return (True, False)
    if key[2] >= 2:
        return ('normal',)
    return ('normal', 'break', 'continue')


# ---- reference semantics
def ref_if(conds, bodies, else_):
    def run(o):
        tr = []
        for c, b in zip(conds, bodies):
            tr.append(('eval', c))
            if o.get(('truth', c, 0)):
                tr.append(('exec', b))
                return tr
        if else_:
            tr.append(('exec', else_))
        return tr
    return run


def ref_while(cond, body, else_):
    def run(o):
        tr, n, nb = [], 0, 0
        while True:
            tr.append(('eval', cond))
            t = o.get(('truth', cond, n))
            n += 1
            if not t:
                if else_:
                    tr.append(('exec', else_))
                return tr
            tr.append(('exec', body))
            oc = o.get(('outcome', body, nb))
            nb += 1
            if oc == 'break':
                return tr
    return run


def ref_condexpr(test, a, b):
    def run(o):
        tr = [('eval', test)]
        x = a if o.get(('truth', test, 0)) else b
        return tr + [('eval', x), ('result', x)]
    return run


def ref_boolop(tree):
    """tree: leaf name | (op, left, right)"""
    def ev(t, o, tr):
        if isinstance(t, str):
            tr.append(('eval', t))
            return t, o.get(('truth', t, 0))
        op, l, r = t
        v, tv = ev(l, o, tr)
        if (op == 'and') == bool(tv):
            return ev(r, o, tr)
        return v, tv

    def run(o):
        tr = []
        v, _ = ev(tree, o, tr)
        return tr + [('result', v)]
    return run


def skeleton_problems(ix, cls_name, method, make_node, reference, inline=(), extra=()):
    """-> (number of emission paths, number of oracle assignments, [message])"""
    probs, nruns = [], 0
    emissions = emit(ix, cls_name, method, make_node, extra, inline)
    for d, code in emissions:
        ins, labels = compile_skeleton(code.items)

        def run(o, ins=ins, labels=labels):
            return run_skeleton(ins, labels, o), reference(o)
        for dec, (got, want) in _oracle_runs(run, _choices):
            nruns += 1
            if got != want:
                sit = ', '.join('%s of %s%s is %s' % (k[0], k[1], '' if k[2] == 0 else ' (#%d)' % (k[2] + 1), v) for k, v in sorted(dec.items(), key=repr))
                probs.append('when %s: the generated code does %s, the language reference requires %s' % (sit or 'always', _fmt_trace(got), _fmt_trace(want)))
                break
    return len(emissions), nruns, probs


def _fmt_trace(tr):
    return '[' + ', '.join(' '.join(str(x) for x in t) for t in tr) + ']'


def skeleton_cases():
    """-> [(key, class, method, node factory, reference, inline classes, extra args)]"""
    cases = []
    for n in (1, 2, 3):
        for has_else in (False, True):
            def mk(n=n, has_else=has_else):
                clauses = [SNode('clause%d' % i, {'condition': leaf('c%d' % i), 'body': leaf('b%d' % i), 'branch_hint': None, 'pos': Opaque('pos')}, cls='IfClauseNode')
                           for i in range(n)]
                return SNode('if', {'if_clauses': clauses, 'else_clause': leaf('else') if has_else else None, 'pos': Opaque('pos')}, cls='IfStatNode')
            cases.append(('IfStatNode:%d-clauses%s' % (n, ':else' if has_else else ''), 'IfStatNode', 'generate_execution_code', mk,
                          ref_if(['c%d' % i for i in range(n)], ['b%d' % i for i in range(n)], 'else' if has_else else None), ('IfClauseNode',), ()))
    for has_else in (False, True):
        def mk(has_else=has_else):
            return SNode('while', {'condition': leaf('cond'), 'body': leaf('body'), 'else_clause': leaf('else') if has_else else None, 'pos': Opaque('pos')}, cls='WhileStatNode')
        cases.append(('WhileStatNode%s' % (':else' if has_else else ''), 'WhileStatNode', 'generate_execution_code', mk,
                      ref_while('cond', 'body', 'else' if has_else else None), (), ()))

    def mkc():
        return SNode('condexpr', {'condition': leaf('test', False), 'true_val': leaf('a'), 'false_val': leaf('b'), 'type': _type(True), 'branch_hint': None,
                                  'pos': Opaque('pos')}, cls='CondExprNode')
    cases.append(('CondExprNode', 'CondExprNode', 'generate_evaluation_code', mkc, ref_condexpr('test', 'a', 'b'), (), ()))
    shapes = [('and', 'a', 'b'), ('or', 'a', 'b'), ('or', ('and', 'a', 'b'), 'c'), ('and', ('or', 'a', 'b'), 'c'), ('and', 'a', ('or', 'b', 'c')),
              ('or', 'a', ('and', 'b', 'c')), ('and', ('and', 'a', 'b'), 'c'), ('or', ('or', 'a', 'b'), 'c'), ('or', ('and', 'a', 'b'), ('and', 'c', 'd')),
              ('and', ('or', 'a', 'b'), ('or', 'c', 'd'))]
    for py in (True, False):
        for sh in shapes:
            def mkb(sh=sh, py=py):
                def build(t):
                    if isinstance(t, str):
                        return SNode('res_' + t, {'arg': leaf(t, py), 'value': leaf(t + '.value', py), 'type': _type(py), 'pos': Opaque('pos')}, cls='BoolBinopResultNode')
                    op, l, r = t
                    return SNode('bool', {'operator': op, 'operand1': build(l), 'operand2': build(r), 'type': _type(py), 'pos': Opaque('pos')}, cls='BoolBinopNode')
                return build(sh)

            def show(t):
                return t if isinstance(t, str) else '(%s %s %s)' % (show(t[1]), t[0], show(t[2]))
            cases.append(('BoolBinopNode:%s:%s' % (show(sh), 'object' if py else 'bint'), 'BoolBinopNode', 'generate_evaluation_code', mkb, ref_boolop(sh),
                          ('BoolBinopResultNode',), ()))
    return cases


def rule_skel(ctx, floor=25):
    r = Rule('C01-SKEL', 'control skeleton emitted for if / while / conditional expressions / and-or (generators interpreted on a recording code writer): for every truth '
             'assignment of the conditions and every outcome of a loop body the children are executed in the order, and the result is the operand, the language reference requires', floor)
    ix = ctx.index
    reported = set()
    for key, cls_name, method, mk, ref, inline, extra in skeleton_cases():
        c = ix.cls('Nodes', cls_name) if cls_name.endswith('StatNode') else ix.cls('ExprNodes', cls_name)
        try:
            npaths, nruns, probs = skeleton_problems(ix, cls_name, method, mk, ref, inline, extra)
        except (TBGiveUp, SkelGiveUp) as e:
            raise AnalysisError('C01-SKEL: %s.%s (%s) is outside the modelled subset: %s' % (cls_name, method, key, e))
        r.inst(key, sample='%s: %d emission path(s), %d scenarios' % (key, npaths, nruns))
        found = ix.find_method(c, method)
        for msg in probs:
            fkey = '%s.%s' % (cls_name, method)
            if fkey in reported:
                continue
            reported.add(fkey)
            r.violate('%s:%s' % (fkey, key.split(':', 1)[1] if ':' in key else 'flow'), c.module.rel, found[1].lineno if found else 0, '%s (%s): %s' % (fkey, key, msg))
    # positive control: a while loop whose exit test is not negated
    items = [('text', 'while (1) {'), ('eval', 'cond'), ('text', 'if (<cond>) break;'), ('exec', 'body', None, None), ('text', '}')]
    ins, labels = compile_skeleton(items)
    bad = False
    for dec, (got, want) in _oracle_runs(lambda o: (run_skeleton(ins, labels, o), ref_while('cond', 'body', None)(o)), _choices):
        bad = bad or got != want
    r.positive_control(bad, 'a while skeleton that leaves the loop when the condition is TRUE is reported')
    return r
