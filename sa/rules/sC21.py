"""C21-LOOPVAR (also registered for C14 as C14-LOOPVAR): what a loop statement node does to its target variable.

For a Python `for` loop the target is bound exactly once per iteration, before the body, to the item of that iteration, and is not
touched otherwise: after the loop it holds the last item (or is still unbound / keeps its old value when the loop never ran), and
assigning to it inside the body does not change which items follow.  Decided on the emitted statement sequence of every path of
generate_execution_code (partial evaluation, sa/rules/sC14.Emu):

  in-loop    between the emitted loop header and the body there is an assignment to self.target, inside the loop's braces
  after-loop no assignment to self.target is emitted after the body outside the loop's braces
  counter    (loops with a C counter) between the body and the closing brace nothing writes the counter except the loop increment
             (the counter is not re-read from the target)

ForFromStatNode is shared with the Pyrex `for i from a <= i < b` statement, which deliberately behaves like a C loop (target one
step past the end, re-synchronised with the body's assignments); only the mode IterationTransform selects for range() loops
(`from_range=True`, checked at the constructor call) is subject to the rule."""
import ast, re

from ..core import Rule, AnalysisError
from ..engine.pyindex import walk_no_nested
from . import sC14 as E

BRACES = re.compile(r'[{}]')


def _text(ev):
    if ev[0] == 'code' and ev[1] == '' and ev[2] in ('put', 'putln') and ev[3] and isinstance(ev[3][0], str):
        return ev[3][0]
    return None


def _is_call(ev, attr, method):
    return ev[0] == 'call' and isinstance(ev[1], E.U) and ev[1].path == 'self.' + attr and ev[2] == method


def loopvar_problems(events, attrs, check_counter):
    """one path -> set of problem codes; None when the path generates no loop body (error path)"""
    depth, open_at, open_depth, body_at, close_at = 0, None, None, None, None
    depths = []
    counter = None
    for i, ev in enumerate(events):
        t = _text(ev)
        if t is not None:
            flat = E.MARK.sub('x', t)
            if open_at is None and re.match(r'\s*for\s*\(', flat):
                open_at, open_depth = i, depth
                m = re.match(r'\s*for\s*\(\s*\x01([^\x02]*)\x02\s*=[^=]', t)
                if m:
                    counter = m.group(1)
            for b in BRACES.findall(flat):
                depth += 1 if b == '{' else -1
                if open_at is not None and body_at is not None and close_at is None and depth == open_depth:
                    close_at = i
        depths.append(depth)
        if _is_call(ev, 'body', 'generate_execution_code') and body_at is None:
            body_at = i
    if body_at is None:
        return None
    probs = set()
    if open_at is None or open_at > body_at or depths[body_at] <= open_depth:
        probs.add('no-loop')
        return probs
    if close_at is None:
        probs.add('no-close')
        return probs
    assigns = [i for i, ev in enumerate(events) if _is_call(ev, 'target', 'generate_assignment_code')]
    if not any(open_at < i < body_at and depths[i] > open_depth for i in assigns):
        probs.add('in-loop')
    if any(i > close_at for i in assigns):
        probs.add('after-loop')
    if check_counter:
        if counter is None:
            probs.add('no-counter')
        else:
            for i in range(body_at + 1, close_at):
                ev = events[i]
                t = _text(ev)
                if t is not None:
                    if re.search(r'\x01' + re.escape(counter) + r'\x02\s*(=[^=]|[-+*/]=|\+\+|--)', t):
                        probs.add('counter')
                elif ev[0] == 'call' and isinstance(ev[1], E.New) and ev[2].startswith('generate_'):
                    tc = attrs.get(ev[1].ident + '.temp_code')
                    if isinstance(tc, E.U) and tc.path == counter:
                        probs.add('counter')
    return probs


TEXT = {
    'in-loop': 'has a path on which the loop target is not assigned between the loop header and the body (inside the loop): the body reads a stale or unbound variable',
    'after-loop': 'assigns the loop target again after the loop has finished: the variable does not keep the value of the last iteration (for i in range(4) leaves i == 4), '
                  'and a loop that never ran binds it (for i in range(0) followed by a read of i no longer raises UnboundLocalError / silently changes the old value)',
    'counter': 'writes the C loop counter between the body and the end of the iteration (re-reads it from the target): assigning to the loop variable inside the body changes '
               'which iterations follow, unlike a Python for loop',
    'no-loop': 'generates the loop body outside the emitted for-loop',
    'no-close': 'never closes the emitted for-loop',
    'no-counter': 'emits a for-header without a recognisable counter initialisation',
}


class _FakeIx:
    def find_class_attr(self, c, n):
        return None

    def mro(self, c):
        return []

    def find_method(self, c, n):
        return None


POSITIVE = '''
def generate_execution_code(self, code):
    v = self.loopvar_node.result()
    code.putln("for (%s = %s; %s < %s; %s++) {" % (v, self.bound1.result(), v, self.bound2.result(), v))
    self.py_loopvar_node.generate_evaluation_code(code)
    self.target.generate_assignment_code(self.py_loopvar_node, code)
    self.body.generate_execution_code(code)
    code.putln("}")
    if self.py_loopvar_node:
        self.py_loopvar_node.generate_evaluation_code(code)
        self.target.generate_assignment_code(self.py_loopvar_node, code)
'''


def _range_mode_anchor(ix):
    """IterationTransform builds its range loops as ForFromStatNode(..., from_range=True)"""
    m = ix.mod('Optimize')
    for qn, owner, fn in ix.functions_of(m):
        for n in walk_no_nested(fn):
            if isinstance(n, ast.Call) and (getattr(n.func, 'attr', None) or getattr(n.func, 'id', None)) == 'ForFromStatNode':
                for k in n.keywords:
                    if k.arg == 'from_range' and isinstance(k.value, ast.Constant) and k.value.value is True:
                        return qn
    raise AnalysisError('no ForFromStatNode(..., from_range=True) construction found in Optimize.py: the range-loop mode of ForFromStatNode is not identifiable')


def setup_vectors(ix, c, names):
    """truth vectors of the instance attributes `names` as the class's own non-generating methods leave them (they are set together, e.g.
    is_py_target / py_loopvar_node in set_up_loop) -> list of {name: bool} or None when a setting method cannot be modelled"""
    vectors = []
    for mname, fn in sorted(c.methods.items()):
        if mname.startswith('generate_'):
            continue
        stored = {n.attr for n in walk_no_nested(fn) if isinstance(n, ast.Attribute) and isinstance(n.ctx, ast.Store)
                  and isinstance(n.value, ast.Name) and n.value.id == 'self' and n.attr in names}
        if not stored:
            continue
        emu = E.Emu(ix, c, code_names=(), unknown_loops='01', inline=lambda owner, name: False)
        try:
            paths = emu.run(c, fn)
        except E.Unmodelled:
            return None
        for st, v in paths:
            vec = {}
            for n in stored:
                p = 'self.' + n
                if p in st.attrs:
                    t = emu.truth(st.attrs[p], st)
                    if t is not None:
                        vec[n] = t
            if vec not in vectors:
                vectors.append(vec)        # an empty vector (nothing known on that path) keeps every combination feasible
    return vectors


def path_feasible(assume, vectors):
    if not vectors:
        return True
    for vec in vectors:
        if all(assume.get('self.' + n) in (None, t) for n, t in vec.items()):
            return True
    return False


def rule_loopvar(ctx, rid='C21-LOOPVAR', floor=4):
    ix = ctx.index
    r = Rule(rid, 'loop statement nodes bind the loop target once per iteration before the body and never after the loop; a C loop counter is not re-read from the target '
             '(ForFromStatNode: in the from_range mode used for range() loops)', floor)
    _range_mode_anchor(ix)
    base = ix.cls('Nodes', 'LoopNode')
    classes = []
    for c in ix.subclasses(base):
        if 'generate_execution_code' not in c.methods:
            continue
        ca = ix.class_list_attr(c, 'child_attrs')
        if ca and ca[1] and 'target' in ca[1] and 'body' in ca[1]:
            classes.append(c)
    if len(classes) < 2:
        raise AnalysisError('fewer than two loop statement classes with a target define generate_execution_code')
    for c in sorted(classes, key=lambda c: c.name):
        fn = c.methods['generate_execution_code']
        has_mode = ix.find_class_attr(c, 'from_range') is not None
        presets, assume = {}, {}
        if has_mode:
            assume['self.from_range'] = True
            assume['self.from_range is None'] = False
            rt = ix.find_class_attr(c, 'relation_table')
            try:
                rels = sorted(ast.literal_eval(rt[1])) if rt else []
            except Exception:
                rels = []
            ups = [x for x in rels if x.startswith('<')]
            if not ups:
                raise AnalysisError('%s.relation_table has no upward relation' % c.qual)
            presets = {'self.relation1': ups[-1], 'self.relation2': ups[0]}
        emu = E.Emu(ix, c, unknown_loops='01')
        try:
            paths = emu.run(c, fn, presets=presets, assume=assume)
        except E.Unmodelled as e:
            raise AnalysisError('%s.generate_execution_code cannot be modelled: %s' % (c.qual, e))
        found = {}
        n = 0
        atoms = {k[5:] for st, v in paths for k in st.assume if k.startswith('self.') and k[5:].isidentifier()}
        vectors = setup_vectors(ix, c, atoms)
        if vectors is None:
            r.info('%s: attribute correlations of the setup methods not modelled' % c.qual)
        for st, v in paths:
            if vectors and not path_feasible(st.assume, vectors):
                continue
            p = loopvar_problems(st.events, st.attrs, has_mode)
            if p is None:
                continue
            n += 1
            for code in p:
                found.setdefault(code, st)
        if n == 0:
            raise AnalysisError('%s.generate_execution_code has no path that generates the loop body' % c.qual)
        for code in ('no-loop', 'no-close', 'no-counter'):
            if code in found:
                raise AnalysisError('%s.generate_execution_code %s' % (c.qual, TEXT[code]))
        mode = '[from_range]' if has_mode else ''
        for code in ('in-loop', 'after-loop') + (('counter',) if has_mode else ()):
            key = '%s.generate_execution_code%s:%s' % (c.qual, mode, code)
            r.inst(key, sample='%s (%d paths)' % (key, n))
            if code in found:
                st = found[code]
                cond = ', '.join('%s=%s' % (k, v) for k, v in sorted(st.assume.items()) if ' is None' not in k and ('py_loopvar' in k or 'is_py_target' in k or 'from_range' in k))
                r.violate(key, c.module.rel, fn.lineno, '%s.generate_execution_code%s %s%s' % (c.name, ' (range() loop, from_range=True)' if has_mode else '', TEXT[code],
                                                                                           ' [path: %s]' % cond if cond else ''))
    # positive control
    pc = ast.parse(POSITIVE).body[0]
    emu = E.Emu(_FakeIx(), None, unknown_loops='01')
    hit = False
    for st, v in emu.run(None, pc, assume={'self.from_range': True}):
        p = loopvar_problems(st.events, st.attrs, True)
        if p and 'after-loop' in p:
            hit = True
    r.positive_control(hit, 'target re-assigned after the loop')
    return r


import itertools

# ================================================================================================================ MiniPy
# A small interpreter for the Python fragment the compiler's tree builders and analyses are written in.  It belongs to the checker:
# nothing of the repository is imported or executed; the *source* (ast) of a method is interpreted over values the checker constructs
# (abstract tree nodes whose leaves are opaque, stub symbol-table entries, recorder objects).  It is used to obtain, for every member of
# a finite family of abstract inputs, the structure a repository function builds (a control-flow graph, a rewritten tree, an emitted
# statement skeleton), which the rule then compares with a reference it computes itself from the language definition.
# Anything outside the fragment raises Unmodelled (-> the rule reports "not decided", never a guess).
import ast as _ast
import operator as _op


class Unmodelled(Exception):
    pass


class PyRaise(Exception):
    """an exception raised by the interpreted code; .value is a host exception instance or an Obj of an interpreted exception class"""

    def __init__(self, value):
        Exception.__init__(self, repr(value))
        self.value = value


class _Return:
    """pending `return` of an interpreted function (statement executors return it instead of raising)"""
    __slots__ = ('value',)

    def __init__(self, value):
        self.value = value


_BREAK, _CONTINUE = object(), object()


class Obj:
    """instance of an interpreted (repository) class or of a checker-defined stub class"""
    __slots__ = ('cls', 'attrs')

    def __init__(self, cls, attrs=None):
        self.cls = cls
        self.attrs = attrs if attrs is not None else {}

    def __repr__(self):
        return '<%s%s>' % (self.cls.name, (' ' + str(self.attrs['$tag'])) if '$tag' in self.attrs else '')


class ClassVal:
    """an interpreted class: wraps a pyindex.ClassInfo"""

    def __init__(self, ci):
        self.ci = ci
        self.name = ci.name
        self.cache = {}

    def __repr__(self):
        return '<class %s>' % self.ci.qual


class StubClass:
    """checker-defined class: attrs (values) and methods (host callables taking (interp, self, *args, **kw))"""

    def __init__(self, name, bases=(), attrs=None, methods=None, default=None):
        self.name, self.bases, self.attrs, self.methods = name, tuple(bases), attrs or {}, methods or {}
        self.default = default          # optional host callable (obj, attribute name) -> value for attributes that are not listed (raise AttributeError to refuse)

    def __repr__(self):
        return '<stubclass %s>' % self.name


class Func:
    __slots__ = ('node', 'env', 'module', 'owner', 'name', 'kind')

    def __init__(self, node, env, module, owner=None, kind='function'):
        self.node, self.env, self.module, self.owner, self.kind = node, env, module, owner, kind
        self.name = getattr(node, 'name', '<lambda>')

    def __repr__(self):
        return '<func %s>' % self.name


class BoundMethod:
    __slots__ = ('func', 'self')

    def __init__(self, func, self_):
        self.func, self.self = func, self_


class HostFn:
    """host callable fn(interp, *args, **kwargs)"""
    __slots__ = ('fn', 'name')

    def __init__(self, fn, name=None):
        self.fn, self.name = fn, name or getattr(fn, '__name__', 'host')

    def __repr__(self):
        return '<hostfn %s>' % self.name


class ModuleVal:
    def __init__(self, module):
        self.module = module
        self.cache = {}

    def __repr__(self):
        return '<module %s>' % self.module.short


class StubModule:
    def __init__(self, name, names):
        self.name, self.names = name, names


class SuperProxy:
    __slots__ = ('obj', 'after')

    def __init__(self, obj, after):
        self.obj, self.after = obj, after


class Env:
    __slots__ = ('vars', 'parent', 'nonlocals', 'globals_')

    def __init__(self, parent=None):
        self.vars = {}
        self.parent = parent
        self.nonlocals = None
        self.globals_ = None

    def lookup(self, name):
        e = self
        while e is not None:
            if name in e.vars:
                return e.vars
            e = e.parent
        return None


_MISSING = object()
_BINOPS = {_ast.Add: _op.add, _ast.Sub: _op.sub, _ast.Mult: _op.mul, _ast.FloorDiv: _op.floordiv, _ast.Mod: _op.mod, _ast.BitOr: _op.or_, _ast.BitAnd: _op.and_,
           _ast.BitXor: _op.xor, _ast.LShift: _op.lshift, _ast.RShift: _op.rshift, _ast.Div: _op.truediv, _ast.Pow: _op.pow}
_HOST_TYPES = (int, str, bytes, float, bool, list, tuple, dict, set, frozenset, type(None), range, type(iter([])), type(iter(())), type(iter({})), type(iter(set())),
               type(reversed([])), type(enumerate([])), type(zip()), type(iter(range(0))), type({}.items()), type({}.keys()), type({}.values()), type(map(int, [])), type(x for x in ()), slice,
               type(iter({}.items())), type(iter({}.values())), type(reversed({}.keys())))
_HOST_EXC = {'ValueError': ValueError, 'TypeError': TypeError, 'KeyError': KeyError, 'IndexError': IndexError, 'AssertionError': AssertionError, 'AttributeError': AttributeError,
             'RuntimeError': RuntimeError, 'Exception': Exception, 'BaseException': BaseException, 'StopIteration': StopIteration, 'NotImplementedError': NotImplementedError,
             'UnicodeEncodeError': UnicodeEncodeError, 'LookupError': LookupError, 'OverflowError': OverflowError}


class MiniPy:
    def __init__(self, ix, stub_modules=None, family_overrides=None, max_steps=400000):
        self.ix = ix
        self.stub_modules = stub_modules or {}          # module short name -> {name: value}  (consulted before the module's own bindings)
        self.family_overrides = family_overrides or {}  # (family class name, method name) -> host callable(interp, self, *a, **k): wins over own definitions
        self.max_steps = max_steps
        self.steps = 0
        self.classvals = {}
        self.modvals = {}
        self.module_envs = {}
        self.builtins = self._builtins()
        self.call_depth = 0
        self._xd, self._ed, self._fc = {}, {}, {}
        self._sigs = {}
        self.fstack = []

    # ------------------------------------------------------------------------------------------------ values of the index
    def classval(self, ci):
        cv = self.classvals.get(id(ci))
        if cv is None:
            cv = self.classvals[id(ci)] = ClassVal(ci)
        return cv

    def cls(self, mod, name):
        return self.classval(self.ix.cls(mod, name))

    def modval(self, m):
        mv = self.modvals.get(m.name)
        if mv is None:
            mv = self.modvals[m.name] = ModuleVal(m)
        return mv

    def mro(self, c):
        """linearisation of a ClassVal / StubClass as a list of ClassVal / StubClass"""
        if isinstance(c, ClassVal):
            v = c.cache.get('$mro')
            if v is None:
                v = c.cache['$mro'] = [self.classval(k) for k in self.ix.mro(c.ci)]
            return v
        out = [c]
        for b in c.bases:
            for k in self.mro(b):
                if k not in out:
                    out.append(k)
        return out

    def mro_names(self, c):
        key = ('$mro_names',)
        cache = c.cache if isinstance(c, ClassVal) else c.attrs
        v = cache.get(key)
        if v is None:
            v = cache[key] = frozenset(k.name for k in self.mro(c))
            if isinstance(c, ClassVal):
                extra = set()
                for k in self.ix.mro(c.ci):
                    extra.update(k.unresolved_bases)
                v = cache[key] = v | frozenset(extra)
        return v

    def module_global(self, m, name):
        """value of a module-level name of module m (lazily evaluated), or _MISSING"""
        stubs = self.stub_modules.get(m.short)
        if stubs is not None and name in stubs:
            return stubs[name]
        mv = self.modval(m)
        if stubs is not None and '*' in stubs and name not in mv.cache:
            mv.cache[name] = stubs['*'](name)
        if name in mv.cache:
            return mv.cache[name]
        r = self.ix.resolve_name(m, name)
        val = _MISSING
        if r is not None and r[0] in ('class', 'func', 'value'):
            # names that live in a module the rule replaces wholesale (stub_modules[short]['*'] = factory)
            home = r[1].module if r[0] == 'class' else r[1]
            hs = self.stub_modules.get(home.short)
            if hs is not None and name in hs:
                mv.cache[name] = hs[name]
                return hs[name]
            if hs is not None and '*' in hs:
                mv.cache[name] = val = hs['*'](name)
                return val
        if r is not None:
            if r[0] == 'class':
                val = self.classval(r[1])
            elif r[0] == 'func':
                val = Func(r[2], None, r[1])
            elif r[0] == 'module':
                val = self.modval(r[1])
            elif r[0] == 'value':
                node = r[2]
                if isinstance(node, _ast.AST) and not isinstance(node, (_ast.ClassDef, _ast.FunctionDef)):
                    mv.cache[name] = _MISSING        # cycle guard
                    val = self.eval(node, self.module_env(r[1]))
                elif isinstance(node, _ast.ClassDef):
                    for cc in self.ix.classes_by_name[node.name]:
                        if cc.node is node:
                            val = self.classval(cc)
                elif isinstance(node, _ast.FunctionDef):
                    val = Func(node, None, r[1])
            elif r[0] in ('extmodule', 'extsymbol'):
                val = self.external(r)
        mv.cache[name] = val
        return val

    def external(self, r):
        """names imported from outside the analysed packages: the parts of the standard library the interpreted fragment uses"""
        import functools as _functools, itertools as _itertools, collections as _collections, operator as _operator

        def partial(it, f, *a, **k):
            return HostFn(lambda it2, *a2, **k2: it2.call(f, list(a) + list(a2), dict(k, **k2)), 'partial')

        def reduce(it, f, xs, *init):
            g = it.as_host_callable(f)
            return _functools.reduce(g, it.iterate(xs), *init)

        def attrgetter(it, *names):
            if len(names) == 1:
                return HostFn(lambda it2, o: it2.getattr(o, names[0]), 'attrgetter')
            return HostFn(lambda it2, o: tuple(it2.getattr(o, n) for n in names), 'attrgetter')

        def defaultdict(it, factory=None, *a):
            return _collections.defaultdict(it.as_host_callable(factory) if factory is not None else None, *a)
        table = {
            'copy': {'copy': HostFn(lambda it, o: it.shallow_copy(o), 'copy.copy')},
            'functools': {'partial': HostFn(partial, 'partial'), 'reduce': HostFn(reduce, 'reduce')},
            'itertools': {'chain': HostFn(lambda it, *xs: _itertools.chain(*[it.iterate(x) for x in xs]), 'chain'),
                          'product': HostFn(lambda it, *xs, **k: _itertools.product(*[it.iterate(x) for x in xs], **k), 'product'),
                          'count': HostFn(lambda it, *a: _itertools.count(*a), 'count')},
            'collections': {'defaultdict': HostFn(defaultdict, 'defaultdict'), 'OrderedDict': HostFn(lambda it, *a, **k: dict(*a, **k), 'OrderedDict')},
            'operator': dict({n: HostFn((lambda fn: lambda it, *a: fn(*a))(getattr(_operator, n)), n) for n in ('or_', 'and_', 'add', 'sub', 'mul', 'not_', 'inv', 'neg', 'pos', 'eq', 'ne', 'lt', 'le',
                                                                                                    'gt', 'ge', 'xor', 'lshift', 'rshift', 'floordiv', 'mod', 'truediv', 'matmul',
                                                                                                    'itemgetter', 'index')},
                             attrgetter=HostFn(attrgetter, 'attrgetter')),
            'cython': {}, 'enum': {}, 'sys': {}, 'os': {}, 're': {},
        }
        if r[0] == 'extmodule':
            top = r[1].split('.')[0]
            if top in table:
                return StubModule(top, table[top])
            return _MISSING
        if r[0] == 'extsymbol':
            top = (r[1] or '').split('.')[0]
            if top in table and r[2] in table[top]:
                return table[top][r[2]]
        return _MISSING

    def shallow_copy(self, o):
        if isinstance(o, Obj):
            return Obj(o.cls, dict(o.attrs))
        import copy as _copy
        return _copy.copy(o)

    def module_env(self, m):
        e = self.module_envs.get(m.name)
        if e is None:
            e = self.module_envs[m.name] = Env()
            e.globals_ = m
        return e

    # ------------------------------------------------------------------------------------------------ builtins
    def _builtins(self):
        it = self

        def _isinstance(_, v, c):
            return it.isinstance(v, c)

        def _issubclass(_, a, b):
            bs = b if isinstance(b, tuple) else (b,)
            if isinstance(a, (ClassVal, StubClass)):
                return any(k is x for x in bs for k in it.mro(a))
            return issubclass(a, tuple(x for x in bs if isinstance(x, type)))

        def _getattr(_, o, name, default=_MISSING):
            try:
                return it.getattr(o, name)
            except PyRaise as e:
                if default is not _MISSING and isinstance(e.value, AttributeError):
                    return default
                raise

        def _hasattr(_, o, name):
            try:
                it.getattr(o, name)
                return True
            except PyRaise as e:
                if isinstance(e.value, AttributeError):
                    return False
                raise

        def _setattr(_, o, name, v):
            it.setattr(o, name, v)

        def _type(_, o):
            if isinstance(o, Obj):
                return o.cls
            return type(o)

        def _sorted(_, xs, key=None, reverse=False):
            return sorted(it.iterate(xs), key=(it.as_host_callable(key) if key is not None else None), reverse=reverse)

        def _map(_, f, *xs):
            g = it.as_host_callable(f)
            return map(g, *[it.iterate(x) for x in xs])

        def _filter(_, f, xs):
            g = it.as_host_callable(f) if f is not None else None
            return filter(g, it.iterate(xs))

        def _any(_, xs):
            return any(it.truth(x) for x in it.iterate(xs))

        def _all(_, xs):
            return all(it.truth(x) for x in it.iterate(xs))

        def _len(_, x):
            return it.length(x)

        def _list(_, xs=()):
            return list(it.iterate(xs))

        def _tuple(_, xs=()):
            return tuple(it.iterate(xs))

        def _set(_, xs=()):
            return set(it.iterate(xs))

        def _frozenset(_, xs=()):
            return frozenset(it.iterate(xs))

        def _dict(_, *a, **k):
            d = {}
            if a:
                src = a[0]
                d.update(src if isinstance(src, dict) else dict(it.iterate(src)))
            d.update(k)
            return d

        def _sum(_, xs, start=0):
            return sum(it.iterate(xs), start)

        def _min(_, *a, **k):
            if 'key' in k:
                k['key'] = it.as_host_callable(k['key'])
            return min(*[it.iterate(x) if len(a) == 1 else x for x in a], **k)

        def _max(_, *a, **k):
            if 'key' in k:
                k['key'] = it.as_host_callable(k['key'])
            return max(*[it.iterate(x) if len(a) == 1 else x for x in a], **k)

        def _enumerate(_, xs, start=0):
            return enumerate(it.iterate(xs), start)

        def _zip(_, *xs):
            return zip(*[it.iterate(x) for x in xs])

        def _reversed(_, xs):
            if isinstance(xs, Obj) and '$list' in xs.attrs:
                return reversed(xs.attrs['$list'])
            return reversed(xs)

        def _iter(_, xs):
            return iter(it.iterate(xs))

        def _next(_, i, default=_MISSING):
            try:
                return next(i)
            except StopIteration:
                if default is _MISSING:
                    raise PyRaise(StopIteration())
                return default

        def _bool(_, x=False):
            return it.truth(x)

        def _repr(_, x):
            return repr(x)

        def _str(_, x=''):
            return it.to_str(x)

        def _print(_, *a, **k):
            return None

        def _id(_, x):
            return id(x)

        def _super(_, *a):
            raise Unmodelled('super() outside a method')

        def _hash(_, x):
            return hash(x)

        b = {'isinstance': _isinstance, 'issubclass': _issubclass, 'getattr': _getattr, 'hasattr': _hasattr, 'setattr': _setattr, 'type': _type, 'sorted': _sorted, 'map': _map,
             'filter': _filter, 'any': _any, 'all': _all, 'len': _len, 'list': _list, 'tuple': _tuple, 'set': _set, 'frozenset': _frozenset, 'dict': _dict, 'sum': _sum, 'min': _min,
             'max': _max, 'enumerate': _enumerate, 'zip': _zip, 'reversed': _reversed, 'iter': _iter, 'next': _next, 'bool': _bool, 'repr': _repr, 'str': _str, 'print': _print, 'id': _id,
             'hash': _hash}
        out = {k: HostFn(v, k) for k, v in b.items()}
        out.update({'int': int, 'float': float, 'bytes': bytes, 'object': object, 'range': range, 'abs': HostFn(lambda _, x: abs(x), 'abs'), 'ord': HostFn(lambda _, x: ord(x), 'ord'),
                    'chr': HostFn(lambda _, x: chr(x), 'chr'), 'divmod': HostFn(lambda _, a, b: divmod(a, b), 'divmod'), 'True': True, 'False': False, 'None': None,
                    'NotImplemented': NotImplemented, 'Ellipsis': Ellipsis, 'slice': slice, 'callable': HostFn(lambda _, x: isinstance(x, (Func, BoundMethod, HostFn, ClassVal, StubClass)), 'callable')})
        # host classes that isinstance()/type() comparisons refer to keep their identity
        self.type_aliases = {'list': list, 'tuple': tuple, 'dict': dict, 'set': set, 'frozenset': frozenset, 'str': str, 'bool': bool}
        out.update(_HOST_EXC)
        return out

    # ------------------------------------------------------------------------------------------------ protocol helpers
    def tick(self):
        self.steps += 1
        if self.steps > self.max_steps:
            raise Unmodelled('step budget exceeded (%d interpreted nodes): non-terminating or too large' % self.max_steps)

    def isinstance(self, v, c):
        if isinstance(c, tuple):
            return any(self.isinstance(v, x) for x in c)
        if isinstance(c, HostFn) and c.name in self.type_aliases:
            c = self.type_aliases[c.name]
        if isinstance(c, (ClassVal, StubClass)):
            if not isinstance(v, Obj):
                return False
            if v.cls is c:
                return True
            if c.name not in self.mro_names(v.cls):
                return False
            return any(k is c for k in self.mro(v.cls))
        if isinstance(c, type):
            if isinstance(v, Obj):
                if c is object:
                    return True
                if c is list and '$list' in v.attrs:
                    return True
                return False
            if isinstance(v, (ClassVal, StubClass, Func, BoundMethod, HostFn, ModuleVal)):
                return c is object
            return isinstance(v, c)
        raise Unmodelled('isinstance() against %r' % (c,))

    def truth(self, v):
        if isinstance(v, Obj):
            if '$list' in v.attrs:
                return bool(v.attrs['$list'])
            for name in ('__bool__', '__len__'):
                m = self.find_in_class(v.cls, name)
                if m is not None:
                    return bool(self.call(self.bind(m, v), [], {}))
            return True
        if isinstance(v, (ClassVal, StubClass, Func, BoundMethod, HostFn, ModuleVal, StubModule)):
            return True
        if isinstance(v, _HOST_TYPES) or isinstance(v, type):
            return bool(v)
        if v is NotImplemented:
            return True
        raise Unmodelled('truth value of %r' % (v,))

    def iterate(self, v):
        if isinstance(v, Obj):
            if '$list' in v.attrs:
                return v.attrs['$list']
            m = self.find_in_class(v.cls, '__iter__')
            if m is not None:
                return self.iterate(self.call(self.bind(m, v), [], {}))
            raise Unmodelled('iteration over %r' % (v,))
        if isinstance(v, _HOST_TYPES):
            return v
        raise Unmodelled('iteration over %r' % (v,))

    def length(self, v):
        if isinstance(v, Obj):
            if '$list' in v.attrs:
                return len(v.attrs['$list'])
            m = self.find_in_class(v.cls, '__len__')
            if m is not None:
                return self.call(self.bind(m, v), [], {})
            raise Unmodelled('len() of %r' % (v,))
        return len(v)

    def to_str(self, v):
        if isinstance(v, Obj):
            m = self.find_in_class(v.cls, '__str__')
            if m is not None:
                return self.call(self.bind(m, v), [], {})
            return '<%s>' % v.cls.name
        if isinstance(v, (ClassVal, StubClass)):
            return "<class '%s'>" % v.name
        return str(v)

    def as_host_callable(self, f):
        if f is None:
            return None
        return lambda *a, **k: self.call(f, list(a), k)

    # ---- attribute lookup
    def find_in_class(self, c, name):
        """-> ('func', Func) | ('value', v) | ('host', callable) looked up along the MRO, or None"""
        key = (id(c), name)
        if key in self._fc:
            return self._fc[key]
        r = self._fc[key] = self._find_in_class(c, name)
        return r

    def _find_in_class(self, c, name):
        names = self.mro_names(c)
        for (fam, meth), fn in self.family_overrides.items():
            if meth == name and fam in names:
                return ('host', fn)
        for k in self.mro(c):
            if isinstance(k, StubClass):
                if name in k.methods:
                    return ('host', k.methods[name])
                if name in k.attrs:
                    return ('value', k.attrs[name])
                continue
            ci = k.ci
            fn = ci.methods.get(name)
            if fn is not None:
                kind = 'function'
                for d in fn.decorator_list:
                    dn = d.id if isinstance(d, _ast.Name) else d.attr if isinstance(d, _ast.Attribute) else None
                    if dn in ('classmethod', 'staticmethod', 'property'):
                        kind = dn
                return ('func', Func(fn, None, ci.module, owner=k, kind=kind))
            if name in ci.attrs:
                ck = ('attr', name)
                if ck not in k.cache:
                    node = ci.attrs[name]
                    if node is True:
                        continue
                    if isinstance(node, _ast.ClassDef):
                        val = None
                        for cc in self.ix.classes_by_name[node.name]:
                            if cc.node is node:
                                val = self.classval(cc)
                        k.cache[ck] = val
                    else:
                        env = Env(self.module_env(ci.module))
                        # earlier class-level names are visible in class-level expressions
                        env.vars = _ClassNS(self, k)
                        k.cache[ck] = self.eval(node, env)
                return ('value', k.cache[ck])
        return None

    def bind(self, found, obj):
        kind, v = found
        if kind == 'value':
            if isinstance(v, Func) and v.kind == 'function' and v.owner is None and not isinstance(v.node, _ast.Lambda):
                return BoundMethod(v, obj)
            return v
        if kind == 'host':
            return HostFn(lambda it, *a, **k: v(it, obj, *a, **k), getattr(v, '__name__', 'stub'))
        f = v
        if f.kind == 'staticmethod':
            return f
        if f.kind == 'classmethod':
            return BoundMethod(f, obj.cls if isinstance(obj, Obj) else obj)
        if f.kind == 'property':
            return self.call(BoundMethod(f, obj), [], {})
        return BoundMethod(f, obj)

    def getattr(self, o, name):
        if isinstance(o, Obj):
            a = o.attrs
            if name in a:
                return a[name]
            if name == '__dict__':
                return a
            if name == '__class__':
                return o.cls
            found = self.find_in_class(o.cls, name)
            if found is None:
                if '$list' in a and hasattr(a['$list'], name):
                    return getattr(a['$list'], name)
                if isinstance(o.cls, StubClass) and o.cls.default is not None:
                    try:
                        return o.cls.default(o, name)
                    except AttributeError:
                        pass
                raise PyRaise(AttributeError('%s object has no attribute %r' % (o.cls.name, name)))
            return self.bind(found, o)
        if isinstance(o, SuperProxy):
            return self.super_getattr(o, name)
        if isinstance(o, (ClassVal, StubClass)):
            if name == '__name__':
                return o.name
            if name == '__mro__':
                return tuple(self.mro(o))
            found = self.find_in_class(o, name)
            if found is None:
                raise PyRaise(AttributeError('class %s has no attribute %r' % (o.name, name)))
            kind, v = found
            if kind == 'func':
                if v.kind == 'classmethod':
                    return BoundMethod(v, o)
                return v
            if kind == 'host':
                return HostFn(lambda it, self_, *a, **k: v(it, self_, *a, **k), name)
            return v
        if isinstance(o, ModuleVal):
            v = self.module_global(o.module, name)
            if v is _MISSING:
                raise Unmodelled('module attribute %s.%s' % (o.module.short, name))
            return v
        if isinstance(o, StubModule):
            if name in o.names:
                return o.names[name]
            raise Unmodelled('module attribute %s.%s' % (o.name, name))
        if isinstance(o, Func):
            if name == '__name__':
                return o.name
            raise Unmodelled('attribute %s of a function' % name)
        if isinstance(o, BoundMethod) and name == '__self__':
            return o.self
        if isinstance(o, _HOST_TYPES) or isinstance(o, BaseException):
            if name.startswith('__') and name not in ('__class__', '__len__', '__name__'):
                raise Unmodelled('dunder attribute %s of a builtin value' % name)
            try:
                return getattr(o, name)
            except AttributeError as e:
                raise PyRaise(e)
        if isinstance(o, type):
            try:
                return getattr(o, name)
            except AttributeError as e:
                raise PyRaise(e)
        raise Unmodelled('attribute %r of %r' % (name, o))

    def super_getattr(self, sp, name):
        obj = sp.obj
        cls = obj.cls if isinstance(obj, Obj) else obj
        mro = self.mro(cls)
        idx = next(i for i, k in enumerate(mro) if k is sp.after)
        for k in mro[idx + 1:]:
            if isinstance(k, StubClass):
                if name in k.methods:
                    fn = k.methods[name]
                    return HostFn(lambda it, *a, **kw: fn(it, obj, *a, **kw), name)
                continue
            fn = k.ci.methods.get(name)
            if fn is not None:
                return BoundMethod(Func(fn, None, k.ci.module, owner=k), obj)
        # builtin bases
        names = self.mro_names(cls)
        if name == '__init__':
            if 'list' in names:
                def init_list(it, xs=()):
                    obj.attrs['$list'] = list(it.iterate(xs))
                return HostFn(init_list, 'list.__init__')
            return HostFn(lambda it, *a, **k: None, 'object.__init__')
        raise Unmodelled('super().%s beyond the analysed classes' % name)

    def setattr(self, o, name, v):
        if isinstance(o, Obj):
            o.attrs[name] = v
            return
        if isinstance(o, (ClassVal,)):
            o.cache[('attr', name)] = v
            o.ci.attrs.setdefault(name, True)
            raise Unmodelled('assignment to a class attribute %s.%s' % (o.name, name))
        raise Unmodelled('attribute assignment on %r' % (o,))

    # ------------------------------------------------------------------------------------------------ calls
    def instantiate(self, c, args, kwargs):
        obj = Obj(c)
        if 'list' in self.mro_names(c):
            obj.attrs['$list'] = []
        init = self.find_in_class(c, '__init__')
        if init is not None:
            self.call(self.bind(init, obj), args, kwargs)
        elif args or kwargs:
            raise PyRaise(TypeError('%s() takes no arguments' % c.name))
        return obj

    def call(self, f, args, kwargs):
        self.tick()
        if isinstance(f, HostFn):
            return f.fn(self, *args, **kwargs)
        if isinstance(f, BoundMethod):
            return self.call_func(f.func, [f.self] + list(args), kwargs)
        if isinstance(f, Func):
            return self.call_func(f, list(args), kwargs)
        if isinstance(f, (ClassVal, StubClass)):
            return self.instantiate(f, args, kwargs)
        if isinstance(f, Obj):
            m = self.find_in_class(f.cls, '__call__')
            if m is not None:
                return self.call(self.bind(m, f), args, kwargs)
            raise Unmodelled('call of %r' % (f,))
        if isinstance(f, type):
            if issubclass(f, BaseException):
                return f(*args)
            if f in (int, float, bytes, str, bool, range, slice, object):
                return f(*args, **kwargs)
            if f in (list, tuple, set, frozenset, dict):
                return self.builtins[f.__name__].fn(self, *args, **kwargs)
            raise Unmodelled('call of host type %r' % (f,))
        if callable(f) and (type(f).__name__ in ('builtin_function_or_method', 'method_descriptor', 'method-wrapper', 'wrapper_descriptor')):
            # bound methods of host containers/strings (list.append, dict.get, str.join ...)
            nm = getattr(f, '__name__', '')
            if nm == 'sort' and 'key' in kwargs:
                kwargs = dict(kwargs, key=self.as_host_callable(kwargs['key']))
            if nm in ('join', 'extend', 'update', 'union', 'intersection', 'difference', 'difference_update', 'intersection_update', 'issubset', 'issuperset', 'symmetric_difference') and args:
                args = [self.iterate(a) if not isinstance(a, (dict,)) else a for a in args]
            try:
                return f(*args, **kwargs)
            except (KeyError, IndexError, ValueError, TypeError, AttributeError, StopIteration) as e:
                raise PyRaise(e)
        raise Unmodelled('call of %r' % (f,))

    def call_func(self, f, args, kwargs):
        node = f.node
        self.call_depth += 1
        self.fstack.append(f.name)
        if self.call_depth > 150:
            self.call_depth -= 1
            self.fstack.pop()
            raise Unmodelled('recursion too deep')
        try:
            def_env = f.env if f.env is not None else self.module_env(f.module)
            env = Env(def_env)
            sig = self._sigs.get(id(node))
            if sig is None:
                a = node.args
                sig = self._sigs[id(node)] = ([p.arg for p in a.posonlyargs + a.args], a.defaults, a.vararg.arg if a.vararg else None,
                                              [(p.arg, d) for p, d in zip(a.kwonlyargs, a.kw_defaults)], a.kwarg.arg if a.kwarg else None)
            params, defaults, vararg, kwonly, kwarg = sig
            vars_ = env.vars
            nargs, nparams = len(args), len(params)
            if nargs > nparams:
                if vararg is None:
                    raise PyRaise(TypeError('%s() takes %d positional arguments but %d were given' % (f.name, nparams, nargs)))
                vars_[vararg] = tuple(args[nparams:])
                args = args[:nparams]
                nargs = nparams
            elif vararg is not None:
                vars_[vararg] = ()
            for i in range(nargs):
                vars_[params[i]] = args[i]
            if nargs == nparams and not kwargs and not kwonly and kwarg is None:
                pass                                    # the common case: all parameters given positionally
            else:
                kw = dict(kwargs)
                nd = len(defaults)
                for i in range(nargs, nparams):
                    p = params[i]
                    if p in kw:
                        vars_[p] = kw.pop(p)
                    else:
                        di = i - (nparams - nd)
                        if di < 0:
                            raise PyRaise(TypeError('%s() missing required argument %r' % (f.name, p)))
                        vars_[p] = self.eval(defaults[di], def_env)
                if kw:
                    for p in params[:nargs]:
                        if p in kw:
                            raise PyRaise(TypeError('%s() got multiple values for argument %r' % (f.name, p)))
                for p, d in kwonly:
                    if p in kw:
                        vars_[p] = kw.pop(p)
                    elif d is not None:
                        vars_[p] = self.eval(d, def_env)
                    else:
                        raise PyRaise(TypeError('%s() missing keyword-only argument %r' % (f.name, p)))
                if kwarg is not None:
                    vars_[kwarg] = kw
                elif kw:
                    raise PyRaise(TypeError('%s() got an unexpected keyword argument %r' % (f.name, sorted(kw)[0])))
            if f.owner is not None:
                vars_['$owner'] = f.owner
                if params:
                    vars_['$self'] = vars_[params[0]]
            if isinstance(node, _ast.Lambda):
                return self.eval(node.body, env)
            r = self.exec_block(node.body, env)
            if r is None:
                return None
            if r.__class__ is _Return:
                return r.value
            raise Unmodelled('break / continue outside a loop')
        except (Unmodelled, PyRaise) as e:
            if not getattr(e, 'where', None):
                e.where = ' > '.join(self.fstack[-4:])
            raise
        finally:
            self.call_depth -= 1
            self.fstack.pop()

    # ------------------------------------------------------------------------------------------------ statements
    def exec_block(self, stmts, env):
        """-> None when the block falls through, else the pending jump: _BREAK, _CONTINUE or a _Return instance"""
        for s in stmts:
            r = self.exec(s, env)
            if r is not None:
                return r
        return None

    def exec(self, s, env):
        self.steps += 1
        m = self._xd.get(type(s))
        if m is None:
            m = getattr(self, 'x_' + type(s).__name__, None)
            if m is None:
                raise Unmodelled('statement %s (line %s)' % (type(s).__name__, getattr(s, 'lineno', '?')))
            self._xd[type(s)] = m
        return m(s, env)

    def x_Expr(self, s, env):
        self.eval(s.value, env)

    def x_Pass(self, s, env):
        pass

    def x_Return(self, s, env):
        return _Return(self.eval(s.value, env) if s.value is not None else None)

    def x_Break(self, s, env):
        return _BREAK

    def x_Continue(self, s, env):
        return _CONTINUE

    def x_Global(self, s, env):
        raise Unmodelled('global statement')

    def x_Nonlocal(self, s, env):
        if env.nonlocals is None:
            env.nonlocals = set()
        env.nonlocals.update(s.names)

    def x_Assert(self, s, env):
        if not self.truth(self.eval(s.test, env)):
            raise PyRaise(AssertionError(self.to_str(self.eval(s.msg, env)) if s.msg is not None else ''))

    def x_Import(self, s, env):
        for a in s.names:
            if a.name in self.ix.modules:
                v = self.modval(self.ix.modules[a.name])
            else:
                v = self.external(('extmodule', a.name))
                if v is _MISSING:
                    raise Unmodelled('import %s' % a.name)
            self.store_name(a.asname or a.name.split('.')[0], v, env)

    def x_ImportFrom(self, s, env):
        m = self._module_of(env)
        table = {}
        # resolve relative to the module the function is defined in
        pkg = m.name.rsplit('.', 1)[0] if '.' in m.name else ''
        base = s.module or ''
        if s.level:
            parts = pkg.split('.') if pkg else []
            if s.level > 1:
                parts = parts[:len(parts) - (s.level - 1)]
            rb = '.'.join(parts)
            base = (rb + '.' + base) if base and rb else (rb or base)
        for a in s.names:
            local = a.asname or a.name
            full = (base + '.' + a.name) if base else a.name
            if full in self.ix.modules:
                self.store_name(local, self.modval(self.ix.modules[full]), env)
            elif base in self.ix.modules:
                v = self.module_global(self.ix.modules[base], a.name)
                if v is _MISSING:
                    raise Unmodelled('from %s import %s' % (base, a.name))
                self.store_name(local, v, env)
            else:
                v = self.external(('extsymbol', base, a.name))
                if v is _MISSING:
                    raise Unmodelled('from %s import %s' % (base, a.name))
                self.store_name(local, v, env)

    def _module_of(self, env):
        e = env
        while e is not None:
            if e.globals_ is not None:
                return e.globals_
            e = e.parent
        raise Unmodelled('no module for this scope')

    def x_FunctionDef(self, s, env):
        self.store_name(s.name, Func(s, env, self._module_of(env)), env)

    def x_If(self, s, env):
        if self.truth(self.eval(s.test, env)):
            return self.exec_block(s.body, env)
        return self.exec_block(s.orelse, env)

    def x_While(self, s, env):
        while self.truth(self.eval(s.test, env)):
            self.tick()
            r = self.exec_block(s.body, env)
            if r is _BREAK:
                return None
            if r is not None and r is not _CONTINUE:
                return r
        return self.exec_block(s.orelse, env)

    def x_For(self, s, env):
        for v in self.iterate(self.eval(s.iter, env)):
            self.tick()
            self.assign(s.target, v, env)
            r = self.exec_block(s.body, env)
            if r is _BREAK:
                return None
            if r is not None and r is not _CONTINUE:
                return r
        return self.exec_block(s.orelse, env)

    def x_Try(self, s, env):
        pending = None
        try:
            try:
                pending = self.exec_block(s.body, env)
            except PyRaise as e:
                for h in s.handlers:
                    if h.type is None or self.exc_matches(e.value, self.eval(h.type, env)):
                        if h.name:
                            self.store_name(h.name, e.value, env)
                        pending = self.exec_block(h.body, env)
                        break
                else:
                    raise
            else:
                if pending is None:
                    pending = self.exec_block(s.orelse, env)
        finally:
            r = self.exec_block(s.finalbody, env)
            if r is not None:
                return r            # a jump in the finally clause replaces the pending one (and swallows a pending exception)
        return pending

    def exc_matches(self, val, c):
        if isinstance(c, tuple):
            return any(self.exc_matches(val, x) for x in c)
        if isinstance(c, type):
            return isinstance(val, c)
        if isinstance(c, (ClassVal, StubClass)):
            return isinstance(val, Obj) and self.isinstance(val, c)
        raise Unmodelled('except clause type %r' % (c,))

    def x_Raise(self, s, env):
        if s.exc is None:
            raise Unmodelled('bare raise')
        v = self.eval(s.exc, env)
        if isinstance(v, (ClassVal, StubClass)) or (isinstance(v, type) and issubclass(v, BaseException)):
            v = self.call(v, [], {})
        raise PyRaise(v)

    def x_With(self, s, env):
        raise Unmodelled('with statement')

    def x_Delete(self, s, env):
        for t in s.targets:
            if isinstance(t, _ast.Subscript):
                o = self.eval(t.value, env)
                k = self.eval_index(t.slice, env)
                if isinstance(o, Obj) and '$list' in o.attrs:
                    o = o.attrs['$list']
                try:
                    del o[k]
                except (KeyError, IndexError) as e:
                    raise PyRaise(e)
            elif isinstance(t, _ast.Name):
                d = env.lookup(t.id)
                if d is None:
                    raise PyRaise(NameError(t.id))
                del d[t.id]
            elif isinstance(t, _ast.Attribute):
                o = self.eval(t.value, env)
                if isinstance(o, Obj) and t.attr in o.attrs:
                    del o.attrs[t.attr]
                else:
                    raise PyRaise(AttributeError(t.attr))
            else:
                raise Unmodelled('del target')

    def x_Assign(self, s, env):
        v = self.eval(s.value, env)
        for t in s.targets:
            self.assign(t, v, env)

    def x_AnnAssign(self, s, env):
        if s.value is not None:
            self.assign(s.target, self.eval(s.value, env), env)

    def x_AugAssign(self, s, env):
        t = s.target
        if isinstance(t, _ast.Name):
            cur = self.load_name(t.id, env)
            self.store_name(t.id, self.binop(s.op, cur, self.eval(s.value, env), inplace=True), env)
        elif isinstance(t, _ast.Attribute):
            o = self.eval(t.value, env)
            cur = self.getattr(o, t.attr)
            self.setattr(o, t.attr, self.binop(s.op, cur, self.eval(s.value, env), inplace=True))
        elif isinstance(t, _ast.Subscript):
            o = self.eval(t.value, env)
            k = self.eval_index(t.slice, env)
            cur = self.getitem(o, k)
            self.setitem(o, k, self.binop(s.op, cur, self.eval(s.value, env), inplace=True))
        else:
            raise Unmodelled('augmented assignment target')

    def store_name(self, name, v, env):
        if env.nonlocals and name in env.nonlocals:
            d = env.parent.lookup(name) if env.parent is not None else None
            if d is None:
                raise Unmodelled('nonlocal %s not found' % name)
            d[name] = v
            return
        if env.globals_ is not None and env.parent is None:
            raise Unmodelled('assignment to the module-level name %s' % name)
        env.vars[name] = v

    def load_name(self, name, env):
        d = env.lookup(name)
        if d is not None:
            return d[name]
        m = self._module_of(env)
        v = self.module_global(m, name)
        if v is not _MISSING:
            return v
        if name in self.builtins:
            return self.builtins[name]
        raise PyRaise(NameError("name %r is not defined (module %s)" % (name, m.short)))

    def assign(self, t, v, env):
        if isinstance(t, _ast.Name):
            self.store_name(t.id, v, env)
        elif isinstance(t, _ast.Attribute):
            self.setattr(self.eval(t.value, env), t.attr, v)
        elif isinstance(t, _ast.Subscript):
            self.setitem(self.eval(t.value, env), self.eval_index(t.slice, env), v)
        elif isinstance(t, (_ast.Tuple, _ast.List)):
            vals = list(self.iterate(v))
            star = [i for i, e in enumerate(t.elts) if isinstance(e, _ast.Starred)]
            if star:
                i = star[0]
                after = len(t.elts) - i - 1
                if len(vals) < len(t.elts) - 1:
                    raise PyRaise(ValueError('not enough values to unpack'))
                for e, x in zip(t.elts[:i], vals[:i]):
                    self.assign(e, x, env)
                self.assign(t.elts[i].value, vals[i:len(vals) - after], env)
                for e, x in zip(t.elts[i + 1:], vals[len(vals) - after:]):
                    self.assign(e, x, env)
            else:
                if len(vals) != len(t.elts):
                    raise PyRaise(ValueError('unpack: expected %d values, got %d' % (len(t.elts), len(vals))))
                for e, x in zip(t.elts, vals):
                    self.assign(e, x, env)
        else:
            raise Unmodelled('assignment target %s' % type(t).__name__)

    def getitem(self, o, k):
        if isinstance(o, Obj):
            if '$list' in o.attrs:
                o = o.attrs['$list']
            else:
                m = self.find_in_class(o.cls, '__getitem__')
                if m is None:
                    raise Unmodelled('subscript of %r' % (o,))
                return self.call(self.bind(m, o), [k], {})
        try:
            return o[k]
        except (KeyError, IndexError, TypeError) as e:
            raise PyRaise(e)

    def setitem(self, o, k, v):
        if isinstance(o, Obj):
            if '$list' in o.attrs:
                o = o.attrs['$list']
            else:
                raise Unmodelled('item assignment on %r' % (o,))
        try:
            o[k] = v
        except (KeyError, IndexError, TypeError) as e:
            raise PyRaise(e)

    def eval_index(self, sl, env):
        if isinstance(sl, _ast.Slice):
            return slice(self.eval(sl.lower, env) if sl.lower is not None else None, self.eval(sl.upper, env) if sl.upper is not None else None,
                         self.eval(sl.step, env) if sl.step is not None else None)
        return self.eval(sl, env)

    # ------------------------------------------------------------------------------------------------ expressions
    def eval(self, e, env):
        self.steps += 1
        m = self._ed.get(type(e))
        if m is None:
            m = getattr(self, 'e_' + type(e).__name__, None)
            if m is None:
                raise Unmodelled('expression %s (line %s)' % (type(e).__name__, getattr(e, 'lineno', '?')))
            self._ed[type(e)] = m
        return m(e, env)

    def e_Constant(self, e, env):
        return e.value

    def e_Name(self, e, env):
        name = e.id
        en = env
        while en is not None:
            v = en.vars
            if name in v:
                return v[name]
            en = en.parent
        return self.load_name(name, env)

    def e_Attribute(self, e, env):
        return self.getattr(self.eval(e.value, env), e.attr)

    def e_Subscript(self, e, env):
        return self.getitem(self.eval(e.value, env), self.eval_index(e.slice, env))

    def e_Tuple(self, e, env):
        return tuple(self.eval_seq(e.elts, env))

    def e_List(self, e, env):
        return self.eval_seq(e.elts, env)

    def e_Set(self, e, env):
        return set(self.eval_seq(e.elts, env))

    def eval_seq(self, elts, env):
        out = []
        for x in elts:
            if isinstance(x, _ast.Starred):
                out.extend(self.iterate(self.eval(x.value, env)))
            else:
                out.append(self.eval(x, env))
        return out

    def e_Dict(self, e, env):
        d = {}
        for k, v in zip(e.keys, e.values):
            if k is None:
                d.update(self.eval(v, env))
            else:
                d[self.eval(k, env)] = self.eval(v, env)
        return d

    def e_JoinedStr(self, e, env):
        out = []
        for v in e.values:
            if isinstance(v, _ast.Constant):
                out.append(v.value)
            else:
                x = self.eval(v.value, env)
                if v.conversion == 114:
                    x = repr(x)
                else:
                    x = self.to_str(x) if not isinstance(x, (int, float, str)) or v.format_spec is None else x
                if v.format_spec is not None:
                    x = format(x, self.e_JoinedStr(v.format_spec, env))
                out.append(x if isinstance(x, str) else self.to_str(x))
        return ''.join(out)

    def e_UnaryOp(self, e, env):
        v = self.eval(e.operand, env)
        if isinstance(e.op, _ast.Not):
            return not self.truth(v)
        if isinstance(e.op, _ast.USub):
            return -v
        if isinstance(e.op, _ast.UAdd):
            return +v
        if isinstance(e.op, _ast.Invert):
            return ~v
        raise Unmodelled('unary operator')

    def e_BoolOp(self, e, env):
        is_and = isinstance(e.op, _ast.And)
        v = None
        for x in e.values:
            v = self.eval(x, env)
            t = self.truth(v)
            if is_and and not t:
                return v
            if not is_and and t:
                return v
        return v

    def e_IfExp(self, e, env):
        return self.eval(e.body, env) if self.truth(self.eval(e.test, env)) else self.eval(e.orelse, env)

    def e_NamedExpr(self, e, env):
        v = self.eval(e.value, env)
        self.assign(e.target, v, env)
        return v

    def e_Lambda(self, e, env):
        return Func(e, env, self._module_of(env))

    def binop(self, op, a, b, inplace=False):
        fn = _BINOPS.get(type(op))
        if fn is None:
            raise Unmodelled('binary operator %s' % type(op).__name__)
        if isinstance(op, _ast.Mod) and isinstance(a, str):
            return self.percent_format(a, b)
        for x in (a, b):
            if isinstance(x, Obj):
                if '$list' in x.attrs:
                    continue
                raise Unmodelled('arithmetic on %r' % (x,))
            if not isinstance(x, _HOST_TYPES):
                raise Unmodelled('arithmetic on %r' % (x,))
        if inplace and isinstance(a, (list, set, dict)):
            if isinstance(op, _ast.Add):
                a += b
                return a
            if isinstance(op, _ast.BitOr):
                a |= b
                return a
            if isinstance(op, _ast.Sub):
                a -= b
                return a
            if isinstance(op, _ast.BitAnd):
                a &= b
                return a
        try:
            return fn(a, b)
        except (TypeError, ZeroDivisionError, ValueError) as e:
            raise PyRaise(e)

    def percent_format(self, fmt, args):
        if isinstance(args, tuple):
            args = tuple(a if isinstance(a, (int, float, str)) else self.to_str(a) for a in args)
        elif isinstance(args, dict):
            args = {k: (a if isinstance(a, (int, float, str)) else self.to_str(a)) for k, a in args.items()}
        elif not isinstance(args, (int, float, str)):
            args = self.to_str(args)
        try:
            return fmt % args
        except (TypeError, ValueError) as e:
            raise PyRaise(e)

    def e_BinOp(self, e, env):
        return self.binop(e.op, self.eval(e.left, env), self.eval(e.right, env))

    def compare(self, op, a, b):
        if isinstance(op, _ast.Is):
            return a is b
        if isinstance(op, _ast.IsNot):
            return a is not b
        if isinstance(op, (_ast.In, _ast.NotIn)):
            r = self.contains(b, a)
            return r if isinstance(op, _ast.In) else not r
        if isinstance(op, (_ast.Eq, _ast.NotEq)):
            r = self.equals(a, b)
            return r if isinstance(op, _ast.Eq) else not r
        for x in (a, b):
            if isinstance(x, (Obj, ClassVal, StubClass, Func)):
                raise Unmodelled('ordering comparison on %r' % (x,))
        try:
            if isinstance(op, _ast.Lt):
                return a < b
            if isinstance(op, _ast.LtE):
                return a <= b
            if isinstance(op, _ast.Gt):
                return a > b
            if isinstance(op, _ast.GtE):
                return a >= b
        except TypeError as e:
            raise PyRaise(e)
        raise Unmodelled('comparison operator')

    def equals(self, a, b):
        if isinstance(a, Obj) or isinstance(b, Obj):
            for x, y in ((a, b), (b, a)):
                if isinstance(x, Obj):
                    m = self.find_in_class(x.cls, '__eq__')
                    if m is not None:
                        r = self.call(self.bind(m, x), [y], {})
                        if r is not NotImplemented:
                            return self.truth(r)
            return a is b
        return a == b

    def contains(self, container, item):
        if isinstance(container, Obj):
            if '$list' in container.attrs:
                container = container.attrs['$list']
            else:
                m = self.find_in_class(container.cls, '__contains__')
                if m is not None:
                    return self.truth(self.call(self.bind(m, container), [item], {}))
                return any(self.equals(x, item) for x in self.iterate(container))
        if isinstance(container, (list, tuple)) and isinstance(item, Obj):
            return any(self.equals(x, item) for x in container)
        try:
            return item in container
        except TypeError as e:
            raise PyRaise(e)

    def e_Compare(self, e, env):
        left = self.eval(e.left, env)
        for op, r in zip(e.ops, e.comparators):
            right = self.eval(r, env)
            if not self.compare(op, left, right):
                return False
            left = right
        return True

    def e_Call(self, e, env):
        if isinstance(e.func, _ast.Name) and e.func.id == 'super' and env.lookup('super') is None:
            d = env.lookup('$owner')
            if d is None:
                raise Unmodelled('super() outside a method')
            if e.args:
                raise Unmodelled('super() with arguments')
            return SuperProxy(env.lookup('$self')['$self'], d['$owner'])
        f = self.eval(e.func, env)
        args = []
        for a in e.args:
            if isinstance(a, _ast.Starred):
                args.extend(self.iterate(self.eval(a.value, env)))
            else:
                args.append(self.eval(a, env))
        kwargs = {}
        for k in e.keywords:
            if k.arg is None:
                kwargs.update(self.eval(k.value, env))
            else:
                kwargs[k.arg] = self.eval(k.value, env)
        return self.call(f, args, kwargs)

    def _comp(self, gens, env, emit):
        def rec(i, env2):
            if i == len(gens):
                emit(env2)
                return
            g = gens[i]
            for v in self.iterate(self.eval(g.iter, env2)):
                self.tick()
                self.assign(g.target, v, env2)
                if all(self.truth(self.eval(c, env2)) for c in g.ifs):
                    rec(i + 1, env2)
        rec(0, Env(env))

    def e_ListComp(self, e, env):
        out = []
        self._comp(e.generators, env, lambda en: out.append(self.eval(e.elt, en)))
        return out

    def e_GeneratorExp(self, e, env):
        return iter(self.e_ListComp(e, env))

    def e_SetComp(self, e, env):
        return set(self.e_ListComp(e, env))

    def e_DictComp(self, e, env):
        out = {}

        def emit(en):
            k = self.eval(e.key, en)
            out[k] = self.eval(e.value, en)
        self._comp(e.generators, env, emit)
        return out

    def e_Starred(self, e, env):
        raise Unmodelled('starred expression outside a call/display')


class _ClassNS(dict):
    """name space for class-level expressions: earlier class attributes of the same class resolve first"""

    def __init__(self, it, k):
        dict.__init__(self)
        self.it, self.k = it, k

    def __contains__(self, name):
        return isinstance(self.k, ClassVal) and name in self.k.ci.attrs and self.k.ci.attrs[name] is not True and ('attr', name) in self.k.cache or \
            (isinstance(self.k, ClassVal) and name in self.k.ci.attrs and not isinstance(self.k.ci.attrs[name], bool))

    def __getitem__(self, name):
        found = self.it.find_in_class(self.k, name)
        if found is None or found[0] != 'value':
            raise KeyError(name)
        return found[1]


# ================================================================================================================ C21-CFG
# The definedness analysis of FlowControl.py, decided end to end on a finite family of abstract programs.
#
# For each member of the family (one compound statement kind, its child blocks filled with every behaviour class a handler can
# observe: falls through / jumps (break, continue, return, raise), binds / unbinds / reads the variable, may raise in between) the
# *source* of ControlFlowAnalysis.visit_FuncDefNode -> the visit_* handlers -> ControlFlow.nextblock/newblock/... -> check_definitions
# (initialize, reaching_definitions, map_one, the block walk, the cf_* hints) is interpreted by MiniPy on a tree the checker builds from
# the repository's own node classes (their child_attrs and class flags are read from the source).  The resulting cf_maybe_null /
# cf_is_null of every name node is compared with the collecting semantics of the same abstract program, computed by the checker from
# the language reference (every condition, iteration count and raising point nondeterministic):
#     the name can be unbound when control reaches the node   =>  cf_maybe_null (or cf_is_null) must be set   [else: no run-time check, NULL is read / Py_DECREF(NULL)]
#     the name can be bound when control reaches the node     =>  cf_is_null must not be set                  [else: `del x` does not unbind, old value leaked]
# Over-approximation by the analysis (a flag set although no execution needs it) is never reported.
U, A = 'U', 'A'
JUMPS = ('break', 'continue', 'return', 'raise')


def visitor_overrides():
    """TreeVisitor's dispatch machinery (dispatch table keyed by type(), access path bookkeeping, error wrapping) is replaced by its contract:
    _visit(node) calls visit_<ClassName> for the first class of the node's MRO that has a handler; visitchildren visits child_attrs in order."""
    def _visit(it, self, node):
        if node is None:
            return None
        if not isinstance(node, Obj):
            raise Unmodelled('visit of %r' % (node,))
        for k in it.mro(node.cls):
            found = it.find_in_class(self.cls, 'visit_' + k.name)
            if found is not None:
                return it.call(it.bind(found, self), [node], {})
        raise Unmodelled('no visit_ handler for %s' % node.cls.name)

    def _visitchildren(it, self, parent, attrs=None, exclude=None):
        result = {}
        for attr in (it.getattr(parent, 'child_attrs') or ()):
            if attrs is not None and attr not in attrs:
                continue
            if exclude is not None and attr in exclude:
                continue
            child = it.getattr(parent, attr)
            if child is None:
                continue
            if isinstance(child, list):
                result[attr] = [_visit(it, self, c) for c in list(child)]
            else:
                result[attr] = _visit(it, self, child)
        return result

    def visitchildren(it, self, parent, attrs=None, exclude=None):
        result = _visitchildren(it, self, parent, attrs, exclude)
        if 'VisitorTransform' in it.mro_names(self.cls):
            # a transform puts the returned nodes in place of the visited ones (lists are flattened, None is dropped)
            for attr, new in result.items():
                if isinstance(new, list):
                    flat = []
                    for x in new:
                        if isinstance(x, list):
                            flat.extend(x)
                        elif x is not None:
                            flat.append(x)
                    new = flat
                it.setattr(parent, attr, new)
        return result

    def visitchild(it, self, parent, attr, idx=0):
        child = it.getattr(parent, attr)
        if child is None:
            return None
        r = _visit(it, self, child)
        it.setattr(parent, attr, r)
        return r
    return {('TreeVisitor', '_visit'): _visit, ('TreeVisitor', 'visit'): _visit, ('TreeVisitor', 'visitchildren'): visitchildren,
            ('TreeVisitor', '_visitchildren'): _visitchildren, ('TreeVisitor', '_process_children'): visitchildren, ('TreeVisitor', 'visitchild'): visitchild}


class CfgWorld:
    """interpreter + stub symbol table entries for the scenario programs"""

    def __init__(self, ix):
        self.messages = []

        def error(it, pos, msg):
            self.messages.append(('error', msg))

        def warning(it, pos, msg, level=1):
            self.messages.append(('warning', msg))
        rep = {'error': HostFn(error, 'error'), 'warning': HostFn(warning, 'warning')}
        self.it = MiniPy(ix, stub_modules={'Errors': rep, 'FlowControl': rep}, family_overrides=visitor_overrides())
        self.TypeStub = StubClass('TypeStub', attrs=dict(is_pyobject=True, is_struct_or_union=False, is_complex=False, is_array=False, is_cython_lock_type=False, is_cpp_class=False,
                                                         is_unspecified=False, is_error=False, is_memoryviewslice=False, is_numeric=False))
        self.ScopeStub = StubClass('ScopeStub', attrs=dict(scope_predefined_names=[], is_closure_scope=False))
        self.EntryStub = StubClass('EntryStub', attrs=dict(is_anonymous=False, is_local=True, is_pyclass_attr=False, is_arg=False, from_closure=False, in_closure=False,
                                                           error_on_uninitialized=False, is_variable=True, is_cpp_optional=False, is_builtin=False))
        self.pytype = Obj(self.TypeStub)
        self.pos = ('scenario.py', 1, 0)

    def node(self, mod_, cls_, **attrs):
        attrs.setdefault('pos', self.pos)
        return Obj(self.it.cls(mod_, cls_), attrs)

    # ---- `except E as x`: the clause as the parser delivers it -> the tree the flow analysis sees
    def post_parse(self):
        it = self.it
        pp = Obj(it.cls('ParseTreeTransforms', 'PostParse'))
        pp.attrs.update(dict(scope_type=None, scope_node=None, specialattribute_handlers={}, context=None))
        # the plain flags PostParse.__init__ (and its base classes) initialise with constants
        for k in it.mro(pp.cls):
            init = k.ci.methods.get('__init__') if isinstance(k, ClassVal) else None
            for n in (_ast.walk(init) if init is not None else ()):
                if isinstance(n, _ast.Assign) and len(n.targets) == 1 and isinstance(n.targets[0], _ast.Attribute) and isinstance(n.targets[0].value, _ast.Name) \
                        and n.targets[0].value.id == 'self' and isinstance(n.value, _ast.Constant):
                    pp.attrs.setdefault(n.targets[0].attr, n.value.value)
        return pp

    def lower_except_clause(self, clause, entries):
        """PostParse.visit_ExceptClauseNode (interpreted) on the clause, followed by a model of the two later pipeline steps the flow analysis relies on:
        TryFinallyStatNode.analyse_declarations deep-copies finally_clause into finally_except_clause, and analyse_declarations resolves every NameNode
        to the local entry of its name"""
        it = self.it
        res = it.call(it.getattr(self.post_parse(), 'visit_ExceptClauseNode'), [clause], {})
        if not isinstance(res, Obj) or 'ExceptClauseNode' not in it.mro_names(res.cls):
            raise Unmodelled('PostParse.visit_ExceptClauseNode returned %r' % (res,))
        tf_cls = it.cls('Nodes', 'TryFinallyStatNode')

        def deep(o):
            if isinstance(o, list):
                return [deep(x) for x in o]
            if isinstance(o, Obj) and 'Node' in it.mro_names(o.cls):
                n = Obj(o.cls, dict(o.attrs))
                for a in (it.getattr(o, 'child_attrs') or ()):
                    if a in n.attrs:
                        n.attrs[a] = deep(n.attrs[a])
                return n
            return o

        seen = set()

        def walk(o):
            if isinstance(o, list):
                for x in o:
                    walk(x)
                return
            if not isinstance(o, Obj) or id(o) in seen:
                return
            seen.add(id(o))
            names = it.mro_names(o.cls)
            if 'NameNode' in names and o.attrs.get('entry') is None:
                nm = o.attrs.get('name')
                if nm not in entries:
                    raise Unmodelled('the lowered except clause mentions the name %r' % (nm,))
                o.attrs['entry'] = entries[nm]
                o.attrs.setdefault('cf_state', None)
            if tf_cls.name in names and o.attrs.get('finally_except_clause') is None and o.attrs.get('finally_clause') is not None:
                o.attrs['finally_except_clause'] = deep(o.attrs['finally_clause'])
            for a in (it.getattr(o, 'child_attrs') or ()):
                walk(o.attrs.get(a))
        walk(res)
        return res

    # ---- scenario program (tuples) -> tree of the repository's node classes
    def build(self, prog, entries):
        obs = {}
        w = self

        def name(var):
            return w.node('ExprNodes', 'NameNode', name=var, entry=entries[var], cf_state=None)

        def opaque(tag='f()'):
            # an opaque, possibly raising expression that mentions no local name (visited through visit_Node: no children)
            return w.node('ExprNodes', 'NullNode', **{'$tag': tag})

        def expr(e):
            k = e[0]
            if k == 'c':
                return opaque('c')
            if k == 'W':        # (x := f())
                n = name(e[1])
                obs[e[2]] = ('A', n)
                asg = w.node('Nodes', 'SingleAssignmentNode', lhs=n, rhs=opaque(), is_assignment_expression=True)
                return w.node('ExprNodes', 'AssignmentExpressionNode', rhs=None, assignment=asg)
            if k == 'N':        # x
                n = name(e[1])
                obs[e[2]] = ('R', n)
                return n
            if k in ('and', 'or'):
                return w.node('ExprNodes', 'BoolBinopNode', operator=k, operand1=expr(e[1]), operand2=expr(e[2]))
            if k == 'cond':
                return w.node('ExprNodes', 'CondExprNode', condition=expr(e[1]), true_val=expr(e[2]), false_val=expr(e[3]))
            raise ValueError(k)

        def retag(block):
            out = []
            for t in block:
                if t[0] in ('A', 'D', 'R'):
                    out.append((t[0], t[1], ('x', t[2])))
                elif t[0] in ('pass', 'C') + JUMPS:
                    out.append(t)
                elif t[0] == 'if':
                    out.append(('if', [retag(b) for b in t[1]], retag(t[2]) if t[2] is not None else None))
                else:
                    raise ValueError('compound statement other than `if` inside a finally clause is outside the scenario family')
            return out

        def stmts(block):
            return w.node('Nodes', 'StatListNode', stats=[stmt(s) for s in block])

        def opt(block):
            return stmts(block) if block is not None else None

        def stmt(s):
            k = s[0]
            if k == 'A':       # x = f()
                n = name(s[1])
                obs[s[2]] = ('A', n)
                return w.node('Nodes', 'SingleAssignmentNode', lhs=n, rhs=opaque())
            if k == 'D':       # del x
                n = name(s[1])
                obs[s[2]] = ('D', n)
                return w.node('Nodes', 'DelStatNode', args=[n], ignore_nonexisting=False)
            if k == 'R':       # use(x)
                n = name(s[1])
                obs[s[2]] = ('R', n)
                return w.node('Nodes', 'ExprStatNode', expr=n)
            if k == 'C':       # f()
                return w.node('Nodes', 'ExprStatNode', expr=opaque())
            if k == 'E':       # expression statement
                return w.node('Nodes', 'ExprStatNode', expr=expr(s[1]))
            if k == 'pass':
                return w.node('Nodes', 'PassStatNode')
            if k == 'break':
                return w.node('Nodes', 'BreakStatNode')
            if k == 'continue':
                return w.node('Nodes', 'ContinueStatNode')
            if k == 'return':
                return w.node('Nodes', 'ReturnStatNode', value=None)
            if k == 'raise':
                return w.node('Nodes', 'RaiseStatNode', exc_type=opaque(), exc_value=None, exc_tb=None, cause=None)
            if k == 'if':      # ('if', [body, ...], else|None)
                clauses = [w.node('Nodes', 'IfClauseNode', condition=opaque('c'), body=stmts(b)) for b in s[1]]
                return w.node('Nodes', 'IfStatNode', if_clauses=clauses, else_clause=opt(s[2]))
            if k == 'while':   # ('while', body, else|None)
                return w.node('Nodes', 'WhileStatNode', condition=opaque('c'), body=stmts(s[1]), else_clause=opt(s[2]))
            if k == 'for':     # ('for', target, obs id, body, else|None)
                tn = name(s[1])
                obs[s[2]] = ('A', tn)
                it_node = w.node('ExprNodes', 'IteratorNode', sequence=opaque('it'), expr_scope=None)
                return w.node('Nodes', 'ForInStatNode', target=tn, iterator=it_node, item=opaque('next'), body=stmts(s[3]), else_clause=opt(s[4]))
            if k == 'forfrom':
                tn = name(s[1])
                obs[s[2]] = ('A', tn)
                return w.node('Nodes', 'ForFromStatNode', target=tn, bound1=opaque('a'), bound2=opaque('b'), step=None, body=stmts(s[3]), else_clause=opt(s[4]))
            if k == 'try':     # ('try', body, [handler body, ...], else|None)
                clauses = [w.node('Nodes', 'ExceptClauseNode', pattern=[opaque('E')], target=None, body=stmts(b), exc_value=None) for b in s[2]]
                return w.node('Nodes', 'TryExceptStatNode', body=stmts(s[1]), except_clauses=clauses, else_clause=opt(s[3]))
            if k == 'tryas':   # ('tryas', body, [(target obs id, handler body), ...], else): `except E as x` clauses, lowered by the repository's own PostParse.visit_ExceptClauseNode
                clauses = []
                for tid, hb in s[2]:
                    tn = name('x')
                    obs[tid] = ('A', tn)
                    clause = w.node('Nodes', 'ExceptClauseNode', pattern=[opaque('E')], target=tn, body=stmts(hb), exc_value=None, is_except_as=True)
                    clauses.append(w.lower_except_clause(clause, entries))
                return w.node('Nodes', 'TryExceptStatNode', body=stmts(s[1]), except_clauses=clauses, else_clause=opt(s[3]))
            if k == 'match':   # ('match', [(binds: bool, guard: bool, body)...])  -- case patterns are opaque; a capture pattern binds x when the case is selected
                cases = []
                for binds, guard, body in s[1]:
                    ta = None
                    if binds is not None:
                        n = name('x')
                        obs[binds] = ('A', n)
                        ta = w.node('Nodes', 'StatListNode', stats=[w.node('Nodes', 'SingleAssignmentNode', lhs=n, rhs=opaque('capture'))])
                    cases.append(w.node('MatchCaseNodes', 'MatchCaseNode', pattern=w.node('MatchCaseNodes', 'PatternNode', **{'$tag': 'pattern'}), target_assignments=ta, comp_node=None,
                                        guard=opaque('guard') if guard else None, body=stmts(body)))
                return w.node('MatchCaseNodes', 'MatchNode', subject=opaque('subject'), cases=cases)
            if k == 'tryfinally':   # ('tryfinally', body, finally body)
                # the compiler analyses (and generates) one copy of the finally clause for the exceptional entry and one for all other entries;
                # observation points of the exceptional copy get the ids ('x', id)
                return w.node('Nodes', 'TryFinallyStatNode', body=stmts(s[1]), finally_clause=stmts(s[2]), finally_except_clause=stmts(retag(s[2])))
            raise ValueError(k)
        return stmts(prog), obs

    def analyse(self, prog, vars_=('x',)):
        """the repository's analysis on one scenario -> {observation id: (kind, cf_maybe_null, cf_is_null)}"""
        it = self.it
        it.steps = 0
        del self.messages[:]
        entries = {v: Obj(self.EntryStub, dict(name=v, type=self.pytype, scope=Obj(self.ScopeStub), cf_assignments=[], cf_references=[], pos=self.pos, cf_used=True)) for v in vars_}
        body, obs = self.build(prog, entries)
        scope = Obj(self.ScopeStub, dict(entries=dict(entries), name='f'))
        func = self.node('Nodes', 'DefNode', args=[], star_arg=None, starstar_arg=None, body=body, is_generator=False, local_scope=scope, decorators=None, used=False)
        cfa = Obj(it.cls('FlowControl', 'ControlFlowAnalysis'))
        cfa.attrs.update(dict(env=Obj(self.ScopeStub, dict(entries={})), flow=it.call(it.cls('FlowControl', 'ControlFlow'), [], {}), stack=[], reductions=set(),
                              in_inplace_assignment=False, in_assignment_expression=False, object_expr=self.node('ExprNodes', 'NullNode'),
                              constant_folder=HostFn(lambda it_, n: n, 'constant_folder'), gv_ctx=None,
                              current_directives={'control_flow.dot_output': '', 'control_flow.dot_annotate_defs': False, 'warn.maybe_uninitialized': False,
                                                  'warn.unused_result': False, 'warn.unused': False, 'warn.unused_arg': False}))
        it.call(it.getattr(cfa, 'visit_FuncDefNode'), [func], {})
        return {k: (kind, bool(it.getattr(n, 'cf_maybe_null')), bool(it.getattr(n, 'cf_is_null'))) for k, (kind, n) in obs.items()}


class RefSem:
    """collecting semantics of a scenario program over the definedness of its variables (language reference: 7.2, 7.5, 8.1-8.4, 6.11-6.13):
    every condition, iteration count and raising point is nondeterministic; states are sorted tuples of (variable, U|A)"""

    def __init__(self):
        self.obs = {}

    def observe(self, oid, var, S):
        self.obs.setdefault(oid, set()).update(dict(st)[var] for st in S)

    @staticmethod
    def setv(st, var, v):
        d = dict(st)
        d[var] = v
        return tuple(sorted(d.items()))

    @staticmethod
    def merge(out, o):
        for k, v in o.items():
            if v:
                out.setdefault(k, set()).update(v)

    def block(self, stmts, S, exc_copy=False):
        out = {}
        cur = set(S)
        for s in stmts:
            if not cur:
                break
            o = self.stmt(s, cur, exc_copy)
            cur = o.pop('normal', set())
            self.merge(out, o)
        if cur:
            out.setdefault('normal', set()).update(cur)
        return out

    def expr(self, e, S):
        """-> (states after normal evaluation, states in which it raised)"""
        k = e[0]
        S = set(S)
        if k == 'c':
            return S, set(S)
        if k == 'W':
            self.observe(e[2], e[1], S)
            return {self.setv(st, e[1], A) for st in S}, set(S)
        if k == 'N':
            self.observe(e[2], e[1], S)
            bound = {st for st in S if dict(st)[e[1]] == A}
            return bound, S - bound
        if k in ('and', 'or'):
            n1, r1 = self.expr(e[1], S)
            n2, r2 = self.expr(e[2], n1)
            return n1 | n2, r1 | r2
        if k == 'cond':
            nc, rc = self.expr(e[1], S)
            nt, rt = self.expr(e[2], nc)
            nf, rf = self.expr(e[3], nc)
            return nt | nf, rc | rt | rf
        raise ValueError(k)

    def stmt(self, s, S, exc_copy=False):
        k = s[0]
        S = set(S)
        oid = (lambda i: ('x', i)) if exc_copy else (lambda i: i)
        if k == 'A':
            self.observe(oid(s[2]), s[1], S)
            return {'raise': set(S), 'normal': {self.setv(st, s[1], A) for st in S}}
        if k in ('D', 'R'):
            self.observe(oid(s[2]), s[1], S)
            bound = {st for st in S if dict(st)[s[1]] == A}
            o = {'raise': S - bound}
            o['normal'] = {self.setv(st, s[1], U) for st in bound} if k == 'D' else bound
            return {kk: v for kk, v in o.items() if v}
        if k == 'C':
            return {'normal': set(S), 'raise': set(S)}
        if k == 'E':
            n, r = self.expr(s[1], S)
            return {kk: v for kk, v in (('normal', n), ('raise', r)) if v}
        if k == 'pass':
            return {'normal': S}
        if k in ('break', 'continue', 'return'):
            return {k: S}
        if k == 'raise':
            return {'raise': S}
        if k == 'if':
            out = {'raise': set(S)}           # a condition may raise
            for body in s[1]:
                self.merge(out, self.block(body, S, exc_copy))
            self.merge(out, self.block(s[2], S, exc_copy) if s[2] is not None else {'normal': S})
            return out
        if k in ('while', 'for', 'forfrom'):
            body, orelse = (s[1], s[2]) if k == 'while' else (s[3], s[4])
            out = {'raise': set(S)}           # the condition / iterator / bounds may raise
            head = set(S)
            while True:
                inner = set(head)
                if k != 'while':
                    self.observe(s[2], s[1], inner)
                    inner = {self.setv(st, s[1], A) for st in inner}
                o = self.block(body, inner)
                new = head | o.get('normal', set()) | o.get('continue', set())
                if new == head:
                    break
                head = new
            out['raise'] |= head              # ... in any iteration
            self.merge(out, {kk: v for kk, v in o.items() if kk in ('return', 'raise')})
            self.merge(out, {'normal': o.get('break', set())})
            self.merge(out, self.block(orelse, head) if orelse is not None else {'normal': head})
            return out
        if k == 'try':
            out = {}
            o = self.block(s[1], S)
            raised = o.pop('raise', set())
            normal = o.pop('normal', set())
            self.merge(out, o)
            if raised:
                out.setdefault('raise', set()).update(raised)      # matched by no clause / the match expression raises
                for hb in s[2]:
                    self.merge(out, self.block(hb, raised))
            if normal:
                self.merge(out, self.block(s[3], normal) if s[3] is not None else {'normal': normal})
            return out
        if k == 'tryas':
            # language reference 8.4: `except E as N: suite` is translated to `except E as N: try: suite finally: del N` -- N is bound on entry of the clause
            # and unbound again on EVERY exit of it (the implicit del does not fail when the suite has unbound N itself)
            out = {}
            o = self.block(s[1], S)
            raised = o.pop('raise', set())
            normal = o.pop('normal', set())
            self.merge(out, o)
            if raised:
                out.setdefault('raise', set()).update(raised)
                for tid, hb in s[2]:
                    self.observe(tid, 'x', raised)
                    ho = self.block(hb, {self.setv(st, 'x', A) for st in raised})
                    self.merge(out, {kind: {self.setv(st, 'x', U) for st in states} for kind, states in ho.items()})
            if normal:
                self.merge(out, self.block(s[3], normal) if s[3] is not None else {'normal': normal})
            return out
        if k == 'Dq':                         # del x that tolerates an unbound x (DelStatNode.ignore_nonexisting)
            return {'normal': {self.setv(st, s[1], U) for st in S}}
        if k == 'match':
            out = {'raise': set(S)}           # the subject / a pattern / a guard may raise
            cur = set(S)
            for binds, guard, body in s[1]:
                sel = set(cur)
                if binds is not None:
                    self.observe(binds, 'x', sel)
                    sel = {self.setv(st, 'x', A) for st in sel}     # the capture is bound before the guard runs
                    out['raise'] |= sel
                self.merge(out, self.block(body, sel))
                cur = cur | (sel if guard else set())               # a failing guard falls through to the next case with the capture bound
            self.merge(out, {'normal': cur})
            return out
        if k == 'tryfinally':
            out = {}
            for kind, states in self.block(s[1], S).items():
                if not states:
                    continue
                if kind == 'raise' and len(s) > 3 and not s[3]:
                    self.merge(out, {kind: states})     # TryFinallyStatNode.handle_error_case = False: the clause is not run on the exception exit
                    continue
                f = self.block(s[2], states, exc_copy=(kind == 'raise'))
                fn = f.pop('normal', set())
                self.merge(out, f)            # a jump / exception in the finally clause replaces the pending one
                self.merge(out, {kind: fn})
            return out
        raise ValueError(k)


def show_prog(block, ind=0, mark=None):
    pad = '    ' * ind
    lines = []
    m = lambda i: '    # <-- here' if (mark is not None and (i == mark or ('x', i) == mark)) else ''

    def ex(e):
        k = e[0]
        return {'c': lambda: 'c()', 'W': lambda: '(%s := f())%s' % (e[1], m(e[2]) and '<--here'), 'N': lambda: e[1] + (m(e[2]) and '<--here'), 'and': lambda: '(%s and %s)' % (ex(e[1]), ex(e[2])),
                'or': lambda: '(%s or %s)' % (ex(e[1]), ex(e[2])), 'cond': lambda: '(%s if %s else %s)' % (ex(e[2]), ex(e[1]), ex(e[3]))}[k]()
    for s in block:
        k = s[0]
        if k == 'A':
            lines.append(pad + '%s = f()' % s[1] + m(s[2]))
        elif k == 'D':
            lines.append(pad + 'del %s' % s[1] + m(s[2]))
        elif k == 'R':
            lines.append(pad + 'use(%s)' % s[1] + m(s[2]))
        elif k == 'C':
            lines.append(pad + 'f()')
        elif k == 'E':
            lines.append(pad + ex(s[1]))
        elif k in ('pass',) + JUMPS:
            lines.append(pad + k)
        elif k == 'if':
            for i, b in enumerate(s[1]):
                lines.append(pad + ('if c():' if i == 0 else 'elif c():'))
                lines += show_prog(b or [('pass',)], ind + 1, mark)
            if s[2] is not None:
                lines.append(pad + 'else:')
                lines += show_prog(s[2] or [('pass',)], ind + 1, mark)
        elif k in ('while', 'for', 'forfrom'):
            body, orelse = (s[1], s[2]) if k == 'while' else (s[3], s[4])
            lines.append(pad + ('while c():' if k == 'while' else 'for %s in %s:' % (s[1], 'it' if k == 'for' else 'range(a, b)') + m(s[2])))
            lines += show_prog(body or [('pass',)], ind + 1, mark)
            if orelse is not None:
                lines.append(pad + 'else:')
                lines += show_prog(orelse or [('pass',)], ind + 1, mark)
        elif k == 'try':
            lines.append(pad + 'try:')
            lines += show_prog(s[1] or [('pass',)], ind + 1, mark)
            for hb in s[2]:
                lines.append(pad + 'except E:')
                lines += show_prog(hb or [('pass',)], ind + 1, mark)
            if s[3] is not None:
                lines.append(pad + 'else:')
                lines += show_prog(s[3] or [('pass',)], ind + 1, mark)
        elif k == 'tryas':
            lines.append(pad + 'try:')
            lines += show_prog(s[1] or [('pass',)], ind + 1, mark)
            for tid, hb in s[2]:
                lines.append(pad + 'except E as x:' + m(tid))
                lines += show_prog(hb or [('pass',)], ind + 1, mark)
            if s[3] is not None:
                lines.append(pad + 'else:')
                lines += show_prog(s[3] or [('pass',)], ind + 1, mark)
        elif k == 'Dq':
            lines.append(pad + 'del %s  # implicit, tolerant' % s[1])
        elif k == 'match':
            lines.append(pad + 'match subject:')
            for binds, guard, body in s[1]:
                lines.append(pad + '    case %s%s:%s' % ('x' if binds is not None else '<pattern>', ' if guard()' if guard else '', m(binds) if binds is not None else ''))
                lines += show_prog(body or [('pass',)], ind + 2, mark)
        elif k == 'tryfinally':
            lines.append(pad + 'try:')
            lines += show_prog(s[1] or [('pass',)], ind + 1, mark)
            lines.append(pad + 'finally:' + ('  # handle_error_case=False: not run when the body raises' if len(s) > 3 and not s[3] else ''))
            lines += show_prog(s[2] or [('pass',)], ind + 1, mark)
    return lines


def number_prog(prog):
    """consecutive ids for the observation points"""
    c = itertools.count(1)

    def ex(e):
        k = e[0]
        if k in ('W', 'N'):
            return (k, e[1], next(c))
        if k in ('and', 'or'):
            a = ex(e[1])
            return (k, a, ex(e[2]))
        if k == 'cond':
            a = ex(e[1])
            b = ex(e[2])
            return (k, a, b, ex(e[3]))
        return e

    def blk(b):
        out = []
        for s in b:
            k = s[0]
            if k in ('A', 'D', 'R'):
                out.append((k, s[1], next(c)))
            elif k == 'E':
                out.append(('E', ex(s[1])))
            elif k == 'if':
                bodies = [blk(x) for x in s[1]]
                out.append(('if', bodies, blk(s[2]) if s[2] is not None else None))
            elif k == 'while':
                b1 = blk(s[1])
                out.append(('while', b1, blk(s[2]) if s[2] is not None else None))
            elif k in ('for', 'forfrom'):
                i = next(c)
                b1 = blk(s[2])
                out.append((k, s[1], i, b1, blk(s[3]) if s[3] is not None else None))
            elif k == 'try':
                b1 = blk(s[1])
                hs = [blk(h) for h in s[2]]
                out.append(('try', b1, hs, blk(s[3]) if s[3] is not None else None))
            elif k == 'tryas':
                b1 = blk(s[1])
                hs = []
                for h in s[2]:
                    i = next(c)
                    hs.append((i, blk(h)))
                out.append(('tryas', b1, hs, blk(s[3]) if s[3] is not None else None))
            elif k == 'tryfinally':
                b1 = blk(s[1])
                out.append(('tryfinally', b1, blk(s[2])) + tuple(s[3:]))
            elif k == 'match':
                cases = []
                for binds, guard, body in s[1]:
                    i = next(c) if binds else None
                    cases.append((i, guard, blk(body)))
                out.append(('match', cases))
            else:
                out.append(s)
        return out
    return blk(prog)


def prog_shape(prog):
    """the compound statement kinds of a scenario, outermost first (part of the construct key)"""
    out = []

    def ex(e):
        if e[0] in ('and', 'or'):
            out.append('boolop')
            ex(e[1]), ex(e[2])
        elif e[0] == 'cond':
            out.append('condexpr')
            ex(e[1]), ex(e[2]), ex(e[3])
        elif e[0] == 'W':
            out.append('walrus')

    def blk(b):
        for s in b or ():
            k = s[0]
            if k == 'E':
                ex(s[1])
            elif k == 'if':
                out.append('if' if len(s[1]) == 1 else 'elif')
                for x in s[1]:
                    blk(x)
                blk(s[2])
            elif k == 'while':
                out.append(k)
                blk(s[1]), blk(s[2])
            elif k in ('for', 'forfrom'):
                out.append(k)
                blk(s[3]), blk(s[4])
            elif k == 'try':
                out.append('try')
                blk(s[1])
                for h in s[2]:
                    blk(h)
                blk(s[3])
            elif k == 'tryas':
                out.append('except-as')
                blk(s[1])
                for h in s[2]:
                    blk(h[1] if (len(h) == 2 and not isinstance(h[0], (tuple, list))) else h)
                blk(s[3])
            elif k == 'tryfinally':
                out.append('tryfinally')
                blk(s[1]), blk(s[2])
            elif k == 'match':
                out.append('match')
                for binds, guard, body in s[1]:
                    blk(body)
            elif k in JUMPS:
                out.append(k)
    blk(prog)
    seen = []
    for x in out:
        if x not in seen:
            seen.append(x)
    return '/'.join(seen) or 'straight-line'


def has_del_in_try(prog):
    """a `del` of the variable in the dynamic extent of a try body (try/except or try/finally)"""
    def blk(b, intry):
        for s in b or ():
            k = s[0]
            if k == 'D' and intry:
                return True
            if k == 'if' and (any(blk(x, intry) for x in s[1]) or blk(s[2], intry)):
                return True
            if k == 'while' and (blk(s[1], intry) or blk(s[2], intry)):
                return True
            if k in ('for', 'forfrom') and (blk(s[-2], intry) or blk(s[-1], intry)):
                return True
            if k == 'try' and (blk(s[1], True) or any(blk(h, intry) for h in s[2]) or blk(s[3], intry)):
                return True
            if k == 'tryfinally' and (blk(s[1], True) or blk(s[2], intry)):
                return True
            if k == 'match' and any(blk(body, intry) for _, _, body in s[1]):
                return True
        return False
    return blk(prog, False)


def cfg_scenarios():
    """the scenario family (unnumbered programs over the one variable x); see the module comment for the partition it enumerates"""
    a, d, r, c = ('A', 'x'), ('D', 'x'), ('R', 'x'), ('C',)
    br, co, ret, rs = ('break',), ('continue',), ('return',), ('raise',)
    post = [r]
    out = []

    def has_d(b):
        return any(t == d or (isinstance(t, (tuple, list)) and has_d(t)) for t in b if isinstance(t, (tuple, list)))

    def add(p):
        # prelude: the variable is bound before the statement iff the statement unbinds it somewhere (otherwise nothing could become unbound / stay unbound)
        if p and p[0] == 'PRE':
            p = ([a] if has_d(p[1:]) else []) + p[1:]
        if p not in out:
            out.append(p)
    # straight-line code (block walk of check_definitions)
    for sl in ([a, r], [a, d, r], [d, r], [a, d, a, r], [a, r, d, r, a, r]):
        add(sl)
    for p in (['PRE'],):
        # if / elif / else
        for b1 in ([a], [d], [ret], [rs], [a, ret], [d, r]):
            for e in (None, [], [a], [d]):
                add(p + [('if', [b1], e)] + post)
        for b1 in ([a], [d]):
            for b2 in ([a], [d], [ret]):
                add(p + [('if', [b1, b2], None)] + post)
                add(p + [('if', [b1, b2], [a])] + post)
        # loops: body = read at the top + one behaviour class; else clause absent / observing and unbinding
        for b1 in ([], [a], [d], [br], [a, br], [d, br], [d, co], [a, co], [('if', [[d, br]], None), a], [('if', [[co]], None), d]):
            for e in (None, [r, d]):
                add(p + [('while', [r] + b1, e)] + post)
                add(p + [('for', 'x', [r] + b1, e)] + post)
                add(p + [('forfrom', 'x', [r] + b1, e)] + post)
        # try / except / else
        for b1 in ([a], [a, c], [c, a], [d, c], [d, a], [a, rs], [a, ret]):
            for h in ([r], [a], [r, d], [r, rs]):
                for e in (None, [r, d]):
                    add(p + [('try', b1, [h], e)] + post)
        add(p + [('try', [a, c], [[a], [d]], None)] + post)
        # try / finally, alone, with jumps through the finally clause, nested with try / except
        for b1 in ([a], [a, c], [c, a], [d, c], [d, a], [a, ret], [d, ret]):
            for f in ([r], [r, d], [a]):
                add(p + [('tryfinally', b1, f)] + post)
        for b1 in ([a, br], [d, br], [a, co], [d, co], [('if', [[a, br]], None), d]):
            for f in ([r], [r, d]):
                add(p + [('while', [r, ('tryfinally', b1, f), d], [r])] + post)
                add(p + [('for', 'x', [('tryfinally', b1, f), d], None)] + post)
        for b1 in ([a], [a, c], [d, c]):
            add(p + [('try', [('tryfinally', b1, [r])], [[r]], None)] + post)
            add(p + [('tryfinally', [('try', b1, [[r, d]], None)], [r])] + post)
            add(p + [('while', [('try', b1 + [br], [[d, co]], None)], [r])] + post)
            add(p + [('try', [('try', b1, [[rs]], None)], [[r]], None)] + post)
    # match statements: capture patterns bind before the guard; no case may be selected
    for c1 in ((True, False, [r]), (True, True, [r]), (False, False, [a]), (False, True, [d])):
        for c2 in (None, (True, False, []), (False, False, [a]), (False, True, [d, r])):
            add(['PRE', ('match', [c1] + ([c2] if c2 else []))] + post)
    # expressions: boolean operators, conditional expressions, assignment expressions
    W, N, C = ('W', 'x'), ('N', 'x'), ('c',)
    for e in (('and', C, W), ('or', C, W), ('and', W, C), ('cond', C, W, C), ('cond', C, C, W), ('cond', W, C, C), ('and', ('and', C, W), C), ('or', ('and', C, W), N),
              ('and', C, ('cond', C, W, C)), ('cond', ('and', C, W), N, N), ('and', ('or', C, W), N), ('cond', C, ('and', C, W), N)):
        add([('E', e)] + post)
        add([('if', [[('E', e)]], None)] + post)
    return out


def finally_depth_of_jumps(prog):
    """for every jump statement of a scenario: (kind, number of `finally` clauses the jump runs before it reaches its target) -- for `return` the enclosing
    try/finally bodies of the function, for `break` / `continue` the ones inside the innermost enclosing loop"""
    out = []

    def blk(b, fdepth, ldepth):
        for s in b or ():
            k = s[0]
            if k == 'return':
                out.append((k, fdepth))
            elif k in ('break', 'continue'):
                out.append((k, ldepth))
            elif k == 'if':
                for x in s[1]:
                    blk(x, fdepth, ldepth)
                blk(s[2], fdepth, ldepth)
            elif k == 'while':
                blk(s[1], fdepth, 0)
                blk(s[2], fdepth, ldepth)
            elif k in ('for', 'forfrom'):
                blk(s[-2], fdepth, 0)
                blk(s[-1], fdepth, ldepth)
            elif k == 'try':
                blk(s[1], fdepth, ldepth)
                for h in s[2]:
                    blk(h, fdepth, ldepth)
                blk(s[3], fdepth, ldepth)
            elif k == 'tryfinally':
                blk(s[1], fdepth + 1, ldepth + 1)
                blk(s[2], fdepth, ldepth)
            elif k == 'match':
                for _, _, body in s[1]:
                    blk(body, fdepth, ldepth)
    blk(prog, 0, 0)
    return out


def is_deep_finally_jump(prog):
    """a `return` that runs three or more finally clauses, or a `break` / `continue` that runs two or more (pending finding FINDING_1 of session H3)"""
    return any((k == 'return' and n >= 3) or (k != 'return' and n >= 2) for k, n in finally_depth_of_jumps(prog))


def nestfin_scenarios():
    """jumps that leave through SEVERAL nested finally clauses (unnumbered programs over x).  Shape of every program: the outermost finally clause reads x; it is
    entered (1) by a guarded jump taken directly in the outer try body while x is bound and (2) by the same kind of jump taken inside the inner try/finally
    statement(s) while x is unbound; the inner try body cannot fall through, so the chain  jump -> inner finally -> ... -> outer finally  is the only
    route on which the unbound state reaches the outer clause.  Partition: jump kind x what lies between the two finally clauses (nothing, a try/except body,
    an except handler, a loop, a third try/finally) x the inner try body (never bound / unbound by `del`) x the inner finally clause (inert, may raise, binds)
    x the outer finally clause (reads / reads and unbinds)."""
    a, d, r, c, ps = ('A', 'x'), ('D', 'x'), ('R', 'x'), ('C',), ('pass',)
    out = []

    def add(p):
        if p not in out:
            out.append(p)

    def inner_bodies(J):
        return ((False, [J]), (True, [d, J]))
    for J in (('return',), ('break',), ('continue',)):
        guard = ('if', [[a, J]], None)
        wraps = [lambda body: body]
        if J[0] != 'return':
            # x is (re)bound / not at the loop head so that the back edge does not carry the unbound state into the outer finally clause by itself
            wraps = [lambda body: [('while', body, None)], lambda body: [('for', 'x', body, None)]]
        for wrap in wraps:
            for pre, ib in inner_bodies(J):
                P = [a] if pre else []
                for fin in ([ps], [c], [a]):
                    for of in ([r], [r, d]):
                        add(P + wrap([('tryfinally', [guard, ('tryfinally', ib, fin)], of)]) + [r])
                # something between the two finally clauses
                add(P + wrap([('tryfinally', [guard, ('try', [('tryfinally', ib, [ps])], [[a]], None)], [r])]) + [r])
                add(P + wrap([('tryfinally', [guard, ('try', [c], [[('tryfinally', ib, [ps])]], None)], [r])]) + [r])
                add(P + wrap([('tryfinally', [guard, ('tryfinally', [('tryfinally', ib, [ps])], [ps])], [r])]) + [r])
                add(P + wrap([('tryfinally', [guard, ('tryfinally', [('tryfinally', ib, [c])], [a])], [r])]) + [r])
                # a single finally clause, the jump sits in a try/except statement inside its body (body / handler)
                add(P + wrap([('tryfinally', [guard, ('try', ib, [[a]], None)], [r])]) + [r])
                add(P + wrap([('tryfinally', [guard, ('try', [c], [ib], None)], [r])]) + [r])
                if J[0] == 'return':
                    add(P + [('tryfinally', [guard, ('while', [('tryfinally', ib, [ps])], None)], [r]), r])
                    add(P + [('while', [('tryfinally', [guard, ('tryfinally', ib, [ps])], [r])], None), r])
                else:
                    # the jump leaves only the inner finally clause: the outer one belongs to an enclosing statement of the loop
                    add(P + [('tryfinally', [('if', [[a, ('return',)]], None), ('while', [('tryfinally', ib, [ps])], None), a], [r]), r])
            # the inner finally clause unbinds: the state AFTER it (not the state at the jump) has to reach the outer clause
            add(wrap([('tryfinally', [guard, ('tryfinally', [a, J], [d])], [r])]) + [r])
            add(wrap([('tryfinally', [guard, ('tryfinally', [a, J], [('if', [[d]], None)])], [r])]) + [r])
            add(wrap([('tryfinally', [guard, ('tryfinally', [J], [('if', [[a]], [a])])], [r])]) + [r])
            # the INNER finally clause reads; it is entered by the jump (unbound) and by falling off the inner body (bound)
            add(wrap([('tryfinally', [('tryfinally', [('if', [[J]], None), a], [r])], [ps])]) + [r])
            add(wrap([('tryfinally', [('try', [('tryfinally', [('if', [[J]], None), a], [r])], [[ps]], None)], [ps])]) + [r])
    return out


def excas_scenarios():
    """`except E as x` clauses (unnumbered programs over x).  The clause is handed to the repository's PostParse.visit_ExceptClauseNode (interpreted), the flow
    analysis runs on what it returns; the reference binds x on entry of the clause and unbinds it on every exit.  Partition: x bound / unbound in front of the
    statement x how the clause suite ends (falls through after reading / rebinding / unbinding x, raises, may raise, break, continue, return) x who sees the
    state afterwards (the next statement, an enclosing handler, an enclosing finally clause, the code after the loop, the loop head)."""
    a, d, r, c = ('A', 'x'), ('D', 'x'), ('R', 'x'), ('C',)
    br, co, ret, rs = ('break',), ('continue',), ('return',), ('raise',)
    out = []

    def add(p):
        if p not in out:
            out.append(p)
    for P in ([], [a]):
        for hb in ([r], [a], [d], [r, c]):
            add(P + [('tryas', [c], [hb], None), r])
        for hb in ([r, rs], [c], [d, rs]):
            add(P + [('try', [('tryas', [c], [hb], None)], [[r]], None), r])
            add(P + [('tryfinally', [('tryas', [c], [hb], None)], [r]), r])
        for J in (br, co):
            add(P + [('while', [('tryas', [c], [[r, J]], None)], None), r])
            add(P + [('while', [a, ('tryas', [c], [[J]], None), a], [r]), r])
            add(P + [('for', 'x', [('tryas', [c], [[J]], None), a], None), r])
        add(P + [('tryfinally', [('tryas', [c], [[ret]], None), a], [r])])
        add(P + [('tryas', [c], [[r], [a]], None), r])
        add(P + [('tryas', [c], [[r]], [r, a]), r])
        add(P + [('tryas', [a, c], [[r]], None), r])
    return out


def cfg_compare(real, got):
    """-> [(observation id, node kind, code)] for the flags that contradict the reference semantics"""
    bad = []
    for oid, (kind, maybe, isnull) in sorted(got.items(), key=str):
        states = real.get(oid, set())
        if U in states and not (maybe or isnull):
            bad.append((oid, kind, 'unbound-missed'))
        if A in states and isnull:
            bad.append((oid, kind, 'bound-missed'))
    return bad


CFG_DESC = ('definedness analysis decided end to end on a family of abstract programs (every compound statement kind x the behaviour classes of its child blocks): wherever an '
            'execution reaches a name while it is unbound the analysis sets cf_maybe_null, wherever one reaches it bound it leaves cf_is_null unset')


CFG_PARTS = {
    # part: (rule id, scenario list, selector)
    'main': ('C21-CFG', cfg_scenarios, lambda p: not has_del_in_try(p)),
    'deltry': ('C21-CFG-DELTRY', cfg_scenarios, has_del_in_try),
    'nestfin': ('C21-CFG-NESTFIN', nestfin_scenarios, lambda p: not is_deep_finally_jump(p)),
    'deepfin': ('C21-CFG-DEEPFIN', nestfin_scenarios, is_deep_finally_jump),
    'excas': ('C21-CFG-EXCAS', excas_scenarios, lambda p: True),
}


def rule_cfg(ctx, part='main', floor=0):
    """part 'main': all scenarios without a `del` inside a try body; part 'deltry': the ones with; part 'nestfin': jumps through two nested finally clauses
    (`return`); part 'deepfin': `return` through three, `break` / `continue` through two finally clauses (pending finding, see props/C21.py)"""
    ix = ctx.index
    rid, family, select = CFG_PARTS[part]
    r = Rule(rid, CFG_DESC, floor)
    m = ix.mod('FlowControl')
    cfa = ix.cls('FlowControl', 'ControlFlowAnalysis')
    w = CfgWorld(ix)
    worst = {}
    for prog in family():
        if not select(prog):
            continue
        nprog = number_prog(prog)
        text = ' | '.join(l.strip() if not l.startswith(' ') else l.replace('    ', '>') for l in show_prog(nprog))
        ref = RefSem()
        ref.block(nprog, {(('x', U),)})
        try:
            got = w.analyse(nprog)
        except Unmodelled as e:
            raise AnalysisError('%s: the interpreter of the checker cannot follow FlowControl.py on the program [%s]: %s' % (r.id, text, e))
        except PyRaise as e:
            raise AnalysisError('%s: FlowControl.py raises %r while analysing the program [%s] (not decided)' % (r.id, e.value, text))
        r.inst(text, sample='%s -> %s' % (text, ', '.join('%s@%s:%s%s' % (k, i, 'm' if mb else '-', 'n' if nl else '-') for i, (k, mb, nl) in sorted(got.items(), key=str))))
        for oid, kind, code in cfg_compare(ref.obs, got):
            key = '%s.%s:%s:%s' % (m.short, cfa.name, prog_shape(nprog), code)
            size = len(show_prog(nprog))
            if key not in worst or size < worst[key][0]:
                worst[key] = (size, nprog, oid, kind)
    for key, (size, nprog, oid, kind) in sorted(worst.items()):
        where = {'A': 'the assignment target', 'D': 'the `del` target', 'R': 'the read'}[kind] + (' (copy of the finally clause entered by an exception)' if isinstance(oid, tuple) else '')
        listing = ' | '.join(show_prog(nprog, mark=oid)).replace('    ', '>')
        if key.endswith('unbound-missed'):
            what = ('an execution reaches %s while x is unbound, but the analysis leaves cf_maybe_null and cf_is_null unset: no run-time check is generated, '
                    'NULL is read / released instead of raising UnboundLocalError' % where)
        else:
            what = ('an execution reaches %s while x is bound, but the analysis sets cf_is_null: the old value is neither released nor (for `del`) unbound' % where)
        r.violate(key, m.rel, cfa.node.lineno, 'definedness analysis (CFG construction + reaching definitions + cf_* hints) on the program [%s]: %s' % (listing, what))
    # positive control: the comparison must reject an analysis result that omits the flag
    prog = number_prog([('if', [[('A', 'x')]], None), ('R', 'x')])
    ref = RefSem()
    ref.block(prog, {(('x', U),)})
    r.positive_control(any(c == 'unbound-missed' for _, _, c in cfg_compare(ref.obs, {2: ('R', False, False)})) and not cfg_compare(ref.obs, {2: ('R', True, False)}),
                       'a read after `if c: x = f()` without cf_maybe_null is rejected')
    return r


# ================================================================================================================ C21-NULLSAFE
# Emission sites that consult cf_maybe_null / cf_is_null choose between a NULL-tolerant reference-count primitive (put_xdecref*, put_xgotref,
# generate_xdecref_set ...) and its NULL-intolerant twin (put_decref*, put_gotref, generate_decref_set ...).  For a name that may be unbound the
# variable holds NULL, so the intolerant twin dereferences NULL.  Decided per method by partial evaluation of its tests under the two flag
# valuations "bound" (maybe_null=False) and "maybe unbound" (maybe_null=True, is_null=False), all other tests kept as residual path conditions:
#     every path condition under which an intolerant primitive is applied to the node's own variable for a maybe-unbound name
#     (and no unbound check was emitted earlier on the path) is also one under which it is applied for a bound name
# i.e. intolerance is never *caused* by cf_maybe_null.  Path conditions that assume an entry kind the flow analysis does not track
# (ControlFlow.is_tracked: C globals, module globals, builtins keep the class defaults of the flags) are outside the rule.
_REF_PRIMS = re.compile(r'^(put|generate|put_var)_(x?)(decref_set|decref_clear|decref|gotref|giveref)$')


def _prim_kind(call, selfname='self'):
    """'tolerant' | 'intolerant' | None for a call that applies a reference-count primitive to the node's own variable"""
    f = call.func
    if not isinstance(f, ast.Attribute):
        return None
    m = _REF_PRIMS.match(f.attr)
    if not m or m.group(3) == 'giveref':
        return None
    own = False
    if isinstance(f.value, ast.Name) and f.value.id == selfname:
        own = True                                   # self.generate_decref_set(code, rhs) ...
        for k in call.keywords:
            if k.arg == 'handle_null' and isinstance(k.value, ast.Constant) and k.value.value is True:
                return None                          # the callee decides (it is analysed itself)
    elif call.args:
        a0 = ast.unparse(call.args[0])
        own = a0 in (selfname + '.result()', selfname + '.entry', 'entry', selfname + '.entry.cname', 'entry.cname', selfname + '.py_result()')
    if not own:
        return None
    return 'tolerant' if m.group(2) else 'intolerant'


def _tracked_kinds(ix):
    fn = ix.find_method(ix.cls('FlowControl', 'ControlFlow'), 'is_tracked')
    if fn is None:
        raise AnalysisError('ControlFlow.is_tracked vanished')
    return {n.attr for n in ast.walk(fn[1]) if isinstance(n, ast.Attribute) and isinstance(n.value, ast.Name) and n.value.id == 'entry'}


def _prim_sites(fn, flags):
    """-> {kind: set of path contexts (frozenset of (residual test, truth))} for the primitive calls of one method under fixed flag values;
    contexts of sites that follow an emitted unbound check on the same path carry the marker ('<checked>', True)"""
    from . import pC21
    counts = {}
    for n in walk_no_nested(fn):
        if isinstance(n, ast.Assign) and len(n.targets) == 1 and isinstance(n.targets[0], ast.Name):
            counts.setdefault(n.targets[0].id, []).append(n.value)
        elif isinstance(n, (ast.AugAssign, ast.For, ast.With)):
            for x in ast.walk(n.target if hasattr(n, 'target') else n):
                if isinstance(x, ast.Name) and isinstance(x.ctx, ast.Store):
                    counts.setdefault(x.id, []).extend([None, None])
    params = {a.arg for a in fn.args.args + fn.args.kwonlyargs}
    inline = {k: v[0] for k, v in counts.items() if len(v) == 1 and v[0] is not None and k not in params}
    inline = {k: v for k, v in inline.items() if any(pC21.is_self_attr(x) and x.attr in pC21.FLAG_ATTRS for x in ast.walk(v)) or
              any(isinstance(x, ast.Name) and x.id in inline for x in ast.walk(v)) or isinstance(v, (ast.Attribute, ast.BoolOp, ast.UnaryOp, ast.Compare))}
    tri = pC21._Tri(flags, inline)
    found = {'tolerant': set(), 'intolerant': set()}
    selfname = fn.args.args[0].arg if fn.args.args else 'self'

    def scan(s, ctxt):
        for n in ast.walk(s):
            if isinstance(n, ast.Call):
                if isinstance(n.func, ast.Attribute) and 'unbound' in n.func.attr:
                    ctxt = ctxt | {('<checked>', True)}
                k = _prim_kind(n, selfname)
                if k:
                    found[k].add(frozenset(ctxt))
        return ctxt

    def extend(ctxt, test, truth):
        if (test, not truth) in ctxt:
            return None                       # contradicts an earlier decision on the same residual test
        return ctxt | {(test, truth)}

    def block(stmts, paths):
        """path-sensitive: -> set of path contexts that fall through"""
        for s in stmts:
            if not paths:
                return paths
            if len(paths) > 3000:
                raise AnalysisError('%s: more than 3000 paths' % fn.name)
            if isinstance(s, ast.If):
                v = tri.ev(s.test)
                if v is True:
                    paths = block(s.body, paths)
                elif v is False:
                    paths = block(s.orelse, paths)
                else:
                    pt = {c for c in (extend(p, v, True) for p in paths) if c is not None}
                    pf = {c for c in (extend(p, v, False) for p in paths) if c is not None}
                    paths = block(s.body, pt) | block(s.orelse, pf)
                continue
            if isinstance(s, (ast.For, ast.While, ast.With, ast.Try)):
                out = set(paths)
                for fld in ('body', 'orelse', 'finalbody'):
                    out |= block(getattr(s, fld, []) or [], paths)
                for h in getattr(s, 'handlers', []) or []:
                    out |= block(h.body, paths)
                paths = out
                continue
            paths = {scan(s, p) for p in paths}
            if isinstance(s, (ast.Return, ast.Raise)):
                return set()
        return paths
    block(fn.body, {frozenset()})
    return found


def nullsafe_problems(fn, tracked):
    """-> [path condition text] of intolerant applications caused by cf_maybe_null"""
    bound = _prim_sites(fn, {'cf_maybe_null': False, 'cf_is_null': False})
    maybe = _prim_sites(fn, {'cf_maybe_null': True, 'cf_is_null': False})
    out = []
    for c in sorted(maybe['intolerant'], key=lambda c: sorted(map(str, c))):
        if ('<checked>', True) in c:
            continue
        untracked = False
        for t, tr in c:
            mm = re.findall(r'\bentry\.(is_\w+|from_closure|in_closure)\b', t)
            if tr and mm and not any(x in tracked for x in mm) and ' or ' not in t and 'not ' not in t:
                untracked = True
        if untracked:
            continue
        if any(b <= c for b in bound['intolerant']):
            continue
        out.append(' and '.join(('(%s)' if tr else 'not (%s)') % (t, ) for t, tr in sorted(c, key=str)) or 'always')
    return out, bound, maybe


def rule_nullsafe(ctx, floor=3):
    ix = ctx.index
    r = Rule('C21-NULLSAFE', 'emission sites governed by cf_maybe_null: a NULL-intolerant reference-count primitive (decref/decref_set/decref_clear/gotref) is applied to the '
             'variable of a maybe-unbound name only under path conditions under which it is also applied for a bound name (or after an emitted unbound check)', floor)
    tracked = _tracked_kinds(ix)
    m = ix.mod('ExprNodes')
    code = ix.cls('Code', 'CCodeWriter')
    for c in sorted(m.classes.values(), key=lambda c: c.name):
        for name, fn in sorted(c.methods.items()):
            if not any(isinstance(n, ast.Attribute) and n.attr == 'cf_maybe_null' and isinstance(n.ctx, ast.Load) for n in walk_no_nested(fn)):
                continue
            if not any(isinstance(n, ast.Call) and _prim_kind(n, fn.args.args[0].arg if fn.args.args else 'self') for n in walk_no_nested(fn)):
                continue
            key = '%s.%s:intolerant-under-maybe_null' % (c.qual, name)
            probs, bound, maybe = nullsafe_problems(fn, tracked)
            r.inst(key, sample='%s.%s: intolerant primitive reached on %d path condition(s) for a bound name, %d for a maybe-unbound one; tolerant: %d / %d' % (
                c.qual, name, len(bound['intolerant']), len(maybe['intolerant']), len(bound['tolerant']), len(maybe['tolerant'])))
            for p in probs[:1]:
                r.violate(key, m.rel, fn.lineno, '%s.%s applies a NULL-intolerant reference-count primitive (decref / decref_set / decref_clear / gotref) to the variable of a name whose '
                          'cf_maybe_null is set, under the path condition [%s] under which a bound name does not get it: for an unbound local the variable is NULL, the '
                          'generated code dereferences NULL (Py_DECREF(NULL)) instead of tolerating / reporting the unbound name' % (c.name, name, p))
    # the tolerant twin of every intolerant emitter exists in Code.py (premise of the classification by name)
    for name in sorted(code.methods):
        mm = _REF_PRIMS.match(name)
        if mm and not mm.group(2) and mm.group(3) != 'giveref':
            twin = '%s_x%s' % (mm.group(1), mm.group(3))
            if twin not in code.methods:
                r.info('Code.CCodeWriter.%s has no NULL-tolerant twin %s' % (name, twin))
    pc = ast.parse("def generate_assignment_code(self, rhs, code):\n    if not self.cf_is_null:\n        if not self.cf_maybe_null:\n            self.generate_xdecref_set(code, rhs.result())\n"
                   "        else:\n            self.generate_decref_set(code, rhs.result())\n").body[0]
    r.positive_control(bool(nullsafe_problems(pc, tracked)[0]), 'decref_set chosen because the name may be unbound')
    return r
