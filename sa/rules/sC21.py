"""C21-LOOPVAR (also registered for C14 as C14-LOOPVAR): what a loop statement node does to its target variable.

For a Python `for` loop the target is bound exactly once per iteration, before the body, to the item of that iteration, and is not
touched otherwise: after the loop it holds the last item (or is still unbound / keeps its old value when the loop never ran), and
assigning to it inside the body does not change which items follow.  Decided on the emitted statement sequence of every path of
generate_execution_code (partial evaluation, sa/rules/sC14.Emu):

  in-loop    between the emitted loop header and the body there is an assignment to self.target, inside the loop's braces
  after-loop no assignment to self.target is emitted after the body outside the loop's braces
  counter    (loops with a C counter) between the body and the closing brace nothing writes the counter except the loop increment
             (the counter is not re-read from the target)

ForFromStatNode is shared with the Pyrex `for i from a <= i < b` statement, which deliberately behaves like a C loop (target one
step past the end, re-synchronised with the body's assignments); only the mode IterationTransform selects for range() loops
(`from_range=True`, checked at the constructor call) is subject to the rule."""
import ast, re

from ..core import Rule, AnalysisError
from ..engine.pyindex import walk_no_nested
from . import sC14 as E

BRACES = re.compile(r'[{}]')


def _text(ev):
    if ev[0] == 'code' and ev[1] == '' and ev[2] in ('put', 'putln') and ev[3] and isinstance(ev[3][0], str):
        return ev[3][0]
    return None


def _is_call(ev, attr, method):
    return ev[0] == 'call' and isinstance(ev[1], E.U) and ev[1].path == 'self.' + attr and ev[2] == method


def loopvar_problems(events, attrs, check_counter):
    """one path -> set of problem codes; None when the path generates no loop body (error path)"""
    depth, open_at, open_depth, body_at, close_at = 0, None, None, None, None
    depths = []
    counter = None
    for i, ev in enumerate(events):
        t = _text(ev)
        if t is not None:
            flat = E.MARK.sub('x', t)
            if open_at is None and re.match(r'\s*for\s*\(', flat):
                open_at, open_depth = i, depth
                m = re.match(r'\s*for\s*\(\s*\x01([^\x02]*)\x02\s*=[^=]', t)
                if m:
                    counter = m.group(1)
            for b in BRACES.findall(flat):
                depth += 1 if b == '{' else -1
                if open_at is not None and body_at is not None and close_at is None and depth == open_depth:
                    close_at = i
        depths.append(depth)
        if _is_call(ev, 'body', 'generate_execution_code') and body_at is None:
            body_at = i
    if body_at is None:
        return None
    probs = set()
    if open_at is None or open_at > body_at or depths[body_at] <= open_depth:
        probs.add('no-loop')
        return probs
    if close_at is None:
        probs.add('no-close')
        return probs
    assigns = [i for i, ev in enumerate(events) if _is_call(ev, 'target', 'generate_assignment_code')]
    if not any(open_at < i < body_at and depths[i] > open_depth for i in assigns):
        probs.add('in-loop')
    if any(i > close_at for i in assigns):
        probs.add('after-loop')
    if check_counter:
        if counter is None:
            probs.add('no-counter')
        else:
            for i in range(body_at + 1, close_at):
                ev = events[i]
                t = _text(ev)
                if t is not None:
                    if re.search(r'\x01' + re.escape(counter) + r'\x02\s*(=[^=]|[-+*/]=|\+\+|--)', t):
                        probs.add('counter')
                elif ev[0] == 'call' and isinstance(ev[1], E.New) and ev[2].startswith('generate_'):
                    tc = attrs.get(ev[1].ident + '.temp_code')
                    if isinstance(tc, E.U) and tc.path == counter:
                        probs.add('counter')
    return probs


TEXT = {
    'in-loop': 'has a path on which the loop target is not assigned between the loop header and the body (inside the loop): the body reads a stale or unbound variable',
    'after-loop': 'assigns the loop target again after the loop has finished: the variable does not keep the value of the last iteration (for i in range(4) leaves i == 4), '
                  'and a loop that never ran binds it (for i in range(0) followed by a read of i no longer raises UnboundLocalError / silently changes the old value)',
    'counter': 'writes the C loop counter between the body and the end of the iteration (re-reads it from the target): assigning to the loop variable inside the body changes '
               'which iterations follow, unlike a Python for loop',
    'no-loop': 'generates the loop body outside the emitted for-loop',
    'no-close': 'never closes the emitted for-loop',
    'no-counter': 'emits a for-header without a recognisable counter initialisation',
}


class _FakeIx:
    def find_class_attr(self, c, n):
        return None

    def mro(self, c):
        return []

    def find_method(self, c, n):
        return None


POSITIVE = '''
def generate_execution_code(self, code):
    v = self.loopvar_node.result()
    code.putln("for (%s = %s; %s < %s; %s++) {" % (v, self.bound1.result(), v, self.bound2.result(), v))
    self.py_loopvar_node.generate_evaluation_code(code)
    self.target.generate_assignment_code(self.py_loopvar_node, code)
    self.body.generate_execution_code(code)
    code.putln("}")
    if self.py_loopvar_node:
        self.py_loopvar_node.generate_evaluation_code(code)
        self.target.generate_assignment_code(self.py_loopvar_node, code)
'''


def _range_mode_anchor(ix):
    """IterationTransform builds its range loops as ForFromStatNode(..., from_range=True)"""
    m = ix.mod('Optimize')
    for qn, owner, fn in ix.functions_of(m):
        for n in walk_no_nested(fn):
            if isinstance(n, ast.Call) and (getattr(n.func, 'attr', None) or getattr(n.func, 'id', None)) == 'ForFromStatNode':
                for k in n.keywords:
                    if k.arg == 'from_range' and isinstance(k.value, ast.Constant) and k.value.value is True:
                        return qn
    raise AnalysisError('no ForFromStatNode(..., from_range=True) construction found in Optimize.py: the range-loop mode of ForFromStatNode is not identifiable')


def setup_vectors(ix, c, names):
    """truth vectors of the instance attributes `names` as the class's own non-generating methods leave them (they are set together, e.g.
    is_py_target / py_loopvar_node in set_up_loop) -> list of {name: bool} or None when a setting method cannot be modelled"""
    vectors = []
    for mname, fn in sorted(c.methods.items()):
        if mname.startswith('generate_'):
            continue
        stored = {n.attr for n in walk_no_nested(fn) if isinstance(n, ast.Attribute) and isinstance(n.ctx, ast.Store)
                  and isinstance(n.value, ast.Name) and n.value.id == 'self' and n.attr in names}
        if not stored:
            continue
        emu = E.Emu(ix, c, code_names=(), unknown_loops='01', inline=lambda owner, name: False)
        try:
            paths = emu.run(c, fn)
        except E.Unmodelled:
            return None
        for st, v in paths:
            vec = {}
            for n in stored:
                p = 'self.' + n
                if p in st.attrs:
                    t = emu.truth(st.attrs[p], st)
                    if t is not None:
                        vec[n] = t
            if vec not in vectors:
                vectors.append(vec)        # an empty vector (nothing known on that path) keeps every combination feasible
    return vectors


def path_feasible(assume, vectors):
    if not vectors:
        return True
    for vec in vectors:
        if all(assume.get('self.' + n) in (None, t) for n, t in vec.items()):
            return True
    return False


def rule_loopvar(ctx, rid='C21-LOOPVAR', floor=4):
    ix = ctx.index
    r = Rule(rid, 'loop statement nodes bind the loop target once per iteration before the body and never after the loop; a C loop counter is not re-read from the target '
             '(ForFromStatNode: in the from_range mode used for range() loops)', floor)
    _range_mode_anchor(ix)
    base = ix.cls('Nodes', 'LoopNode')
    classes = []
    for c in ix.subclasses(base):
        if 'generate_execution_code' not in c.methods:
            continue
        ca = ix.class_list_attr(c, 'child_attrs')
        if ca and ca[1] and 'target' in ca[1] and 'body' in ca[1]:
            classes.append(c)
    if len(classes) < 2:
        raise AnalysisError('fewer than two loop statement classes with a target define generate_execution_code')
    for c in sorted(classes, key=lambda c: c.name):
        fn = c.methods['generate_execution_code']
        has_mode = ix.find_class_attr(c, 'from_range') is not None
        presets, assume = {}, {}
        if has_mode:
            assume['self.from_range'] = True
            assume['self.from_range is None'] = False
            rt = ix.find_class_attr(c, 'relation_table')
            try:
                rels = sorted(ast.literal_eval(rt[1])) if rt else []
            except Exception:
                rels = []
            ups = [x for x in rels if x.startswith('<')]
            if not ups:
                raise AnalysisError('%s.relation_table has no upward relation' % c.qual)
            presets = {'self.relation1': ups[-1], 'self.relation2': ups[0]}
        emu = E.Emu(ix, c, unknown_loops='01')
        try:
            paths = emu.run(c, fn, presets=presets, assume=assume)
        except E.Unmodelled as e:
            raise AnalysisError('%s.generate_execution_code cannot be modelled: %s' % (c.qual, e))
        found = {}
        n = 0
        atoms = {k[5:] for st, v in paths for k in st.assume if k.startswith('self.') and k[5:].isidentifier()}
        vectors = setup_vectors(ix, c, atoms)
        if vectors is None:
            r.info('%s: attribute correlations of the setup methods not modelled' % c.qual)
        for st, v in paths:
            if vectors and not path_feasible(st.assume, vectors):
                continue
            p = loopvar_problems(st.events, st.attrs, has_mode)
            if p is None:
                continue
            n += 1
            for code in p:
                found.setdefault(code, st)
        if n == 0:
            raise AnalysisError('%s.generate_execution_code has no path that generates the loop body' % c.qual)
        for code in ('no-loop', 'no-close', 'no-counter'):
            if code in found:
                raise AnalysisError('%s.generate_execution_code %s' % (c.qual, TEXT[code]))
        mode = '[from_range]' if has_mode else ''
        for code in ('in-loop', 'after-loop') + (('counter',) if has_mode else ()):
            key = '%s.generate_execution_code%s:%s' % (c.qual, mode, code)
            r.inst(key, sample='%s (%d paths)' % (key, n))
            if code in found:
                st = found[code]
                cond = ', '.join('%s=%s' % (k, v) for k, v in sorted(st.assume.items()) if ' is None' not in k and ('py_loopvar' in k or 'is_py_target' in k or 'from_range' in k))
                r.violate(key, c.module.rel, fn.lineno, '%s.generate_execution_code%s %s%s' % (c.name, ' (range() loop, from_range=True)' if has_mode else '', TEXT[code],
                                                                                           ' [path: %s]' % cond if cond else ''))
    # positive control
    pc = ast.parse(POSITIVE).body[0]
    emu = E.Emu(_FakeIx(), None, unknown_loops='01')
    hit = False
    for st, v in emu.run(None, pc, assume={'self.from_range': True}):
        p = loopvar_problems(st.events, st.attrs, True)
        if p and 'after-loop' in p:
            hit = True
    r.positive_control(hit, 'target re-assigned after the loop')
    return r
