"""C36-RAISEEXIT (round 8) — an emitted statement that SETS a Python exception is followed by leaving the normal control flow.

Mechanism (seed C36l): the code generators write C such as

    if (unlikely(len < N)) {
      __Pyx_RaiseNeedMoreValuesError(...); goto error;
    }
    item = PyList_GET_ITEM(list, len-1);

The exception-setting helper only *sets* the error indicator; what protects the statements after the block (which rely on the tested condition being
false: indices in range, non-NULL pointers, ...) is the jump.  Losing the jump leaves "exception set AND normal path continues" - out-of-bounds reads,
NULL dereferences, results returned with an exception set.

Decided here, per generator function of Cython/Compiler and per emission of an exception-setting call (`__Pyx_Raise*`, `PyErr_SetString`, `PyErr_Format`,
`PyErr_SetNone`, `PyErr_SetObject`, `PyErr_NoMemory`): on every path of the *generator* (Python AST, both arms of every `if`, loops zero / one time) the
C text emitted after the call is scanned as a token stream with its block structure ({ } across emissions, `else` arms of the raising `if` skipped):
  * an unconditional exit (`goto`, `return`, `break`, `continue`, `__PYX_ERR`, a `code.error_goto(...)` placeholder, `code.put_goto(...)`) emitted in the
    block of the raise or - after that block closed - in an enclosing block DISCHARGES the obligation;
  * a plain C statement emitted after the block that contains the raise has closed (and outside any newly opened nested block), before such an exit,
    is the VIOLATION: it executes with the exception set;
  * reaching the end of the generator function first hands the obligation to the callers (counted, reported as information: not decided).
Statements inside the raise's own block (cleanup such as Py_DECREF before the goto) and conditional statements are neutral.
Keyed by generator function + helper name; independent of variable names, string formatting style, statement order of unrelated emissions.
"""
import ast, re

from ..core import Rule, AnalysisError
from ..engine.pyindex import walk_no_nested
from .iface import str_template, PLACEHOLDER, local_env

RAISE_RE = re.compile(r'\b(__Pyx_Raise[A-Z]\w*|PyErr_SetString|PyErr_Format|PyErr_SetNone|PyErr_SetObject|PyErr_NoMemory)\s*\(')
EMITTERS = ('putln', 'put', 'put_safe', 'putln_openmp')
EXIT_TOKEN = ' goto __pyx_EXIT; '
CONDEXIT_TOKEN = ' if (__pyx_COND) goto __pyx_EXIT; '
EXIT_STMT = re.compile(r'^(?:goto\b|return\b|break$|continue$|__PYX_ERR\s*\(|__Pyx_ErrOccurredWithGIL\b.*\bgoto\b|CYTHON_UNREACHABLE\b|abort\s*\(|Py_FatalError\s*\(|__Pyx_FatalError\s*\()')
MODULES = ('ExprNodes', 'Nodes', 'ModuleNode', 'Code', 'Buffer', 'MemoryView', 'FusedNode', 'PyrexTypes', 'UtilNodes', 'Builtin', 'TypeSlots', 'Optimize')


class _Open(Exception):
    pass


def _attr_call(n):
    return n.func.attr if isinstance(n, ast.Call) and isinstance(n.func, ast.Attribute) else None


def _exit_kind(node, env, depth=0):
    """'exit' / 'cond' if the expression evaluates to the text of an (un)conditional error jump, else None"""
    a = _attr_call(node)
    if a is not None:
        if a == 'error_goto':
            return 'exit'
        if a.startswith('error_goto_if') or a in ('error_goto_if_null', 'error_goto_if_neg', 'error_goto_if_PyErr'):
            return 'cond'
    if isinstance(node, ast.Name) and env is not None and depth < 3:
        vals = env.get(node.id)
        if vals:
            kinds = {_exit_kind(v, env, depth + 1) for v in vals}
            if len(kinds) == 1:
                return kinds.pop()
    return None


def c_clean(text):
    """blank C string / char literals and comments"""
    text = re.sub(r'"(?:\\.|[^"\\])*"', '""', text)
    text = re.sub(r"'(?:\\.|[^'\\])'", "'c'", text)
    text = re.sub(r'/\*.*?\*/', ' ', text, flags=re.S)
    text = re.sub(r'//[^\n]*', ' ', text)
    return text


def template_of(node, env, depth=0):
    """C text of an emitted expression with exits substituted; None if not a string template"""
    k = _exit_kind(node, env)
    if k == 'exit':
        return EXIT_TOKEN
    if k == 'cond':
        return CONDEXIT_TOKEN
    if isinstance(node, ast.Name) and env is not None and depth < 3:
        vals = env.get(node.id)
        if vals and len(vals) == 1:
            return template_of(vals[0], env, depth + 1)
        return None
    if isinstance(node, ast.IfExp):
        return None
    t = str_template(node)
    if t is None:
        return None
    text, phs = t
    parts = text.split(PLACEHOLDER)
    if len(parts) != len(phs) + 1:
        return None
    out = parts[0]
    for ph, rest in zip(phs, parts[1:]):
        sub = None
        if ph is not None:
            k = _exit_kind(ph, env)
            if k == 'exit':
                sub = EXIT_TOKEN
            elif k == 'cond':
                sub = CONDEXIT_TOKEN
            elif isinstance(ph, ast.Name) and env is not None and depth < 3:
                vals = env.get(ph.id)
                if vals and len(vals) == 1 and isinstance(vals[0], (ast.Constant, ast.JoinedStr, ast.BinOp)):
                    sub = template_of(vals[0], env, depth + 1)
                elif vals and len(vals) > 1:
                    subs = [template_of(v, env, depth + 1) for v in vals if isinstance(v, (ast.Constant, ast.JoinedStr, ast.BinOp))]
                    # several possible texts: keep them only if none raises / exits (otherwise the site is evaluated through its own literal)
                    sub = None
        if sub is None and ph is not None and _attr_call(ph) in ('unlikely', 'likely') and len(ph.args) == 1 and depth < 3:
            sub = template_of(ph.args[0], env, depth + 1)
        out += (sub if sub is not None else ' %s ' % ph_ident(ph)) + rest
    return out


def ph_ident(ph):
    """C identifier standing for a dynamic part of an emitted text: equal expressions of the generator get equal identifiers"""
    if ph is None:
        return '__pyx_PHX_unknown'
    try:
        txt = ast.unparse(ph)
    except Exception:
        return '__pyx_PHX_unknown'
    return '__pyx_PH_' + re.sub(r'\W+', '_', txt).strip('_')


STOP_IDS = {'unlikely', 'likely', 'NULL', 'Py_None', 'sizeof', 'if', 'else', 'int', 'long', 'size_t', 'Py_ssize_t', 'PyObject', 'void', 'char', 'unsigned', 'const',
            '__pyx_PHX_unknown', '__pyx_COND', '__pyx_EXIT', 'goto', 'c'}


def idents(text):
    return {m for m in re.findall(r'[A-Za-z_]\w*', text) if m not in STOP_IDS and not re.match(r'^(?:Py[A-Z_]|__Pyx_|CYTHON_|PY_)', m)}


class Scan:
    """token scanner over the C text emitted after a raise call (starts inside the call's parentheses)"""

    def __init__(self, conditional, guard=None):
        self.guard = guard                # identifiers of the condition that guards the raise (None: unknown)
        self.depth = 0
        self.floor = 0
        self.paren = 1
        self.buf = ''
        self.in_raise = True
        self.conditional = conditional    # the raise is the unbraced body of an `if (...)`
        self.skip_to = None               # skipping an else arm: depth to return to
        self.skip_stmt = False
        self.heads = []
        self.result = None                # 'ok' | ('bad', statement)
        self.just_escaped = False
        self.escaped = False
        self.deferred = False

    def copy(self):
        s = Scan(self.conditional, self.guard)
        s.__dict__.update(self.__dict__)
        s.heads = list(self.heads)
        return s

    def feed(self, text):
        for line in text.split('\n'):
            if line.lstrip().startswith('#'):
                continue                # preprocessor line: both alternatives are scanned as if present
            for ch in line + '\n':
                self._ch(ch)
                if self.result is not None:
                    return

    def _ch(self, ch):
        if ch == '(':
            self.paren += 1
            self.buf += ch
        elif ch == ')':
            self.paren = max(0, self.paren - 1)
            self.buf += ch
        elif self.paren > 0:
            self.buf += ch
        elif ch == ';':
            s = ' '.join(self.buf.split())
            self.buf = ''
            self._stmt(s)
        elif ch == '{':
            head = ' '.join(self.buf.split())
            self.buf = ''
            if self.skip_to is None and self.depth == self.floor and self.just_escaped and re.match(r'^else\b', head):
                self.skip_to = self.depth
            self.heads.append(head)
            self.depth += 1
        elif ch == '}':
            self.buf = ''
            self.depth -= 1
            if self.heads:
                self.heads.pop()
            if self.skip_to is not None:
                if self.depth == self.skip_to:
                    self.skip_to = None
                    self.just_escaped = True
                return
            if self.depth < self.floor:
                self.floor = self.depth
                self.just_escaped = True
        else:
            self.buf += ch

    def _stmt(self, s):
        if self.in_raise:
            self.in_raise = False
            if self.conditional:
                self.escaped = True     # unbraced `if (...) raise();`: the statement itself was the raising block
                self.just_escaped = True
            return
        if self.skip_to is not None:
            return
        if not s:
            return
        escaped = self.floor < 0 or self.escaped
        if self.depth == self.floor and self.just_escaped and re.match(r'^else\b', s):
            return                      # `else stmt;` arm of the raising if: not executed after the raise
        m = re.match(r'^(?:else\s+)?if\s*\(', s)
        body = s
        cond = False
        if m:
            # strip the balanced condition
            i, lvl = m.end(), 1
            while i < len(s) and lvl:
                lvl += s[i] == '('
                lvl -= s[i] == ')'
                i += 1
            body, cond = s[i:].strip(), True
        if self.depth > self.floor or cond:
            return                      # conditional on something tested after the raise: neutral
        self.just_escaped = False
        if EXIT_STMT.match(body):
            self.result = 'ok'
            return
        if escaped and self.guard and (idents(s) & self.guard):
            self.result = ('bad', s)        # the rejected value is used
        elif escaped and not self.deferred and not re.match(r'^(?:\w+\s*=\s*)+(?:0|NULL)$', s):
            self.result = ('bad', s)

    def key(self):
        return (self.depth, self.floor, self.paren, self.buf, self.in_raise, self.skip_to, self.just_escaped, self.escaped, self.result if self.result is None else str(self.result))


def _emission(stmt_call, env):
    """(kind, text): kind 'text' | 'exit' | 'other' for a call node"""
    a = _attr_call(stmt_call)
    if a in EMITTERS and stmt_call.args:
        t = template_of(stmt_call.args[0], env)
        if t is None:
            return 'unknown', None
        return 'text', c_clean(t)
    if a == 'put_goto':
        return 'text', EXIT_TOKEN
    if a is not None and (a.startswith('put_error_if') or a.startswith('error_goto')):
        return 'text', CONDEXIT_TOKEN
    return 'other', None


def _calls_in_order(stmt):
    """emission-relevant call nodes of a simple statement in evaluation order (arguments before the call)"""
    out = []

    def rec(n):
        for c in ast.iter_child_nodes(n):
            if isinstance(c, (ast.FunctionDef, ast.Lambda, ast.ClassDef)):
                continue
            rec(c)
        if isinstance(n, ast.Call):
            out.append(n)
    rec(stmt)
    return out


class Walker:
    MAXPATHS = 3000

    def __init__(self, fn, env):
        self.fn, self.env = fn, env
        self.paths = 0
        self.seen = set()
        self.outcomes = []      # 'ok' | ('bad', stmt, line) | 'open'

    def run_from(self, chain, scan):
        """chain: [(stmt list, index of the statement containing the raise)] outermost first; scan: state after the raise text"""
        conts = []
        for stmts, i, loop in chain:
            conts.append((stmts[i + 1:], loop))
        # innermost first
        self._go(list(reversed(conts)), scan)

    def _go(self, conts, scan):
        """conts: list of (remaining statements, enclosing loop flag), innermost first"""
        if scan.result is not None:
            self._done(scan)
            return
        if self.paths > self.MAXPATHS:
            raise _Open('too many generator paths')
        while conts and not conts[0][0]:
            conts = conts[1:]
        if not conts:
            self.paths += 1
            self.outcomes.append('open')
            return
        k = (tuple((id(c[0][0]) if c[0] else 0, len(c[0])) for c in conts), scan.key())
        if k in self.seen:
            return
        self.seen.add(k)
        (stmts, loop), rest = conts[0], conts[1:]
        s, after = stmts[0], (stmts[1:], loop)
        if isinstance(s, ast.If):
            self._go([(s.body, False), after] + rest, scan.copy())
            self._go([(s.orelse, False), after] + rest, scan.copy())
        elif isinstance(s, (ast.For, ast.While)):
            self._go([(s.body, True), after] + rest, scan.copy())
            self._go([(s.orelse, False), after] + rest, scan.copy())
        elif isinstance(s, ast.With):
            sc = scan.copy()
            self._simple(s.items[0].context_expr, sc)
            self._go([(s.body, False), after] + rest, sc)
        elif isinstance(s, ast.Try):
            self._go([(s.body + s.orelse + s.finalbody, False), after] + rest, scan.copy())
        elif isinstance(s, ast.Return):
            sc = scan.copy()
            if s.value is not None:
                self._simple(s.value, sc)
            if sc.result is not None:
                self._done(sc)
            else:
                self.paths += 1
                self.outcomes.append('open')
        elif isinstance(s, ast.Raise):
            self.paths += 1
            self.outcomes.append('ok')
        elif isinstance(s, (ast.Break, ast.Continue)):
            # leave the innermost loop body: drop continuations up to and including the loop body
            k = 0
            while k < len(conts) and not conts[k][1]:
                k += 1
            self._go(conts[k + 1:], scan)
        elif isinstance(s, (ast.FunctionDef, ast.ClassDef)):
            self._go([after] + rest, scan)
        else:
            sc = scan.copy()
            self._simple(s, sc, line=getattr(s, 'lineno', 0))
            self._go([after] + rest, sc)

    def _simple(self, node, scan, line=0):
        for c in _calls_in_order(node):
            kind, text = _emission(c, self.env)
            if kind == 'text':
                scan.feed(text + '\n')
                if scan.result is not None:
                    scan.line = getattr(c, 'lineno', line)
                    return

    def _done(self, scan):
        self.paths += 1
        if scan.result == 'ok':
            self.outcomes.append('ok')
        else:
            self.outcomes.append(('bad', scan.result[1], getattr(scan, 'line', 0)))


def _chain_to(fn, target):
    """[(statement list, index, is loop body)] from fn.body down to the simple statement containing `target`"""
    def rec(stmts, loop):
        for i, s in enumerate(stmts):
            if isinstance(s, (ast.FunctionDef, ast.ClassDef)) and s is not fn:
                continue
            inside = any(n is target for n in ast.walk(s))
            if not inside:
                continue
            here = [(stmts, i, loop)]
            for fld in ('body', 'orelse', 'finalbody'):
                sub = getattr(s, fld, None)
                if isinstance(sub, list) and sub and isinstance(sub[0], ast.stmt):
                    r = rec(sub, isinstance(s, (ast.For, ast.While)) and fld == 'body')
                    if r is not None:
                        return here + r
            if isinstance(s, ast.Try):
                for h in s.handlers:
                    r = rec(h.body, False)
                    if r is not None:
                        return here + r
            return here
        return None
    return rec(fn.body, False)


def _opener_in(text):
    """scan `text` backwards for the `{` that is still open at its end -> (head text of that block, None) or (None, number of unmatched closers)"""
    bal = 0
    for i in range(len(text) - 1, -1, -1):
        ch = text[i]
        if ch == '}':
            bal += 1
        elif ch == '{':
            if bal == 0:
                before = text[:i]
                cut = max(before.rfind(';'), before.rfind('{'), before.rfind('}'))
                return before[cut + 1:], None
            bal -= 1
    return None, bal


def _emitted_before(fn, call, env):
    """texts emitted before `call` in the blocks enclosing it, nearest first; stops (yields None) at anything not modelled"""
    chain = _chain_to(fn, call)
    if chain is None:
        yield None
        return
    for stmts, i, loop in reversed(chain):
        for s in reversed(stmts[:i]):
            if isinstance(s, (ast.FunctionDef, ast.ClassDef)):
                continue
            if isinstance(s, (ast.If, ast.For, ast.While, ast.Try, ast.With)):
                texts = [t for c in _calls_in_order(s) for k, t in [_emission(c, env)] if k == 'text']
                if any('{' in t or '}' in t for t in texts):
                    yield None          # a compound generator statement that opens / closes C blocks: not modelled
                    return
                continue
            for c in reversed(_calls_in_order(s)):
                k, t = _emission(c, env)
                if k == 'unknown':
                    yield None
                    return
                if k == 'text':
                    yield '\n'.join(l for l in t.split('\n') if not l.lstrip().startswith('#'))


def guard_of(fn, call, text_before, env):
    """(identifiers of the C condition guarding the block the raise is emitted into | None, identifiers of all enclosing `if` conditions found)"""
    heads = []
    m = re.search(r'(?:^|[;{}])\s*(?:else\s+)?if\s*\(((?:[^;{}])*)\)\s*$', text_before, flags=re.S)
    if m:
        heads.append('if (%s)' % m.group(1))
    # all blocks still open at the raise, innermost first
    text = text_before
    pending = iter(_emitted_before(fn, call, env))
    bal = 0
    known = True
    while True:
        h, b = _opener_in(text + '}' * bal)
        if h is not None:
            heads.append(h)
            # continue left of this opener
            full = text + '}' * bal
            idx = None
            bb = 0
            for i in range(len(full) - 1, -1, -1):
                if full[i] == '}':
                    bb += 1
                elif full[i] == '{':
                    if bb == 0:
                        idx = i
                        break
                    bb -= 1
            text, bal = full[:idx], 0
            continue
        bal = b
        nxt = next(pending, 'END')
        if nxt is None:
            known = False
            break
        if nxt == 'END':
            break
        text = nxt
    def cond_ids(head):
        mm = re.search(r'\bif\s*\((.*)\)\s*$', head, flags=re.S)
        return idents(mm.group(1)) if mm else None
    inner = cond_ids(heads[0]) if heads else None
    outer = set()
    for h in heads:
        outer |= (cond_ids(h) or set())
    return (inner or None), outer


def deferred_exit_evidence(fn, call, outer, env):
    """a conditional error exit emitted later by the generator whose operand is tested by a condition enclosing the raise (the `retcode < 0 ... goto` idiom)"""
    if not outer:
        return False
    for n in walk_no_nested(fn):
        a = _attr_call(n)
        if a and (a.startswith('error_goto_if') or a.startswith('put_error_if')) and getattr(n, 'lineno', 0) >= call.lineno:
            for arg in n.args:
                t = template_of(arg, env) if not isinstance(arg, ast.Name) else None
                ids = idents(t) if t else set()
                ids.add(ph_ident(arg))
                if ids & outer:
                    return True
    return False


def sites_of(fn):
    """[(call node, helper name, scan state after the raise, key)] for every exception-setting call emitted by fn"""
    env = local_env(fn)
    out = []
    for n in walk_no_nested(fn):
        if not (isinstance(n, ast.Call) and _attr_call(n) in EMITTERS and n.args):
            continue
        t = template_of(n.args[0], env)
        if t is None:
            continue
        text = c_clean(t)
        for m in RAISE_RE.finditer(text):
            before = text[:m.start()]
            cut = max(before.rfind(';'), before.rfind('{'), before.rfind('}'))
            prefix = before[cut + 1:]
            conditional = bool(re.match(r'^\s*(?:else\s+)?if\s*\(.*\)\s*$', prefix, flags=re.S))
            inner, outer = guard_of(fn, n, before, env)
            sc = Scan(conditional, inner)
            sc.deferred = deferred_exit_evidence(fn, n, outer, env)
            sc.feed(text[m.end():] + '\n')
            out.append((n, m.group(1), sc, env))
    return out


def analyse_function(fn):
    """-> [(helper, call node, outcomes list)]"""
    res = []
    for call, helper, sc, env in sites_of(fn):
        w = Walker(fn, env)
        if sc.result is not None:
            w._done(sc)
        else:
            chain = _chain_to(fn, call)
            if chain is None:
                res.append((helper, call, ['open']))
                continue
            try:
                w.run_from(chain, sc)
            except _Open:
                w.outcomes.append('open')
        res.append((helper, call, w.outcomes))
    return res


POSITIVE = '''
def gen(self, code):
    code.putln("if (unlikely(%s < %d)) {" % (n, 2))
    code.putln("__Pyx_RaiseNeedMoreValuesError(%d+%s);" % (1, n))
    code.putln('}')
    for item in items:
        code.putln("%s = PyList_GET_ITEM(%s, %s-%d); " % (item, lst, n, 1))
'''
NEGATIVE = '''
def gen(self, code):
    code.putln("if (unlikely(%s < %d)) {" % (n, 2))
    msg = "__Pyx_RaiseNeedMoreValuesError(%d+%s);" % (1, n)
    code.putln(msg)
    code.put_decref(x)
    if fancy:
        code.putln(code.error_goto(self.pos))
    else:
        code.put_goto(code.error_label)
    code.putln('}')
    code.putln("%s = PyList_GET_ITEM(%s, %s-%d); " % (item, lst, n, 1))
'''


def rule_raise_exit(ctx, floor=40):
    r = Rule('C36-RAISEEXIT', 'every emitted exception-setting call (__Pyx_Raise*, PyErr_Set*, PyErr_Format, PyErr_NoMemory) is followed, on every path of its generator, by an '
             'unconditional exit (goto / return / error_goto) before a statement after the raising block executes with the exception set', floor)
    ix = ctx.index
    nopen = 0
    for mname in MODULES:
        try:
            m = ix.mod(mname)
        except Exception:
            raise AnalysisError('C36-RAISEEXIT: module %s not found' % mname)
        for qual, owner, fn in ix.functions_of(m):
            for helper, call, outcomes in analyse_function(fn):
                key = '%s.%s:%s' % (mname, qual, helper)
                bad = [o for o in outcomes if isinstance(o, tuple)]
                op = [o for o in outcomes if o == 'open']
                r.inst(key, sample='%s: %d generator path(s), %s' % (key, len(outcomes), 'exit emitted' if not bad and not op else ('handed to callers' if not bad else 'VIOLATED')),
                       nontrivial=not op or bool(bad))
                if bad:
                    _, stmt, line = bad[0]
                    r.violate(key, m.rel, line or call.lineno,
                              '%s.%s emits `%s(...)` (sets a Python exception) inside a C block, the block closes without a jump (goto error / return), and the generator then emits '
                              '`%s` on the normal path: the statements after the check run with the condition the check rejected (out-of-range index, NULL pointer, ...) and an exception '
                              'set - invalid memory access / SystemError instead of the Python exception (%d of %d generator paths)' % (mname, qual, helper, stmt[:90], len(bad), len(outcomes)))
                elif op:
                    nopen += 1
    if nopen:
        r.info('%d raise emission(s) end their generator function before an exit or a further statement is emitted: the obligation lies with the callers (not decided)' % nopen)
    pos = analyse_function(ast.parse(POSITIVE).body[0])
    neg = analyse_function(ast.parse(NEGATIVE).body[0])
    r.positive_control(bool(pos) and any(isinstance(o, tuple) for o in pos[0][2]) and bool(neg) and all(o == 'ok' for o in neg[0][2]),
                       'a raise whose block closes without a jump before PyList_GET_ITEM is reported; the same with error_goto / put_goto on both arms is not')
    return r
