"""C23 round 10 (batch 12, seed C23o): error-result discipline of the coroutine helpers.

C23-ERRRESULT.  A helper of Coroutine.c / AsyncGen.c that returns a C `int` and whose return statements produce both -1 (exception set) and 0
(`return -1;` ... `return 0;`, or `return failed ? -1 : 0;`) reports "an exception is pending" through its result.  What the caller does next depends on it: `__Pyx_Coroutine_Close`
may raise GeneratorExit inside the body only when closing the delegate did *not* fail - otherwise the delegate's exception has to be
what the body sees (PEP 380; CPython's gen_close).  The rule is an error-discipline check over the file's own helpers, with the rule
instances taken from the code (which functions are fallible) and not from a list:

  for every call of a fallible helper inside another function of the two files, the result is
    - used directly in a condition / return / larger expression, or
    - stored in a variable that is *read* afterwards in the same function,
  and is never dropped (expression statement, `(void)` cast) or stored in a variable nobody reads.

The seed removed `err = ...CloseIter(...)` / `if (err == 0)` in front of `PyErr_SetNone(PyExc_GeneratorExit)`, so a failing
delegate.close() was overwritten by GeneratorExit and outer.close() returned None.

Accepted idiom: the result is dropped but the helper also reports through an out-parameter (`&val`, left NULL on failure) that the
caller reads afterwards (__Pyx_Coroutine_FinishDelegation: "val == NULL on failure => pass on exception").

Silent on: renamed result variable, test written as `if (!err)`, `if (unlikely(CloseIter(...) < 0))`, result returned directly,
result combined (`err |= ...`, read later).
"""
import re

from ..core import Rule, AnalysisError
from ..engine.cutil import strip_c_comments, match_paren
from .sC23 import _coro_functions


def fallible_helpers(decls):
    out = {}
    for n, d in decls.items():
        ret = ' '.join((d.ret or '').replace('static', ' ').replace('CYTHON_INLINE', ' ').replace('CYTHON_UNUSED', ' ').split())
        if ret != 'int':
            continue
        body = strip_c_comments(d.body)
        rets = ' ; '.join(re.findall(r'\breturn\b([^;]*);', body))
        if re.search(r'(?<![\w)])-\s*1\b', rets) and re.search(r'(?<![\w.])0\b', rets):
            out[n] = d
    return out


def _stmt_prefix(body, pos):
    """text between the start of the statement that contains `pos` and `pos`"""
    depth = 0
    i = pos - 1
    while i >= 0:
        c = body[i]
        if c == ')':
            depth += 1
        elif c == '(':
            if depth == 0:
                # inside an open parenthesis: part of a larger expression (condition, argument)
                return None
            depth -= 1
        elif c in ';{}' and depth == 0:
            break
        i -= 1
    return body[i + 1:pos]


def classify_call(body, pos, end):
    """-> ('used', None) | ('dropped', how) | ('stored', var)"""
    pre = _stmt_prefix(body, pos)
    if pre is None:
        return 'used', None
    # preprocessor lines and labels in front of the statement do not belong to it
    pre = re.sub(r'^\s*#[^\n]*\n', '', pre, flags=re.M)
    pre = re.sub(r'^\s*(?:[A-Za-z_]\w*\s*:(?!:)\s*)+', '', pre)
    p = pre.strip()
    rest = body[end:].lstrip()
    if p in ('', '(void)', '( void )'):
        if rest.startswith(';'):
            return 'dropped', 'expression statement' if p == '' else '(void) cast'
        return 'used', None
    m = re.fullmatch(r'(?:(?:const\s+)?(?:int|long|Py_ssize_t)\s+)?([A-Za-z_]\w*)\s*(\|?)=', p)
    if m and rest.startswith(';'):
        return 'stored', m.group(1)
    return 'used', None


def _read_later(body, var, after):
    for m in re.finditer(r'\b%s\b' % re.escape(var), body[after:]):
        tail = body[after + m.end():].lstrip()
        if tail.startswith('=') and not tail.startswith('=='):
            continue        # plain re-assignment
        return True
    return False


def rule_errresult(ctx, floor=5):
    r = Rule('C23-ERRRESULT', 'Coroutine.c / AsyncGen.c: the result of every int-returning helper with a `return -1` (exception pending) path is consumed at each call site - '
             'used in a condition / return, or stored in a variable that is read afterwards - never dropped, cast to void or stored unread; in particular '
             '__Pyx_Coroutine_Close raises GeneratorExit in the body only under a test of the result of __Pyx_Coroutine_CloseIter', floor)
    decls = _coro_functions(ctx)
    if '__Pyx_Coroutine_Close' not in decls or '__Pyx_Coroutine_CloseIter' not in decls:
        raise AnalysisError('__Pyx_Coroutine_Close / __Pyx_Coroutine_CloseIter vanished from Coroutine.c')
    fall = fallible_helpers(decls)
    if '__Pyx_Coroutine_CloseIter' not in fall:
        raise AnalysisError('__Pyx_Coroutine_CloseIter is no longer recognised as an int helper with return -1 / return 0 paths')
    pat = re.compile(r'\b(%s)\s*\(' % '|'.join(re.escape(n) for n in sorted(fall)))
    for name, d in sorted(decls.items()):
        body = strip_c_comments(d.body)
        rel = 'Cython/Utility/' + d.file
        seen = {}
        for m in pat.finditer(body):
            callee = m.group(1)
            if callee == name and body[:m.start()].count('{') == 0:
                continue
            close = match_paren(body, m.end() - 1)
            if close is None or close < 0:
                raise AnalysisError('%s: unbalanced call of %s' % (name, callee))
            k = seen[callee] = seen.get(callee, 0) + 1
            key = '%s:%s:%s#%d' % (d.file, name, callee, k)
            kind, what = classify_call(body, m.start(), close + 1)
            r.inst(key, sample='%s -> %s %s' % (key, kind, what or ''))
            line = d.line + body[:m.start()].count('\n')
            if kind == 'dropped':
                # accepted idiom (confirmed by reading __Pyx_Coroutine_FinishDelegation): the failure also travels through an out-parameter
                # (`&val`, NULL on failure) that the caller reads next - "val == NULL on failure => pass on exception"
                outs = [o for o in re.findall(r'&\s*([A-Za-z_]\w*)\b', body[m.end():close]) if _read_later(body, o, close + 1)]
                if outs:
                    r.info('%s: result dropped, failure carried by out-parameter %s' % (key, outs[0]))
                    continue
                r.violate(key, rel, line, '%s: the result of %s (-1 = an exception is pending) is dropped (%s); the code after the call runs as if the helper had succeeded' % (name, callee, what))
            elif kind == 'stored' and not _read_later(body, what, close + 1):
                r.violate(key, rel, line, '%s: the result of %s is stored in `%s`, which is never read afterwards; the code after the call runs as if the helper had succeeded' % (name, callee, what))
    # the one call site the property statement names: GeneratorExit is set only under a test of the stored result
    cb = strip_c_comments(decls['__Pyx_Coroutine_Close'].body)
    d = decls['__Pyx_Coroutine_Close']
    from ..engine import cguard
    sites = [m.start() for m in re.finditer(r'\bPyErr_SetNone\s*\(\s*PyExc_GeneratorExit\s*\)', cb)]
    if not sites:
        raise AnalysisError('__Pyx_Coroutine_Close: PyErr_SetNone(PyExc_GeneratorExit) not found')
    mcall = re.search(r'(?:\b([A-Za-z_]\w*)\s*=\s*)?__Pyx_Coroutine_CloseIter\s*\(', cb)
    var = mcall.group(1) if mcall else None
    for pos in sites:
        key = 'Coroutine.c:__Pyx_Coroutine_Close:GeneratorExit-guard'
        gs = cguard.guards(cb, pos)
        conds = [c for c, pol in gs]
        ok = any((var and re.search(r'\b%s\b' % re.escape(var), c)) or '__Pyx_Coroutine_CloseIter' in c for c in conds)
        r.inst(key, sample='%s under %s (result variable %s)' % (key, conds, var))
        if not ok:
            r.violate(key, 'Cython/Utility/' + d.file, d.line + cb[:pos].count('\n'),
                      '__Pyx_Coroutine_Close sets GeneratorExit without testing the result of __Pyx_Coroutine_CloseIter: a failing close() of the '
                      'delegate is overwritten, the body sees GeneratorExit and outer.close() returns None instead of raising the delegate\'s exception')
    return r
