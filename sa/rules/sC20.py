"""sC20 — two structural clauses of "evaluated exactly once, left to right" outside Optimize.py.

C20-PASTE   writer/reader agreement between the analysis phase and the code generator of one expression node class:
            an operand whose C result text is pasted into emitted *statements* (checks, warnings) besides the computation of the
            node's own result — or more than once into the result expression — is evaluated once per paste unless its result is simple.
            The class's analysis method is the only place that can make it simple (`self.X = self.X.coerce_to_simple(env)`), so for
            every valuation of the flags both phases consult (self attributes, compiler directives, type flags) under which a paste
            path exists, the coercion must have happened.  Both sides are decision tables extracted by partial evaluation (sC14.Emu).

C20-STACK   order typestate of the lists of temporaries that are wrapped around a node in a loop
            (`for t in temps[::-1]: node = EvalWithTempExprNode(t, node)`): the outermost wrapper is evaluated first, so the evaluation order
            of the temporaries is the reverse of the wrapping order; it has to be the source order of the operands they carry.  A list filled
            while iterating the operands is in source order; a list filled while iterating something else (declared parameters, dict keys)
            with operands looked up by key is in that other order and must be re-sorted by a source index before it is wrapped."""
import ast, re, itertools

from ..core import Rule, AnalysisError, node_src
from ..engine import pyflow
from ..engine.pyindex import walk_no_nested
from . import sC14 as E

SIMPLE_COERCIONS = ('coerce_to_simple', 'coerce_to_temp')
RESULT_METHODS = ('generate_result_code', 'calculate_result_code')
SHARED_ATOM = re.compile(r"^(self(\.\w+)+|directive\[.*\])$")


# ================================================================================================================ C20-PASTE
def coercion_sites(ix, modules=('ExprNodes',)):
    """(class, method name, attr) for every `self.X = <...>.coerce_to_simple(env)` in an own method of a node class"""
    out = []
    for ms in modules:
        m = ix.mod(ms)
        for c in sorted(m.classes.values(), key=lambda c: c.name):
            for mname, fn in sorted(c.methods.items()):
                for n in walk_no_nested(fn):
                    if isinstance(n, ast.Assign) and len(n.targets) == 1 and isinstance(n.targets[0], ast.Attribute) and isinstance(n.targets[0].value, ast.Name) \
                            and n.targets[0].value.id == 'self' and isinstance(n.value, ast.Call) and isinstance(n.value.func, ast.Attribute) \
                            and n.value.func.attr in SIMPLE_COERCIONS:
                        out.append((c, mname, n.targets[0].attr))
    seen, res = set(), []
    for c, mname, x in out:
        if (c.qual, mname, x) not in seen:
            seen.add((c.qual, mname, x))
            res.append((c, mname, x))
    return res


def type_table(ix):
    """PyrexTypes class -> (flags {is_x: bool}, has `signed`)"""
    m = ix.mod('PyrexTypes')
    base = m.classes.get('BaseType')
    if base is None:
        raise AnalysisError('PyrexTypes.BaseType vanished')
    out = {}
    for c in m.classes.values():
        mro = ix.mro(c)
        if base not in mro:
            continue
        flags, has_signed = {}, False
        for k in reversed(mro):
            for a, v in k.attrs.items():
                if a.startswith('is_') and isinstance(v, ast.Constant):
                    flags[a] = bool(v.value)
                if a == 'signed':
                    has_signed = True
            if 'signed' in k.self_attrs:
                has_signed = True
        out[c.name] = (flags, has_signed)
    if len(out) < 20 or not any(f.get('is_int') for f, s in out.values()):
        raise AnalysisError('type flag table of PyrexTypes could not be extracted')
    return out


def flags_feasible(assume, ttable):
    """are the assumed type flags of every `<path>.type` satisfiable by one PyrexTypes class?"""
    groups = {}
    for k, v in assume.items():
        m = re.match(r'^(.*\.type)\.(is_\w+|signed)$', k)
        if m:
            groups.setdefault(m.group(1), {})[m.group(2)] = v
    for tp, fl in groups.items():
        ok = False
        for name, (flags, has_signed) in ttable.items():
            if 'signed' in fl and not has_signed:
                continue
            if all(flags.get(f, False) == v for f, v in fl.items() if f != 'signed'):
                ok = True
                break
        if not ok:
            return False
    return True


def _count(text, x):
    """pastes of the C result of operand x inside emitted text"""
    n = 0
    for m in E.MARK.finditer(text):
        n += len(re.findall(r'(?<![\w.])self\.%s\.result\(\)' % re.escape(x), m.group(1)))
    return n


def _eq_compatible(a, b):
    for k, va in a.items():
        vb = b.get(k)
        if vb is None:
            continue
        if va[0] == 'is' and vb[0] == 'is' and va[1] != vb[1]:
            return False
        if va[0] == 'is' and vb[0] == 'not' and va[1] in vb[1]:
            return False
        if vb[0] == 'is' and va[0] == 'not' and vb[1] in va[1]:
            return False
    return True


def _slim(d):
    """drop `x is None` facts that follow from the truth of x"""
    return {k: v for k, v in d.items() if not (k.endswith(' is None') and d.get(k[:-8]) is True)}


def analysis_table(ix, c, mname, x):
    """paths of the analysis method (or constructor) -> [(shared assumptions after the method, eqs, coerced?)]"""
    fn = c.methods[mname]
    emu = E.Emu(ix, c, code_names=(), inline=lambda owner, name: owner is c and not name.startswith('generate_'), unknown_loops='01', max_states=150)
    args = {}
    is_init = mname == '__init__' and x in [a.arg for a in fn.args.args]
    if is_init:
        args[x] = E.U('self.' + x)          # the constructor argument is the operand
    rows = []
    for st, v in emu.run(c, fn, args=args):
        val = st.env.get(x) if is_init and ('self.' + x) not in st.attrs else st.attrs.get('self.' + x)
        coerced = isinstance(val, E.U) and any('.%s(' % w in val.path for w in SIMPLE_COERCIONS)
        post = {k: b for k, b in st.assume.items() if SHARED_ATOM.match(k.replace(' is None', ''))}
        for p in st.written:                       # attributes the analysis leaves with a known constant
            val2 = st.attrs.get(p)
            if SHARED_ATOM.match(p) and E.concrete(val2) and E._scalar(val2):
                post[p] = bool(val2)
                post[p + ' is None'] = val2 is None
        rows.append((_slim(post), dict(st.eqs), coerced, dict(st.assume)))
    return rows


def _texts(st):
    for ev in st.events:
        if ev[0] == 'code' and ev[2] in ('put', 'putln') and ev[3] and isinstance(ev[3][0], str):
            yield ev[3][0]


def codegen_paths(ix, c, xs):
    """own emission methods of class c -> {x: [(entry assumptions, eqs, where, count, sample)]}: the paths that paste the C result of operand x
    more often than one evaluation allows.  A generate_evaluation_code that delegates the evaluation proper to its base class
    (Base.generate_evaluation_code(self, code) / super()) pastes only into additional statements: one paste there is already a second use."""
    out = {x: [] for x in xs}
    own = c.methods
    entry = 'generate_evaluation_code' if 'generate_evaluation_code' in own else None
    if entry:
        emu = E.Emu(ix, c, inline=lambda owner, name: owner is c and name not in RESULT_METHODS, unknown_loops='01', max_states=700)
        for st, v in emu.run(c, own[entry]):
            delegated = any(ev[0] == 'call' and ev[2] == entry and isinstance(ev[1], E.U) and not ev[1].path.startswith('self.') for ev in st.events)
            texts = list(_texts(st))
            for x in xs:
                n, sample = 0, None
                for t in texts:
                    k = _count(t, x)
                    if k and sample is None:
                        sample = E.MARK.sub(lambda m: m.group(1), t)
                    n += k
                if n >= (1 if delegated else 2):
                    out[x].append((_slim(st.entry), dict(st.eqs), ('a statement emitted by %s besides the evaluation it delegates to the base class' if delegated
                                                                   else 'the statements emitted by %s') % entry, n, sample))
    if 'calculate_result_code' in own:
        emu = E.Emu(ix, c, inline=lambda owner, name: owner is c, unknown_loops='01', max_states=300)
        for st, v in emu.run(c, own['calculate_result_code']):
            if isinstance(v, str):
                for x in xs:
                    n = _count(v, x)
                    if n >= 2:
                        out[x].append((_slim(st.entry), dict(st.eqs), 'the result expression of calculate_result_code', n, E.MARK.sub(lambda m: m.group(1), v)))
    return out


def writers(ix, c, x):
    """[(owner class, method name)] along the MRO where operand x is made simple"""
    res = []
    for k in ix.mro(c):
        for mname, fn in sorted(k.methods.items()):
            for n in walk_no_nested(fn):
                if not (isinstance(n, ast.Assign) and len(n.targets) == 1 and isinstance(n.value, ast.Call) and isinstance(n.value.func, ast.Attribute)
                        and n.value.func.attr in SIMPLE_COERCIONS):
                    continue
                t = n.targets[0]
                if isinstance(t, ast.Attribute) and isinstance(t.value, ast.Name) and t.value.id == 'self' and t.attr == x:
                    res.append((k, mname))
                elif mname == '__init__' and isinstance(t, ast.Name) and t.id == x and x in [a.arg for a in fn.args.args]:
                    res.append((k, mname))
    out = []
    for w in res:
        if w not in out:
            out.append(w)
    return out


def paste_violations(rows, cpaths, ttable, max_free=12):
    """-> [(codegen path, sigma)] : valuations under which a paste path exists and every analysis path leaves the operand uncoerced"""
    atoms = sorted({k for a, eq, co, full in rows for k in a})
    if len(atoms) > max_free:
        raise E.Unmodelled('%d shared flags' % len(atoms))
    out = []
    for cass, ceqs, where, n, sample in cpaths:
        if not flags_feasible(cass, ttable):
            continue
        fixed = {k: cass[k] for k in atoms if k in cass}
        free = [k for k in atoms if k not in fixed]
        hit = None
        for vals in itertools.product((True, False), repeat=len(free)):
            sigma = dict(fixed)
            sigma.update(zip(free, vals))
            bad = False
            for k, v in sigma.items():          # `x is None` true excludes `x` true
                if k.endswith(' is None') and v and sigma.get(k[:-8]) is True:
                    bad = True
            if bad:
                continue
            both = dict(cass)
            both.update(sigma)
            if not flags_feasible(both, ttable):
                continue
            match = [(a, eq, co) for a, eq, co, full in rows if all(sigma.get(k) == v for k, v in a.items()) and _eq_compatible(eq, ceqs)]
            if match and not any(co for a, eq, co in match):
                hit = both
                break
        if hit is not None:
            out.append(((cass, ceqs, where, n, sample), hit))
    return out


PASTE_POSITIVE = '''
class FakeNode(ExprNode):
    def analyse_operation(self, env):
        if not self.type.is_pyobject:
            self.check = self.flag is None and not env.directives['fast']
            if env.directives['warn']:
                self.operand1 = self.operand1.coerce_to_simple(env)
        return self

    def generate_evaluation_code(self, code):
        ExprNode.generate_evaluation_code(self, code)
        if not self.type.is_pyobject:
            if self.check:
                code.putln("if (unlikely(BAD(%s))) {" % self.operand1.result())
                code.putln("}")

    def calculate_result_code(self):
        return "op(%s)" % self.operand1.result()
'''


class _OneClassIx:
    """index over one synthetic class (positive control)"""
    def __init__(self, cls_node):
        class C:
            pass
        c = C()
        c.name, c.qual, c.methods = cls_node.name, cls_node.name, {f.name: f for f in cls_node.body if isinstance(f, ast.FunctionDef)}
        c.attrs, c.self_attrs = {}, set()
        self.c = c

    def find_class_attr(self, c, n):
        return None

    def mro(self, c):
        return [self.c]

    def find_method(self, c, n):
        return (self.c, self.c.methods[n]) if n in self.c.methods else None


def rule_paste(ctx, floor=3, modules=('ExprNodes',)):
    ix = ctx.index
    r = Rule('C20-PASTE', 'an operand whose result text the code generator of a node class pastes into emitted statements besides the evaluation proper (or twice into the result '
             'expression) has been made simple (coerce_to_simple/coerce_to_temp) by the class\'s analysis method or constructor under every valuation of the shared flags that admits the paste', floor)
    ttable = type_table(ix)
    nclasses = 0
    for ms in modules:
        m = ix.mod(ms)
        for c in sorted(m.classes.values(), key=lambda c: c.name):
            if 'generate_evaluation_code' not in c.methods and 'calculate_result_code' not in c.methods:
                continue
            sub = ix.class_list_attr(c, 'subexprs')
            if not sub or not sub[1]:
                continue
            nclasses += 1
            # cheap syntactic prefilter: no own method asks anything but `self` for its C result text -> nothing can be pasted
            if not any(isinstance(n, ast.Call) and isinstance(n.func, ast.Attribute) and n.func.attr == 'result'
                       and not (isinstance(n.func.value, ast.Name) and n.func.value.id == 'self')
                       for fn in c.methods.values() for n in ast.walk(fn)):
                continue
            try:
                demand = codegen_paths(ix, c, sub[1])
            except E.Unmodelled as e:
                r.info('not decided: %s (%s)' % (c.qual, e))
                continue
            for x in sub[1]:
                cpaths = demand[x]
                if not cpaths:
                    continue
                key = '%s:%s' % (c.qual, x)
                ws = writers(ix, c, x)
                if not ws:
                    r.inst(key, sample='%s: %d paste path(s), no coercion' % (key, len(cpaths)))
                    cass, ceqs, where, n, sample = cpaths[0]
                    r.violate(key, c.module.rel, c.node.lineno,
                              '%s pastes self.%s.result() into %s (%d time(s), e.g. `%s`), but no method of the class makes the operand simple (coerce_to_simple/coerce_to_temp): '
                              'a non-simple C operand (e.g. a call of a cdef function) is evaluated once per paste' % (c.name, x, where, n, (sample or '').strip()[:120]))
                    continue
                if len(ws) != 1:
                    r.info('not decided: %s (made simple in several methods: %s)' % (key, ', '.join('%s.%s' % (k.name, mn) for k, mn in ws)))
                    continue
                wk, wm = ws[0]
                try:
                    rows = analysis_table(ix, wk, wm, x)
                    viol = paste_violations(rows, cpaths, ttable)
                except E.Unmodelled as e:
                    r.info('not decided: %s (%s.%s: %s)' % (key, wk.name, wm, e))
                    continue
                r.inst(key, sample='%s: %d paste path(s) vs %d path(s) of %s.%s' % (key, len(cpaths), len(rows), wk.name, wm))
                atoms = {k for a, eq, co, full in rows for k in a}
                seen = set()
                for (cass, ceqs, where, n, sample), both in viol:
                    if where in seen:
                        continue
                    seen.add(where)
                    cond = ', '.join('%s=%s' % (k, v) for k, v in sorted(both.items()) if k in atoms and ' is None' not in k)
                    r.violate(key, wk.module.rel, wk.methods[wm].lineno,
                              '%s pastes self.%s.result() into %s (%d time(s), e.g. `%s`), but for %s %s.%s does not make the operand simple: a non-simple C operand '
                              '(e.g. a call of a cdef function) is evaluated once per paste, and later operands that were moved to temporaries run before it'
                              % (c.name, x, where, n, (sample or '').strip()[:120], cond or 'every flag valuation', wk.name, wm))
    if nclasses < 30:
        raise AnalysisError('only %d expression node classes with own code generation and operands found' % nclasses)
    # positive control
    cn = ast.parse(PASTE_POSITIVE).body[0]
    fix = _OneClassIx(cn)
    try:
        cp = codegen_paths(fix, fix.c, ['operand1'])['operand1']
        rows = analysis_table(fix, fix.c, 'analyse_operation', 'operand1')
        pv = paste_violations(rows, cp, ttable)
    except E.Unmodelled:
        pv = []
    r.positive_control(any(s.get('self.check') is True and s.get("directive['warn']") is False for _, s in pv), 'operand pasted under a flag the analysis does not coerce for')
    return r


# ================================================================================================================ C20-STACK
WRAPPERS = ('LetNode', 'EvalWithTempExprNode')
PURE_BUILTINS = ('sorted', 'reversed', 'list', 'tuple', 'len', 'enumerate', 'zip', 'any', 'all', 'bool', 'isinstance', 'sum', 'min', 'max', 'map', 'filter', 'iter', 'set', 'frozenset')
FLIP = {'ASC': 'DESC', 'DESC': 'ASC'}


def _src(e):
    """identity of a source sequence expression"""
    return ast.unparse(e)


def _callee(c):
    f = c.func
    return f.attr if isinstance(f, ast.Attribute) else f.id if isinstance(f, ast.Name) else None


def _neg_slice(e):
    """seq[::-1] / seq[-2::-1] ... -> seq"""
    if isinstance(e, ast.Subscript) and isinstance(e.slice, ast.Slice) and e.slice.step is not None:
        st = e.slice.step
        if isinstance(st, ast.UnaryOp) and isinstance(st.op, ast.USub) and isinstance(st.operand, ast.Constant) and st.operand.value == 1:
            return e.value
    return None


def _iter_shape(e):
    """iteration expression -> (kind, [source exprs], polarity) ; kind in plain|enumerate|zip|other"""
    pol = 'ASC'
    while True:
        inner = _neg_slice(e)
        if inner is not None:
            e, pol = inner, FLIP[pol]
            continue
        if isinstance(e, ast.Call) and _callee(e) == 'reversed' and len(e.args) == 1 and isinstance(e.func, ast.Name):
            e, pol = e.args[0], FLIP[pol]
            continue
        break
    if isinstance(e, ast.Call) and isinstance(e.func, ast.Name) and e.func.id == 'enumerate' and e.args:
        k, srcs, p2 = _iter_shape(e.args[0])
        if k == 'plain' and pol == 'ASC':
            return 'enumerate', srcs, p2
        return 'other', [], None
    if isinstance(e, ast.Call) and isinstance(e.func, ast.Name) and e.func.id == 'zip' and e.args and pol == 'ASC':
        srcs = []
        for a in e.args:
            k, s, p2 = _iter_shape(a)
            if k != 'plain' or p2 != 'ASC':
                return 'other', [], None
            srcs += s
        return 'zip', srcs, 'ASC'
    if isinstance(e, ast.Call) and isinstance(e.func, ast.Name) and e.func.id in ('list', 'tuple', 'iter') and len(e.args) == 1:
        k, srcs, p2 = _iter_shape(e.args[0])
        return k, srcs, (p2 if pol == 'ASC' else FLIP.get(p2))
    if isinstance(e, (ast.Name, ast.Attribute, ast.Subscript)) or (isinstance(e, ast.Call) and isinstance(e.func, ast.Name) and e.func.id == 'range'):
        return 'plain', [e], pol
    return 'other', [], None


def stacking_loops(fn):
    """for T in ITER: X = Wrapper(T-component, X)  ->  [(For node, list expr, iteration polarity, wrapper name)]"""
    out = []
    for n in walk_no_nested(fn):
        if not isinstance(n, ast.For):
            continue
        tnames = {x.id for x in ast.walk(n.target) if isinstance(x, ast.Name)}
        for s in n.body:
            if isinstance(s, ast.Assign) and len(s.targets) == 1 and isinstance(s.targets[0], ast.Name) and isinstance(s.value, ast.Call) \
                    and _callee(s.value) in WRAPPERS and len(s.value.args) == 2 and isinstance(s.value.args[0], ast.Name) and s.value.args[0].id in tnames \
                    and isinstance(s.value.args[1], ast.Name) and s.value.args[1].id == s.targets[0].id:
                kind, srcs, pol = _iter_shape(n.iter)
                out.append((n, srcs[0] if kind == 'plain' and len(srcs) == 1 else None, pol, _callee(s.value)))
                break
    return out


class _Flow(pyflow.Flow):
    """pyflow.Flow with a larger state budget (the facts of this analysis are per variable, so many combinations occur)"""
    LIMIT = 4000

    def _apply(self, node, states):
        out = set()
        for st in states:
            s2 = self.transfer(node, st)
            if s2 is None:
                continue
            out.add(s2)
        if len(out) > self.LIMIT:
            raise pyflow.TooManyStates()
        for c in self._try_collect:
            c |= out
        return out


class _Order:
    """forward typestate of list-valued locals of one function:
       ('ord', L, state, src, tagged)   state in EMPTY | ASC | DESC | PERM | TOP      (order of L relative to the source sequence src)
       ('elem', v, src, how)            v (or a node built from it) is an element of src, reached by iteration ('iter') or by keyed lookup ('lookup')
       ('idx', v, src)                  v is the position of an element in src
       ('dictof', D, src, tagged)       D maps keys to elements of src (tagged: to (position, element) pairs)"""

    def __init__(self, fn):
        self.fn = fn
        self.parent = {}
        for n in ast.walk(fn):
            for ch in ast.iter_child_nodes(n):
                self.parent[ch] = n
        self.loops = {id(l[0]): l for l in stacking_loops(fn)}
        self.params = {a.arg for a in fn.args.args + fn.args.kwonlyargs}
        self.verdicts = {}       # id(For) -> set of (state, src)

    # ---- helpers on states
    @staticmethod
    def get(state, kind, name):
        for f in state:
            if isinstance(f, tuple) and f[0] == kind and f[1] == name:
                return f
        return None

    @staticmethod
    def drop(state, name):
        return {f for f in state if not (isinstance(f, tuple) and f[0] in ('ord', 'elem', 'idx', 'dictof') and f[1] == name)}

    def enclosing_for(self, node):
        n = self.parent.get(node)
        while n is not None and n is not self.fn:
            if isinstance(n, ast.For):
                return n
            if isinstance(n, (ast.FunctionDef, ast.Lambda)):
                return None
            n = self.parent.get(n)
        return None

    def order_of(self, e, state):
        """-> (state, src, tagged) of a list-valued expression"""
        inner = _neg_slice(e)
        if inner is not None:
            st, src, tg = self.order_of(inner, state)
            return FLIP.get(st, st), src, tg
        if isinstance(e, (ast.List, ast.Tuple)):
            return ('EMPTY', None, False) if not e.elts else ('TOP', None, False)
        if isinstance(e, ast.Subscript) and isinstance(e.slice, ast.Slice) and (e.slice.step is None or (isinstance(e.slice.step, ast.Constant) and e.slice.step.value == 1)):
            return self.order_of(e.value, state)        # a forward slice keeps the order
        if isinstance(e, ast.Name):
            f = self.get(state, 'ord', e.id)
            if f is not None:
                return f[2], f[3], f[4]
            return 'TOP', None, False
        if isinstance(e, ast.Attribute):
            return 'ASC', _src(e), False          # a child list of a node (x.args, kwargs.key_value_pairs): the source order by definition
        if isinstance(e, ast.Call) and isinstance(e.func, ast.Name):
            nm = e.func.id
            if nm in ('list', 'tuple') and not e.args:
                return 'EMPTY', None, False
            if nm in ('list', 'tuple') and len(e.args) == 1:
                return self.order_of(e.args[0], state)
            if nm == 'reversed' and len(e.args) == 1:
                st, src, tg = self.order_of(e.args[0], state)
                return FLIP.get(st, st), src, tg
            if nm == 'sorted' and e.args:
                st, src, tg = self.order_of(e.args[0], state)
                kws = {k.arg: k.value for k in e.keywords}
                if st == 'EMPTY':
                    return st, src, tg
                if tg and st in ('ASC', 'DESC', 'PERM') and 'key' not in kws and len(e.args) == 1:
                    rev = kws.get('reverse')
                    if rev is None or (isinstance(rev, ast.Constant) and rev.value is False):
                        return 'ASC', src, True
                    if isinstance(rev, ast.Constant) and rev.value is True:
                        return 'DESC', src, True
                return 'TOP', None, False
            return 'TOP', None, False
        if isinstance(e, (ast.ListComp, ast.GeneratorExp)) and len(e.generators) == 1 and not e.generators[0].is_async:
            g = e.generators[0]
            st, src, tg = self.order_of(g.iter, state)
            if st == 'TOP':
                kind, srcs, pol = _iter_shape(g.iter)
                if kind in ('plain', 'enumerate') and len(srcs) == 1 and not (isinstance(srcs[0], ast.Name) and self.get(state, 'ord', srcs[0].id)):
                    st, src, tg = pol, _src(srcs[0]), False
            # the element keeps the position tag only if it is still a tuple starting with the tag component
            keep = False
            if tg and isinstance(g.target, ast.Tuple) and g.target.elts and isinstance(g.target.elts[0], ast.Name):
                t0 = g.target.elts[0].id
                keep = isinstance(e.elt, ast.Tuple) and e.elt.elts and isinstance(e.elt.elts[0], ast.Name) and e.elt.elts[0].id == t0
            if tg and isinstance(g.target, ast.Name) and isinstance(e.elt, ast.Name) and e.elt.id == g.target.id:
                keep = True
            return st, src, keep
        if isinstance(e, ast.BinOp) and isinstance(e.op, ast.Add):
            a, b = self.order_of(e.left, state), self.order_of(e.right, state)
            sts = [x[0] for x in (a, b) if x[0] != 'EMPTY']
            if not sts:
                return 'EMPTY', None, False
            if 'PERM' in sts:                    # one part definitely out of order: so is the concatenation
                return 'PERM', (a if a[0] == 'PERM' else b)[1], False
            if 'TOP' in sts:
                return 'TOP', None, False
            if len(set(sts)) == 1:
                return sts[0], (a if a[0] != 'EMPTY' else b)[1], False
            return 'TOP', None, False
        return 'TOP', None, False

    def provenance(self, e, state):
        """element facts of the names an expression is built from"""
        out = []
        for n in ast.walk(e):
            if isinstance(n, ast.Name):
                f = self.get(state, 'elem', n.id)
                if f is not None:
                    out.append(f)
        return out

    def bind_loop(self, fornode, s):
        kind, srcs, pol = _iter_shape(fornode.iter)
        for nm in [x.id for x in ast.walk(fornode.target) if isinstance(x, ast.Name)]:
            s = self.drop(s, nm)
        t = fornode.target
        if kind == 'plain' and len(srcs) == 1:
            src = srcs[0]
            base = self.get(s, 'ord', src.id) if isinstance(src, ast.Name) else None
            for nm in [x.id for x in ast.walk(t) if isinstance(x, ast.Name)]:
                s.add(('elem', nm, base[3] if base and base[3] else _src(src), 'iter'))
        elif kind == 'enumerate' and isinstance(t, ast.Tuple) and len(t.elts) == 2 and isinstance(t.elts[0], ast.Name):
            s.add(('idx', t.elts[0].id, _src(srcs[0])))
            for nm in [x.id for x in ast.walk(t.elts[1]) if isinstance(x, ast.Name)]:
                s.add(('elem', nm, _src(srcs[0]), 'iter'))
        elif kind == 'zip' and isinstance(t, ast.Tuple) and len(t.elts) == len(srcs):
            for el, src in zip(t.elts, srcs):
                for nm in [x.id for x in ast.walk(el) if isinstance(x, ast.Name)]:
                    s.add(('elem', nm, _src(src), 'iter'))
        return s

    def driver(self, node, state):
        """the loop that drives an append: (set of source ids, polarity) or None outside loops; ('?', None) when the loop is not understood"""
        f = self.enclosing_for(node)
        if f is None:
            return None
        kind, srcs, pol = _iter_shape(f.iter)
        if kind == 'other' or pol is None:
            return ('?', None)
        ids = set()
        for sx in srcs:
            base = self.get(state, 'ord', sx.id) if isinstance(sx, ast.Name) else None
            if base is not None:
                if base[2] in ('TOP', 'PERM'):
                    return ('?', None)
                if base[2] == 'DESC':
                    pol = FLIP[pol]
                ids.add(base[3] or _src(sx))
            else:
                ids.add(_src(sx))
        return (frozenset(ids), pol)

    def assign_one(self, t, val, s):
        before = set(s)
        if isinstance(t, ast.Name):
            s = self.drop(s, t.id)
            if isinstance(val, ast.DictComp) and len(val.generators) == 1:
                g = val.generators[0]
                kind, srcs, pol = _iter_shape(g.iter)
                if kind == 'enumerate' and isinstance(g.target, ast.Tuple) and len(g.target.elts) == 2 and isinstance(g.target.elts[0], ast.Name):
                    i = g.target.elts[0].id
                    tagged = isinstance(val.value, ast.Tuple) and val.value.elts and i in {x.id for x in ast.walk(val.value.elts[0]) if isinstance(x, ast.Name)}
                    s.add(('dictof', t.id, _src(srcs[0]), bool(tagged)))
                elif kind == 'plain' and len(srcs) == 1:
                    s.add(('dictof', t.id, _src(srcs[0]), False))
            elif isinstance(val, ast.Subscript) and isinstance(val.value, ast.Name) and self.get(before, 'dictof', val.value.id) and not isinstance(val.slice, ast.Slice):
                d = self.get(before, 'dictof', val.value.id)
                if not d[3]:
                    s.add(('elem', t.id, d[2], 'lookup'))
            elif isinstance(val, (ast.List, ast.ListComp, ast.GeneratorExp, ast.BinOp, ast.Subscript, ast.Attribute)) or (isinstance(val, ast.Call) and isinstance(val.func, ast.Name)
                                                                                          and val.func.id in ('list', 'tuple', 'sorted', 'reversed')) \
                    or (isinstance(val, ast.Name) and self.get(before, 'ord', val.id)):
                st, src, tg = self.order_of(val, before)
                s.add(('ord', t.id, st, src, tg))
            else:
                pv = self.provenance(val, before)
                if pv and isinstance(val, (ast.Call, ast.Attribute, ast.Name)):
                    lk = [f for f in pv if f[3] == 'lookup']
                    f = (lk or pv)[0]
                    s.add(('elem', t.id, f[2], f[3]))
        elif isinstance(t, (ast.Tuple, ast.List)):
            if isinstance(val, (ast.Tuple, ast.List)) and len(val.elts) == len(t.elts) and not any(isinstance(x, ast.Starred) for x in t.elts):
                # parallel assignment: right-hand sides are evaluated in the state before the assignment
                before = set(s)
                results = []
                for a, b in zip(t.elts, val.elts):
                    tmp = self.assign_one(a, b, set(before))
                    results.append((a, tmp))
                for a, tmp in results:
                    for x in ast.walk(a):
                        if isinstance(x, ast.Name):
                            s = self.drop(s, x.id)
                            s |= {f for f in tmp if isinstance(f, tuple) and f[0] in ('ord', 'elem', 'idx', 'dictof') and f[1] == x.id}
                return s
            for x in ast.walk(t):
                if isinstance(x, ast.Name):
                    s = self.drop(s, x.id)
            if isinstance(val, ast.Subscript) and isinstance(val.value, ast.Name) and self.get(s, 'dictof', val.value.id) and len(t.elts) == 2 \
                    and all(isinstance(x, ast.Name) for x in t.elts):
                d = self.get(s, 'dictof', val.value.id)
                if d[3]:
                    s.add(('idx', t.elts[0].id, d[2]))
                    s.add(('elem', t.elts[1].id, d[2], 'lookup'))
        return s

    # ---- transfer
    def transfer(self, node, state):
        s = set(state)
        # loop heads: pyflow hands over the target expression of a For at every iteration
        par = self.parent.get(node)
        if isinstance(par, ast.For) and par.target is node:
            return frozenset(self.bind_loop(par, s))
        if isinstance(par, ast.For) and par.iter is node:
            if id(par) in self.loops:
                fornode, lst, pol, wname = self.loops[id(par)]
                if lst is None or pol is None:
                    self.verdicts.setdefault(id(par), set()).add(('TOP', None))
                else:
                    st, src, tg = self.order_of(lst, s)
                    if pol == 'ASC':            # wrapping in list order: the LAST element becomes outermost and is evaluated first
                        st = FLIP.get(st, st)
                    self.verdicts.setdefault(id(par), set()).add((st, src))
            return frozenset(s)
        if isinstance(node, ast.Assign):
            for t in node.targets:
                s = self.assign_one(t, node.value, s)
        elif isinstance(node, ast.AugAssign) and isinstance(node.target, ast.Name):
            f = self.get(s, 'ord', node.target.id)
            if f is not None:
                s = self.drop(s, node.target.id)
                if isinstance(node.op, ast.Add):
                    fake = ast.BinOp(left=ast.Name(id=node.target.id, ctx=ast.Load()), op=ast.Add(), right=node.value)
                    st, src, tg = self.order_of(fake, set(state))
                    s.add(('ord', node.target.id, st, src, tg))
                else:
                    s.add(('ord', node.target.id, 'TOP', None, False))
        # method calls on tracked lists, and lists escaping into calls
        for c in pyflow.calls_in(node) if not isinstance(node, (ast.FunctionDef, ast.ClassDef)) else ():
            if isinstance(c.func, ast.Attribute) and isinstance(c.func.value, ast.Name) and self.get(s, 'ord', c.func.value.id):
                L = c.func.value.id
                f = self.get(s, 'ord', L)
                m = c.func.attr
                if m == 'append' and len(c.args) == 1:
                    item = c.args[0]
                    drv = self.driver(c, s)
                    pv = self.provenance(item, s)
                    tagged = isinstance(item, ast.Tuple) and item.elts and isinstance(item.elts[0], ast.Name) and self.get(s, 'idx', item.elts[0].id) is not None
                    if drv is None or drv[0] == '?':
                        new = ('TOP', None, False)
                    else:
                        ids, pol = drv
                        lookups = [p for p in pv if p[3] == 'lookup' and p[2] not in ids]
                        if lookups:
                            new = ('PERM', lookups[0][2], tagged)
                        else:
                            new = (pol, sorted(ids)[0], tagged)
                    if f[2] == 'EMPTY' or (f[2] == new[0] and f[2] in ('ASC', 'DESC')) or (f[2], f[3]) == (new[0], new[1]):
                        # runs appended in the same direction (the order between runs of different sources is not decided)
                        merged = new if f[2] == 'EMPTY' else (new[0], f[3], f[4] and new[2])
                    elif 'PERM' in (f[2], new[0]) and 'TOP' not in (f[2], new[0]):
                        merged = ('PERM', f[3] if f[2] == 'PERM' else new[1], False)
                    else:
                        merged = ('TOP', None, False)
                    s = self.drop(s, L) | {x for x in s if x[0] != 'ord' and x[1] == L and False}
                    s.add(('ord', L) + merged)
                elif m == 'reverse' and not c.args:
                    s = self.drop(s, L)
                    s.add(('ord', L, FLIP.get(f[2], f[2]), f[3], f[4]))
                elif m == 'sort':
                    fake = ast.Call(func=ast.Name(id='sorted', ctx=ast.Load()), args=[ast.Name(id=L, ctx=ast.Load())], keywords=c.keywords)
                    st, src, tg = self.order_of(fake, s)
                    s = self.drop(s, L)
                    s.add(('ord', L, st, src, tg))
                elif m in ('extend', 'insert', 'pop', 'remove', 'clear', '__setitem__'):
                    s = self.drop(s, L)
                    s.add(('ord', L, 'TOP', None, False))
            else:
                nm = _callee(c)
                if isinstance(c.func, ast.Name) and nm in PURE_BUILTINS:
                    continue
                for a in list(c.args) + [k.value for k in c.keywords]:
                    if isinstance(a, ast.Name) and self.get(s, 'ord', a.id):
                        s = self.drop(s, a.id)
                        s.add(('ord', a.id, 'TOP', None, False))
        return frozenset(s)

    def refine(self, test, truth, state):
        t = test
        while isinstance(t, ast.UnaryOp) and isinstance(t.op, ast.Not):
            t, truth = t.operand, not truth
        if isinstance(t, ast.Name) and self.get(state, 'ord', t.id):
            if truth:
                return None if self.get(state, 'ord', t.id)[2] == 'EMPTY' else state
            s = self.drop(set(state), t.id)
            s.add(('ord', t.id, 'EMPTY', None, False))
            return frozenset(s)
        return state

    def run(self):
        _Flow(self.transfer, refine=self.refine, correlate=False).run(self.fn)
        return self.verdicts


STACK_POSITIVE = '''
def rewrite(self, node, declared, passed):
    by_name = {a.key.value: (i, a) for i, a in enumerate(passed)}
    args, temps = [], []
    for d in declared:
        pos, a = by_name[d.name]
        t = LetRefNode(a.value)
        args.append(t)
        temps.append((pos, t))
    temps = [t for _, t in temps]
    node = SimpleCallNode(node.pos, function=node.function, args=args)
    for t in temps[::-1]:
        node = EvalWithTempExprNode(t, node)
    return node
'''


def rule_stack(ctx, floor=9, modules=('ExprNodes', 'Nodes', 'Optimize', 'ParseTreeTransforms', 'MatchCaseNodes', 'UtilNodes', 'Builtin', 'FusedNode')):
    ix = ctx.index
    r = Rule('C20-STACK', 'temporaries wrapped around a node in a loop (EvalWithTempExprNode/LetNode) are evaluated outermost first: the list they come from is in the source order of the '
             'operands they carry (filled while iterating the operands, or re-sorted by a source index) and is wrapped back to front', floor)
    nsites = 0
    for ms in modules:
        try:
            m = ix.mod(ms)
        except AnalysisError:
            continue
        if m is None:
            continue
        for qn, owner, fn in ix.functions_of(m):
            loops = stacking_loops(fn)
            if not loops:
                continue
            try:
                verdicts = _Order(fn).run()
            except pyflow.TooManyStates:
                r.info('not decided: %s.%s (too many states)' % (m.short, qn))
                continue
            for i, (fornode, lst, pol, wname) in enumerate(loops):
                nsites += 1
                key = '%s.%s:%s[%d]' % (m.short, qn, wname, i)
                vs = verdicts.get(id(fornode), set())
                states = {v[0] for v in vs}
                if not vs:
                    r.info('not decided: %s (the loop is not reached)' % key)
                    continue
                established = 'TOP' not in states
                r.inst(key, sample='%s: evaluation order of the wrapped temporaries %s' % (key, sorted(states)), nontrivial=established)
                if not established:
                    r.info('%s: the order of (a part of) the list is not established inside the function; only definite disorder is reported' % key)
                for st, src in sorted(vs, key=str):
                    if st == 'DESC':
                        r.violate(key, m.rel, fornode.lineno, '%s.%s wraps the temporaries of `%s` so that the one created LAST becomes the outermost %s: the operands of %s are evaluated '
                                  'right to left' % (m.short, qn, ast.unparse(fornode.iter), wname, src))
                    elif st == 'PERM':
                        r.violate(key, m.rel, fornode.lineno, '%s.%s wraps temporaries for operands taken from %s, but the list was filled while iterating a different sequence (operands looked up '
                                  'by key) and is not re-sorted by their source position: the operands are evaluated in the order of that other sequence '
                                  '(e.g. keyword arguments of a C function call in declaration order instead of call order)' % (m.short, qn, src))
    if nsites < 8:
        raise AnalysisError('only %d wrapper-stacking loops found' % nsites)
    pc = ast.parse(STACK_POSITIVE).body[0]
    v = _Order(pc).run()
    r.positive_control(any(st == 'PERM' for vs in v.values() for st, src in vs), 'temporaries collected in declaration order wrapped without sorting')
    return r


# ================================================================================================================ C20-HOIST   # pending finding
# NOT registered in props/C20.run(): on the unmodified tree it reports ExprNodes.PrimaryCmpNode.analyse_types (a genuine defect, see
# /tmp/strengthen/G5/FINDING_1.md: `f() < g() < h()` with cdef noexcept functions evaluates g, f, h).  Register it once the defect is fixed/recorded.
def hoisted_pairs(fn, first='operand1', second='operand2'):
    """exit states of an analysis method in which the later operand has been forced into a temporary/simple result and the earlier one has not"""
    def is_simple_coercion(v):
        n = v
        while isinstance(n, ast.Call) and isinstance(n.func, ast.Attribute):
            if n.func.attr in SIMPLE_COERCIONS:
                return True
            n = n.func.value
        return False

    def tr(node, state):
        s = set(state)
        if isinstance(node, ast.Assign) and len(node.targets) == 1 and isinstance(node.targets[0], ast.Attribute) \
                and isinstance(node.targets[0].value, ast.Name) and node.targets[0].value.id == 'self' and node.targets[0].attr in (first, second):
            if is_simple_coercion(node.value):
                s.add(('simple', node.targets[0].attr))
                s.add(('line', node.targets[0].attr, node.lineno))
        return frozenset(s)
    o = pyflow.Flow(tr).run(fn)
    bad = []
    for st in o.normal | o.returns:
        if ('simple', second) in st and ('simple', first) not in st:
            bad += [f[2] for f in st if isinstance(f, tuple) and f[0] == 'line' and f[1] == second]
    return sorted(set(bad))


def rule_hoist(ctx, floor=2):   # pending finding
    """binary node classes (subexprs begin with operand1, operand2; both operands share the common operand type): an analysis method that forces operand2 into a
    temporary (its evaluation becomes a statement emitted before the node's result expression) must do the same for operand1 on that path, otherwise an operand1 whose
    C result is an inline expression (call of a cdef noexcept function) is evaluated AFTER operand2."""
    ix = ctx.index
    r = Rule('C20-HOIST', 'binary expression nodes: the right operand is moved into a temporary only together with the left one (otherwise an inline left operand is evaluated after it)', floor)
    m = ix.mod('ExprNodes')
    for c in sorted(m.classes.values(), key=lambda c: c.name):
        sub = ix.class_list_attr(c, 'subexprs')
        if not sub or not sub[1]:
            sub = ix.class_list_attr(c, 'child_attrs')      # PrimaryCmpNode evaluates its operands itself and lists them as child_attrs
        if not sub or not sub[1] or list(sub[1][:2]) != ['operand1', 'operand2']:
            continue
        for mname, fn in sorted(c.methods.items()):
            if mname.startswith('generate_'):
                continue
            if not any(isinstance(n, ast.Attribute) and n.attr in SIMPLE_COERCIONS for n in ast.walk(fn)):
                continue
            key = '%s.%s:operand2-before-operand1' % (c.qual, mname)
            r.inst(key, sample=key)
            for line in hoisted_pairs(fn):
                r.violate(key, m.rel, line, '%s.%s makes operand2 simple (coerce_to_simple: a non-simple operand2 is evaluated into a temporary by a statement of its own) on a path on which '
                          'operand1 stays as it is: an operand1 with an inline C result (e.g. a call of a cdef noexcept function) is then evaluated after operand2 '
                          '(`f() < g() < h()` runs g, f, h)' % (c.name, mname))
    pc = ast.parse("def analyse_types(self, env):\n    if self.cascade:\n        self.operand2 = self.operand2.coerce_to_simple(env)\n    return self\n").body[0]
    r.positive_control(bool(hoisted_pairs(pc)), 'operand2 coerced alone')
    return r
