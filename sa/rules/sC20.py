"""sC20 — two structural clauses of "evaluated exactly once, left to right" outside Optimize.py.

C20-PASTE   writer/reader agreement between the analysis phase and the code generator of one expression node class:
            an operand whose C result text is pasted into emitted *statements* (checks, warnings) besides the computation of the
            node's own result — or more than once into the result expression — is evaluated once per paste unless its result is simple.
            The class's analysis method is the only place that can make it simple (`self.X = self.X.coerce_to_simple(env)`), so for
            every valuation of the flags both phases consult (self attributes, compiler directives, type flags) under which a paste
            path exists, the coercion must have happened.  Both sides are decision tables extracted by partial evaluation (sC14.Emu).

C20-STACK   order typestate of the lists of temporaries that are wrapped around a node in a loop
            (`for t in temps[::-1]: node = EvalWithTempExprNode(t, node)`): the outermost wrapper is evaluated first, so the evaluation order
            of the temporaries is the reverse of the wrapping order; it has to be the source order of the operands they carry.  A list filled
            while iterating the operands is in source order; a list filled while iterating something else (declared parameters, dict keys)
            with operands looked up by key is in that other order and must be re-sorted by a source index before it is wrapped."""
import ast, re, itertools

from ..core import Rule, AnalysisError, node_src
from ..engine import pyflow
from ..engine.pyindex import walk_no_nested
from . import sC14 as E

SIMPLE_COERCIONS = ('coerce_to_simple', 'coerce_to_temp')
RESULT_METHODS = ('generate_result_code', 'calculate_result_code')
SHARED_ATOM = re.compile(r"^(self(\.\w+)+|directive\[.*\])$")


# ================================================================================================================ C20-PASTE
def coercion_sites(ix, modules=('ExprNodes',)):
    """(class, method name, attr) for every `self.X = <...>.coerce_to_simple(env)` in an own method of a node class"""
    out = []
    for ms in modules:
        m = ix.mod(ms)
        for c in sorted(m.classes.values(), key=lambda c: c.name):
            for mname, fn in sorted(c.methods.items()):
                for n in walk_no_nested(fn):
                    if isinstance(n, ast.Assign) and len(n.targets) == 1 and isinstance(n.targets[0], ast.Attribute) and isinstance(n.targets[0].value, ast.Name) \
                            and n.targets[0].value.id == 'self' and isinstance(n.value, ast.Call) and isinstance(n.value.func, ast.Attribute) \
                            and n.value.func.attr in SIMPLE_COERCIONS:
                        out.append((c, mname, n.targets[0].attr))
    seen, res = set(), []
    for c, mname, x in out:
        if (c.qual, mname, x) not in seen:
            seen.add((c.qual, mname, x))
            res.append((c, mname, x))
    return res


def type_table(ix):
    """PyrexTypes class -> (flags {is_x: bool}, has `signed`)"""
    m = ix.mod('PyrexTypes')
    base = m.classes.get('BaseType')
    if base is None:
        raise AnalysisError('PyrexTypes.BaseType vanished')
    out = {}
    for c in m.classes.values():
        mro = ix.mro(c)
        if base not in mro:
            continue
        flags, has_signed = {}, False
        for k in reversed(mro):
            for a, v in k.attrs.items():
                if a.startswith('is_') and isinstance(v, ast.Constant):
                    flags[a] = bool(v.value)
                if a == 'signed':
                    has_signed = True
            if 'signed' in k.self_attrs:
                has_signed = True
        out[c.name] = (flags, has_signed)
    if len(out) < 20 or not any(f.get('is_int') for f, s in out.values()):
        raise AnalysisError('type flag table of PyrexTypes could not be extracted')
    return out


def flags_feasible(assume, ttable):
    """are the assumed type flags of every `<path>.type` satisfiable by one PyrexTypes class?"""
    groups = {}
    for k, v in assume.items():
        m = re.match(r'^(.*\.type)\.(is_\w+|signed)$', k)
        if m:
            groups.setdefault(m.group(1), {})[m.group(2)] = v
    for tp, fl in groups.items():
        ok = False
        for name, (flags, has_signed) in ttable.items():
            if 'signed' in fl and not has_signed:
                continue
            if all(flags.get(f, False) == v for f, v in fl.items() if f != 'signed'):
                ok = True
                break
        if not ok:
            return False
    return True


def _count(text, x):
    """pastes of the C result of operand x inside emitted text"""
    n = 0
    for m in E.MARK.finditer(text):
        n += len(re.findall(r'(?<![\w.])self\.%s\.result\(\)' % re.escape(x), m.group(1)))
    return n


def _eq_compatible(a, b):
    for k, va in a.items():
        vb = b.get(k)
        if vb is None:
            continue
        if va[0] == 'is' and vb[0] == 'is' and va[1] != vb[1]:
            return False
        if va[0] == 'is' and vb[0] == 'not' and va[1] in vb[1]:
            return False
        if vb[0] == 'is' and va[0] == 'not' and vb[1] in va[1]:
            return False
    return True


def _slim(d):
    """drop `x is None` facts that follow from the truth of x"""
    return {k: v for k, v in d.items() if not (k.endswith(' is None') and d.get(k[:-8]) is True)}


def analysis_table(ix, c, mname, x):
    """paths of the analysis method (or constructor) -> [(shared assumptions after the method, eqs, coerced?)]"""
    fn = c.methods[mname]
    emu = E.Emu(ix, c, code_names=(), inline=lambda owner, name: owner is c and not name.startswith('generate_'), unknown_loops='01', max_states=150)
    args = {}
    is_init = mname == '__init__' and x in [a.arg for a in fn.args.args]
    if is_init:
        args[x] = E.U('self.' + x)          # the constructor argument is the operand
    rows = []
    for st, v in emu.run(c, fn, args=args):
        val = st.env.get(x) if is_init and ('self.' + x) not in st.attrs else st.attrs.get('self.' + x)
        coerced = isinstance(val, E.U) and any('.%s(' % w in val.path for w in SIMPLE_COERCIONS)
        post = {k: b for k, b in st.assume.items() if SHARED_ATOM.match(k.replace(' is None', ''))}
        for p in st.written:                       # attributes the analysis leaves with a known constant
            val2 = st.attrs.get(p)
            if SHARED_ATOM.match(p) and E.concrete(val2) and E._scalar(val2):
                post[p] = bool(val2)
                post[p + ' is None'] = val2 is None
        rows.append((_slim(post), dict(st.eqs), coerced, dict(st.assume)))
    return rows


def _texts(st):
    for ev in st.events:
        if ev[0] == 'code' and ev[2] in ('put', 'putln') and ev[3] and isinstance(ev[3][0], str):
            yield ev[3][0]


def codegen_paths(ix, c, xs):
    """own emission methods of class c -> {x: [(entry assumptions, eqs, where, count, sample)]}: the paths that paste the C result of operand x
    more often than one evaluation allows.  A generate_evaluation_code that delegates the evaluation proper to its base class
    (Base.generate_evaluation_code(self, code) / super()) pastes only into additional statements: one paste there is already a second use."""
    out = {x: [] for x in xs}
    own = c.methods
    entry = 'generate_evaluation_code' if 'generate_evaluation_code' in own else None
    if entry:
        emu = E.Emu(ix, c, inline=lambda owner, name: owner is c and name not in RESULT_METHODS, unknown_loops='01', max_states=700)
        for st, v in emu.run(c, own[entry]):
            delegated = any(ev[0] == 'call' and ev[2] == entry and isinstance(ev[1], E.U) and not ev[1].path.startswith('self.') for ev in st.events)
            texts = list(_texts(st))
            for x in xs:
                n, sample = 0, None
                for t in texts:
                    k = _count(t, x)
                    if k and sample is None:
                        sample = E.MARK.sub(lambda m: m.group(1), t)
                    n += k
                if n >= (1 if delegated else 2):
                    out[x].append((_slim(st.entry), dict(st.eqs), ('a statement emitted by %s besides the evaluation it delegates to the base class' if delegated
                                                                   else 'the statements emitted by %s') % entry, n, sample))
    if 'calculate_result_code' in own:
        emu = E.Emu(ix, c, inline=lambda owner, name: owner is c, unknown_loops='01', max_states=300)
        for st, v in emu.run(c, own['calculate_result_code']):
            if isinstance(v, str):
                for x in xs:
                    n = _count(v, x)
                    if n >= 2:
                        out[x].append((_slim(st.entry), dict(st.eqs), 'the result expression of calculate_result_code', n, E.MARK.sub(lambda m: m.group(1), v)))
    return out


def writers(ix, c, x):
    """[(owner class, method name)] along the MRO where operand x is made simple"""
    res = []
    for k in ix.mro(c):
        for mname, fn in sorted(k.methods.items()):
            for n in walk_no_nested(fn):
                if not (isinstance(n, ast.Assign) and len(n.targets) == 1 and isinstance(n.value, ast.Call) and isinstance(n.value.func, ast.Attribute)
                        and n.value.func.attr in SIMPLE_COERCIONS):
                    continue
                t = n.targets[0]
                if isinstance(t, ast.Attribute) and isinstance(t.value, ast.Name) and t.value.id == 'self' and t.attr == x:
                    res.append((k, mname))
                elif mname == '__init__' and isinstance(t, ast.Name) and t.id == x and x in [a.arg for a in fn.args.args]:
                    res.append((k, mname))
    out = []
    for w in res:
        if w not in out:
            out.append(w)
    return out


def paste_violations(rows, cpaths, ttable, max_free=12):
    """-> [(codegen path, sigma)] : valuations under which a paste path exists and every analysis path leaves the operand uncoerced"""
    atoms = sorted({k for a, eq, co, full in rows for k in a})
    if len(atoms) > max_free:
        raise E.Unmodelled('%d shared flags' % len(atoms))
    out = []
    for cass, ceqs, where, n, sample in cpaths:
        if not flags_feasible(cass, ttable):
            continue
        fixed = {k: cass[k] for k in atoms if k in cass}
        free = [k for k in atoms if k not in fixed]
        hit = None
        for vals in itertools.product((True, False), repeat=len(free)):
            sigma = dict(fixed)
            sigma.update(zip(free, vals))
            bad = False
            for k, v in sigma.items():          # `x is None` true excludes `x` true
                if k.endswith(' is None') and v and sigma.get(k[:-8]) is True:
                    bad = True
            if bad:
                continue
            both = dict(cass)
            both.update(sigma)
            if not flags_feasible(both, ttable):
                continue
            match = [(a, eq, co) for a, eq, co, full in rows if all(sigma.get(k) == v for k, v in a.items()) and _eq_compatible(eq, ceqs)]
            if match and not any(co for a, eq, co in match):
                hit = both
                break
        if hit is not None:
            out.append(((cass, ceqs, where, n, sample), hit))
    return out


PASTE_POSITIVE = '''
class FakeNode(ExprNode):
    def analyse_operation(self, env):
        if not self.type.is_pyobject:
            self.check = self.flag is None and not env.directives['fast']
            if env.directives['warn']:
                self.operand1 = self.operand1.coerce_to_simple(env)
        return self

    def generate_evaluation_code(self, code):
        ExprNode.generate_evaluation_code(self, code)
        if not self.type.is_pyobject:
            if self.check:
                code.putln("if (unlikely(BAD(%s))) {" % self.operand1.result())
                code.putln("}")

    def calculate_result_code(self):
        return "op(%s)" % self.operand1.result()
'''


class _OneClassIx:
    """index over one synthetic class (positive control)"""
    def __init__(self, cls_node):
        class C:
            pass
        c = C()
        c.name, c.qual, c.methods = cls_node.name, cls_node.name, {f.name: f for f in cls_node.body if isinstance(f, ast.FunctionDef)}
        c.attrs, c.self_attrs = {}, set()
        self.c = c

    def find_class_attr(self, c, n):
        return None

    def mro(self, c):
        return [self.c]

    def find_method(self, c, n):
        return (self.c, self.c.methods[n]) if n in self.c.methods else None


def rule_paste(ctx, floor=3, modules=('ExprNodes',)):
    ix = ctx.index
    r = Rule('C20-PASTE', 'an operand whose result text the code generator of a node class pastes into emitted statements besides the evaluation proper (or twice into the result '
             'expression) has been made simple (coerce_to_simple/coerce_to_temp) by the class\'s analysis method or constructor under every valuation of the shared flags that admits the paste', floor)
    ttable = type_table(ix)
    nclasses = 0
    for ms in modules:
        m = ix.mod(ms)
        for c in sorted(m.classes.values(), key=lambda c: c.name):
            if 'generate_evaluation_code' not in c.methods and 'calculate_result_code' not in c.methods:
                continue
            sub = ix.class_list_attr(c, 'subexprs')
            if not sub or not sub[1]:
                continue
            nclasses += 1
            # cheap syntactic prefilter: no own method asks anything but `self` for its C result text -> nothing can be pasted
            if not any(isinstance(n, ast.Call) and isinstance(n.func, ast.Attribute) and n.func.attr == 'result'
                       and not (isinstance(n.func.value, ast.Name) and n.func.value.id == 'self')
                       for fn in c.methods.values() for n in ast.walk(fn)):
                continue
            try:
                demand = codegen_paths(ix, c, sub[1])
            except E.Unmodelled as e:
                r.info('not decided: %s (%s)' % (c.qual, e))
                continue
            for x in sub[1]:
                cpaths = demand[x]
                if not cpaths:
                    continue
                key = '%s:%s' % (c.qual, x)
                ws = writers(ix, c, x)
                if not ws:
                    r.inst(key, sample='%s: %d paste path(s), no coercion' % (key, len(cpaths)))
                    cass, ceqs, where, n, sample = cpaths[0]
                    r.violate(key, c.module.rel, c.node.lineno,
                              '%s pastes self.%s.result() into %s (%d time(s), e.g. `%s`), but no method of the class makes the operand simple (coerce_to_simple/coerce_to_temp): '
                              'a non-simple C operand (e.g. a call of a cdef function) is evaluated once per paste' % (c.name, x, where, n, (sample or '').strip()[:120]))
                    continue
                if len(ws) != 1:
                    r.info('not decided: %s (made simple in several methods: %s)' % (key, ', '.join('%s.%s' % (k.name, mn) for k, mn in ws)))
                    continue
                wk, wm = ws[0]
                try:
                    rows = analysis_table(ix, wk, wm, x)
                    viol = paste_violations(rows, cpaths, ttable)
                except E.Unmodelled as e:
                    r.info('not decided: %s (%s.%s: %s)' % (key, wk.name, wm, e))
                    continue
                r.inst(key, sample='%s: %d paste path(s) vs %d path(s) of %s.%s' % (key, len(cpaths), len(rows), wk.name, wm))
                atoms = {k for a, eq, co, full in rows for k in a}
                seen = set()
                for (cass, ceqs, where, n, sample), both in viol:
                    if where in seen:
                        continue
                    seen.add(where)
                    cond = ', '.join('%s=%s' % (k, v) for k, v in sorted(both.items()) if k in atoms and ' is None' not in k)
                    r.violate(key, wk.module.rel, wk.methods[wm].lineno,
                              '%s pastes self.%s.result() into %s (%d time(s), e.g. `%s`), but for %s %s.%s does not make the operand simple: a non-simple C operand '
                              '(e.g. a call of a cdef function) is evaluated once per paste, and later operands that were moved to temporaries run before it'
                              % (c.name, x, where, n, (sample or '').strip()[:120], cond or 'every flag valuation', wk.name, wm))
    if nclasses < 30:
        raise AnalysisError('only %d expression node classes with own code generation and operands found' % nclasses)
    # positive control
    cn = ast.parse(PASTE_POSITIVE).body[0]
    fix = _OneClassIx(cn)
    try:
        cp = codegen_paths(fix, fix.c, ['operand1'])['operand1']
        rows = analysis_table(fix, fix.c, 'analyse_operation', 'operand1')
        pv = paste_violations(rows, cp, ttable)
    except E.Unmodelled:
        pv = []
    r.positive_control(any(s.get('self.check') is True and s.get("directive['warn']") is False for _, s in pv), 'operand pasted under a flag the analysis does not coerce for')
    return r


# ================================================================================================================ C20-STACK
WRAPPERS = ('LetNode', 'EvalWithTempExprNode')
PURE_BUILTINS = ('sorted', 'reversed', 'list', 'tuple', 'len', 'enumerate', 'zip', 'any', 'all', 'bool', 'isinstance', 'sum', 'min', 'max', 'map', 'filter', 'iter', 'set', 'frozenset')
FLIP = {'ASC': 'DESC', 'DESC': 'ASC'}


def _src(e):
    """identity of a source sequence expression"""
    return ast.unparse(e)


def _callee(c):
    f = c.func
    return f.attr if isinstance(f, ast.Attribute) else f.id if isinstance(f, ast.Name) else None


def _neg_slice(e):
    """seq[::-1] / seq[-2::-1] ... -> seq"""
    if isinstance(e, ast.Subscript) and isinstance(e.slice, ast.Slice) and e.slice.step is not None:
        st = e.slice.step
        if isinstance(st, ast.UnaryOp) and isinstance(st.op, ast.USub) and isinstance(st.operand, ast.Constant) and st.operand.value == 1:
            return e.value
    return None


def _iter_shape(e):
    """iteration expression -> (kind, [source exprs], polarity) ; kind in plain|enumerate|zip|other"""
    pol = 'ASC'
    while True:
        inner = _neg_slice(e)
        if inner is not None:
            e, pol = inner, FLIP[pol]
            continue
        if isinstance(e, ast.Call) and _callee(e) == 'reversed' and len(e.args) == 1 and isinstance(e.func, ast.Name):
            e, pol = e.args[0], FLIP[pol]
            continue
        break
    if isinstance(e, ast.Call) and isinstance(e.func, ast.Name) and e.func.id == 'enumerate' and e.args:
        k, srcs, p2 = _iter_shape(e.args[0])
        if k == 'plain' and pol == 'ASC':
            return 'enumerate', srcs, p2
        return 'other', [], None
    if isinstance(e, ast.Call) and isinstance(e.func, ast.Name) and e.func.id == 'zip' and e.args and pol == 'ASC':
        srcs = []
        for a in e.args:
            k, s, p2 = _iter_shape(a)
            if k != 'plain' or p2 != 'ASC':
                return 'other', [], None
            srcs += s
        return 'zip', srcs, 'ASC'
    if isinstance(e, ast.Call) and isinstance(e.func, ast.Name) and e.func.id in ('list', 'tuple', 'iter') and len(e.args) == 1:
        k, srcs, p2 = _iter_shape(e.args[0])
        return k, srcs, (p2 if pol == 'ASC' else FLIP.get(p2))
    if isinstance(e, (ast.Name, ast.Attribute, ast.Subscript)) or (isinstance(e, ast.Call) and isinstance(e.func, ast.Name) and e.func.id == 'range'):
        return 'plain', [e], pol
    return 'other', [], None


def stacking_loops(fn):
    """for T in ITER: X = Wrapper(T-component, X)  ->  [(For node, list expr, iteration polarity, wrapper name)]"""
    out = []
    for n in walk_no_nested(fn):
        if not isinstance(n, ast.For):
            continue
        tnames = {x.id for x in ast.walk(n.target) if isinstance(x, ast.Name)}
        for s in n.body:
            if isinstance(s, ast.Assign) and len(s.targets) == 1 and isinstance(s.targets[0], ast.Name) and isinstance(s.value, ast.Call) \
                    and _callee(s.value) in WRAPPERS and len(s.value.args) == 2 and isinstance(s.value.args[0], ast.Name) and s.value.args[0].id in tnames \
                    and isinstance(s.value.args[1], ast.Name) and s.value.args[1].id == s.targets[0].id:
                kind, srcs, pol = _iter_shape(n.iter)
                out.append((n, srcs[0] if kind == 'plain' and len(srcs) == 1 else None, pol, _callee(s.value)))
                break
    return out


class _Flow(pyflow.Flow):
    """pyflow.Flow with a larger state budget (the facts of this analysis are per variable, so many combinations occur)"""
    LIMIT = 4000

    def _apply(self, node, states):
        out = set()
        for st in states:
            s2 = self.transfer(node, st)
            if s2 is None:
                continue
            out.add(s2)
        if len(out) > self.LIMIT:
            raise pyflow.TooManyStates()
        for c in self._try_collect:
            c |= out
        return out


class _Order:
    """forward typestate of list-valued locals of one function:
       ('ord', L, state, src, tagged)   state in EMPTY | ASC | DESC | PERM | TOP      (order of L relative to the source sequence src)
       ('elem', v, src, how)            v (or a node built from it) is an element of src, reached by iteration ('iter') or by keyed lookup ('lookup')
       ('idx', v, src)                  v is the position of an element in src
       ('dictof', D, src, tagged)       D maps keys to elements of src (tagged: to (position, element) pairs)"""

    def __init__(self, fn):
        self.fn = fn
        self.parent = {}
        for n in ast.walk(fn):
            for ch in ast.iter_child_nodes(n):
                self.parent[ch] = n
        self.loops = {id(l[0]): l for l in stacking_loops(fn)}
        self.params = {a.arg for a in fn.args.args + fn.args.kwonlyargs}
        self.verdicts = {}       # id(For) -> set of (state, src)

    # ---- helpers on states
    @staticmethod
    def get(state, kind, name):
        for f in state:
            if isinstance(f, tuple) and f[0] == kind and f[1] == name:
                return f
        return None

    @staticmethod
    def drop(state, name):
        return {f for f in state if not (isinstance(f, tuple) and f[0] in ('ord', 'elem', 'idx', 'dictof') and f[1] == name)}

    def enclosing_for(self, node):
        n = self.parent.get(node)
        while n is not None and n is not self.fn:
            if isinstance(n, ast.For):
                return n
            if isinstance(n, (ast.FunctionDef, ast.Lambda)):
                return None
            n = self.parent.get(n)
        return None

    def order_of(self, e, state):
        """-> (state, src, tagged) of a list-valued expression"""
        inner = _neg_slice(e)
        if inner is not None:
            st, src, tg = self.order_of(inner, state)
            return FLIP.get(st, st), src, tg
        if isinstance(e, (ast.List, ast.Tuple)):
            return ('EMPTY', None, False) if not e.elts else ('TOP', None, False)
        if isinstance(e, ast.Subscript) and isinstance(e.slice, ast.Slice) and (e.slice.step is None or (isinstance(e.slice.step, ast.Constant) and e.slice.step.value == 1)):
            return self.order_of(e.value, state)        # a forward slice keeps the order
        if isinstance(e, ast.Name):
            f = self.get(state, 'ord', e.id)
            if f is not None:
                return f[2], f[3], f[4]
            return 'TOP', None, False
        if isinstance(e, ast.Attribute):
            return 'ASC', _src(e), False          # a child list of a node (x.args, kwargs.key_value_pairs): the source order by definition
        if isinstance(e, ast.Call) and isinstance(e.func, ast.Name):
            nm = e.func.id
            if nm in ('list', 'tuple') and not e.args:
                return 'EMPTY', None, False
            if nm in ('list', 'tuple') and len(e.args) == 1:
                return self.order_of(e.args[0], state)
            if nm == 'reversed' and len(e.args) == 1:
                st, src, tg = self.order_of(e.args[0], state)
                return FLIP.get(st, st), src, tg
            if nm == 'sorted' and e.args:
                st, src, tg = self.order_of(e.args[0], state)
                kws = {k.arg: k.value for k in e.keywords}
                if st == 'EMPTY':
                    return st, src, tg
                if tg and st in ('ASC', 'DESC', 'PERM') and 'key' not in kws and len(e.args) == 1:
                    rev = kws.get('reverse')
                    if rev is None or (isinstance(rev, ast.Constant) and rev.value is False):
                        return 'ASC', src, True
                    if isinstance(rev, ast.Constant) and rev.value is True:
                        return 'DESC', src, True
                return 'TOP', None, False
            return 'TOP', None, False
        if isinstance(e, (ast.ListComp, ast.GeneratorExp)) and len(e.generators) == 1 and not e.generators[0].is_async:
            g = e.generators[0]
            st, src, tg = self.order_of(g.iter, state)
            if st == 'TOP':
                kind, srcs, pol = _iter_shape(g.iter)
                if kind in ('plain', 'enumerate') and len(srcs) == 1 and not (isinstance(srcs[0], ast.Name) and self.get(state, 'ord', srcs[0].id)):
                    st, src, tg = pol, _src(srcs[0]), False
            # the element keeps the position tag only if it is still a tuple starting with the tag component
            keep = False
            if tg and isinstance(g.target, ast.Tuple) and g.target.elts and isinstance(g.target.elts[0], ast.Name):
                t0 = g.target.elts[0].id
                keep = isinstance(e.elt, ast.Tuple) and e.elt.elts and isinstance(e.elt.elts[0], ast.Name) and e.elt.elts[0].id == t0
            if tg and isinstance(g.target, ast.Name) and isinstance(e.elt, ast.Name) and e.elt.id == g.target.id:
                keep = True
            return st, src, keep
        if isinstance(e, ast.BinOp) and isinstance(e.op, ast.Add):
            a, b = self.order_of(e.left, state), self.order_of(e.right, state)
            sts = [x[0] for x in (a, b) if x[0] != 'EMPTY']
            if not sts:
                return 'EMPTY', None, False
            if 'PERM' in sts:                    # one part definitely out of order: so is the concatenation
                return 'PERM', (a if a[0] == 'PERM' else b)[1], False
            if 'TOP' in sts:
                return 'TOP', None, False
            if len(set(sts)) == 1:
                return sts[0], (a if a[0] != 'EMPTY' else b)[1], False
            return 'TOP', None, False
        return 'TOP', None, False

    def provenance(self, e, state):
        """element facts of the names an expression is built from"""
        out = []
        for n in ast.walk(e):
            if isinstance(n, ast.Name):
                f = self.get(state, 'elem', n.id)
                if f is not None:
                    out.append(f)
        return out

    def bind_loop(self, fornode, s):
        kind, srcs, pol = _iter_shape(fornode.iter)
        for nm in [x.id for x in ast.walk(fornode.target) if isinstance(x, ast.Name)]:
            s = self.drop(s, nm)
        t = fornode.target
        if kind == 'plain' and len(srcs) == 1:
            src = srcs[0]
            base = self.get(s, 'ord', src.id) if isinstance(src, ast.Name) else None
            for nm in [x.id for x in ast.walk(t) if isinstance(x, ast.Name)]:
                s.add(('elem', nm, base[3] if base and base[3] else _src(src), 'iter'))
        elif kind == 'enumerate' and isinstance(t, ast.Tuple) and len(t.elts) == 2 and isinstance(t.elts[0], ast.Name):
            s.add(('idx', t.elts[0].id, _src(srcs[0])))
            for nm in [x.id for x in ast.walk(t.elts[1]) if isinstance(x, ast.Name)]:
                s.add(('elem', nm, _src(srcs[0]), 'iter'))
        elif kind == 'zip' and isinstance(t, ast.Tuple) and len(t.elts) == len(srcs):
            for el, src in zip(t.elts, srcs):
                for nm in [x.id for x in ast.walk(el) if isinstance(x, ast.Name)]:
                    s.add(('elem', nm, _src(src), 'iter'))
        return s

    def driver(self, node, state):
        """the loop that drives an append: (set of source ids, polarity) or None outside loops; ('?', None) when the loop is not understood"""
        f = self.enclosing_for(node)
        if f is None:
            return None
        kind, srcs, pol = _iter_shape(f.iter)
        if kind == 'other' or pol is None:
            return ('?', None)
        ids = set()
        for sx in srcs:
            base = self.get(state, 'ord', sx.id) if isinstance(sx, ast.Name) else None
            if base is not None:
                if base[2] in ('TOP', 'PERM'):
                    return ('?', None)
                if base[2] == 'DESC':
                    pol = FLIP[pol]
                ids.add(base[3] or _src(sx))
            else:
                ids.add(_src(sx))
        return (frozenset(ids), pol)

    def assign_one(self, t, val, s):
        before = set(s)
        if isinstance(t, ast.Name):
            s = self.drop(s, t.id)
            if isinstance(val, ast.DictComp) and len(val.generators) == 1:
                g = val.generators[0]
                kind, srcs, pol = _iter_shape(g.iter)
                if kind == 'enumerate' and isinstance(g.target, ast.Tuple) and len(g.target.elts) == 2 and isinstance(g.target.elts[0], ast.Name):
                    i = g.target.elts[0].id
                    tagged = isinstance(val.value, ast.Tuple) and val.value.elts and i in {x.id for x in ast.walk(val.value.elts[0]) if isinstance(x, ast.Name)}
                    s.add(('dictof', t.id, _src(srcs[0]), bool(tagged)))
                elif kind == 'plain' and len(srcs) == 1:
                    s.add(('dictof', t.id, _src(srcs[0]), False))
            elif isinstance(val, ast.Subscript) and isinstance(val.value, ast.Name) and self.get(before, 'dictof', val.value.id) and not isinstance(val.slice, ast.Slice):
                d = self.get(before, 'dictof', val.value.id)
                if not d[3]:
                    s.add(('elem', t.id, d[2], 'lookup'))
            elif isinstance(val, (ast.List, ast.ListComp, ast.GeneratorExp, ast.BinOp, ast.Subscript, ast.Attribute)) or (isinstance(val, ast.Call) and isinstance(val.func, ast.Name)
                                                                                          and val.func.id in ('list', 'tuple', 'sorted', 'reversed')) \
                    or (isinstance(val, ast.Name) and self.get(before, 'ord', val.id)):
                st, src, tg = self.order_of(val, before)
                s.add(('ord', t.id, st, src, tg))
            else:
                pv = self.provenance(val, before)
                if pv and isinstance(val, (ast.Call, ast.Attribute, ast.Name)):
                    lk = [f for f in pv if f[3] == 'lookup']
                    f = (lk or pv)[0]
                    s.add(('elem', t.id, f[2], f[3]))
        elif isinstance(t, (ast.Tuple, ast.List)):
            if isinstance(val, (ast.Tuple, ast.List)) and len(val.elts) == len(t.elts) and not any(isinstance(x, ast.Starred) for x in t.elts):
                # parallel assignment: right-hand sides are evaluated in the state before the assignment
                before = set(s)
                results = []
                for a, b in zip(t.elts, val.elts):
                    tmp = self.assign_one(a, b, set(before))
                    results.append((a, tmp))
                for a, tmp in results:
                    for x in ast.walk(a):
                        if isinstance(x, ast.Name):
                            s = self.drop(s, x.id)
                            s |= {f for f in tmp if isinstance(f, tuple) and f[0] in ('ord', 'elem', 'idx', 'dictof') and f[1] == x.id}
                return s
            for x in ast.walk(t):
                if isinstance(x, ast.Name):
                    s = self.drop(s, x.id)
            if isinstance(val, ast.Subscript) and isinstance(val.value, ast.Name) and self.get(s, 'dictof', val.value.id) and len(t.elts) == 2 \
                    and all(isinstance(x, ast.Name) for x in t.elts):
                d = self.get(s, 'dictof', val.value.id)
                if d[3]:
                    s.add(('idx', t.elts[0].id, d[2]))
                    s.add(('elem', t.elts[1].id, d[2], 'lookup'))
        return s

    # ---- transfer
    def transfer(self, node, state):
        s = set(state)
        # loop heads: pyflow hands over the target expression of a For at every iteration
        par = self.parent.get(node)
        if isinstance(par, ast.For) and par.target is node:
            return frozenset(self.bind_loop(par, s))
        if isinstance(par, ast.For) and par.iter is node:
            if id(par) in self.loops:
                fornode, lst, pol, wname = self.loops[id(par)]
                if lst is None or pol is None:
                    self.verdicts.setdefault(id(par), set()).add(('TOP', None))
                else:
                    st, src, tg = self.order_of(lst, s)
                    if pol == 'ASC':            # wrapping in list order: the LAST element becomes outermost and is evaluated first
                        st = FLIP.get(st, st)
                    self.verdicts.setdefault(id(par), set()).add((st, src))
            return frozenset(s)
        if isinstance(node, ast.Assign):
            for t in node.targets:
                s = self.assign_one(t, node.value, s)
        elif isinstance(node, ast.AugAssign) and isinstance(node.target, ast.Name):
            f = self.get(s, 'ord', node.target.id)
            if f is not None:
                s = self.drop(s, node.target.id)
                if isinstance(node.op, ast.Add):
                    fake = ast.BinOp(left=ast.Name(id=node.target.id, ctx=ast.Load()), op=ast.Add(), right=node.value)
                    st, src, tg = self.order_of(fake, set(state))
                    s.add(('ord', node.target.id, st, src, tg))
                else:
                    s.add(('ord', node.target.id, 'TOP', None, False))
        # method calls on tracked lists, and lists escaping into calls
        for c in pyflow.calls_in(node) if not isinstance(node, (ast.FunctionDef, ast.ClassDef)) else ():
            if isinstance(c.func, ast.Attribute) and isinstance(c.func.value, ast.Name) and self.get(s, 'ord', c.func.value.id):
                L = c.func.value.id
                f = self.get(s, 'ord', L)
                m = c.func.attr
                if m == 'append' and len(c.args) == 1:
                    item = c.args[0]
                    drv = self.driver(c, s)
                    pv = self.provenance(item, s)
                    tagged = isinstance(item, ast.Tuple) and item.elts and isinstance(item.elts[0], ast.Name) and self.get(s, 'idx', item.elts[0].id) is not None
                    if drv is None or drv[0] == '?':
                        new = ('TOP', None, False)
                    else:
                        ids, pol = drv
                        lookups = [p for p in pv if p[3] == 'lookup' and p[2] not in ids]
                        if lookups:
                            new = ('PERM', lookups[0][2], tagged)
                        else:
                            new = (pol, sorted(ids)[0], tagged)
                    if f[2] == 'EMPTY' or (f[2] == new[0] and f[2] in ('ASC', 'DESC')) or (f[2], f[3]) == (new[0], new[1]):
                        # runs appended in the same direction (the order between runs of different sources is not decided)
                        merged = new if f[2] == 'EMPTY' else (new[0], f[3], f[4] and new[2])
                    elif 'PERM' in (f[2], new[0]) and 'TOP' not in (f[2], new[0]):
                        merged = ('PERM', f[3] if f[2] == 'PERM' else new[1], False)
                    else:
                        merged = ('TOP', None, False)
                    s = self.drop(s, L) | {x for x in s if x[0] != 'ord' and x[1] == L and False}
                    s.add(('ord', L) + merged)
                elif m == 'reverse' and not c.args:
                    s = self.drop(s, L)
                    s.add(('ord', L, FLIP.get(f[2], f[2]), f[3], f[4]))
                elif m == 'sort':
                    fake = ast.Call(func=ast.Name(id='sorted', ctx=ast.Load()), args=[ast.Name(id=L, ctx=ast.Load())], keywords=c.keywords)
                    st, src, tg = self.order_of(fake, s)
                    s = self.drop(s, L)
                    s.add(('ord', L, st, src, tg))
                elif m in ('extend', 'insert', 'pop', 'remove', 'clear', '__setitem__'):
                    s = self.drop(s, L)
                    s.add(('ord', L, 'TOP', None, False))
            else:
                nm = _callee(c)
                if isinstance(c.func, ast.Name) and nm in PURE_BUILTINS:
                    continue
                for a in list(c.args) + [k.value for k in c.keywords]:
                    if isinstance(a, ast.Name) and self.get(s, 'ord', a.id):
                        s = self.drop(s, a.id)
                        s.add(('ord', a.id, 'TOP', None, False))
        return frozenset(s)

    def refine(self, test, truth, state):
        t = test
        while isinstance(t, ast.UnaryOp) and isinstance(t.op, ast.Not):
            t, truth = t.operand, not truth
        if isinstance(t, ast.Name) and self.get(state, 'ord', t.id):
            if truth:
                return None if self.get(state, 'ord', t.id)[2] == 'EMPTY' else state
            s = self.drop(set(state), t.id)
            s.add(('ord', t.id, 'EMPTY', None, False))
            return frozenset(s)
        return state

    def run(self):
        _Flow(self.transfer, refine=self.refine, correlate=False).run(self.fn)
        return self.verdicts


STACK_POSITIVE = '''
def rewrite(self, node, declared, passed):
    by_name = {a.key.value: (i, a) for i, a in enumerate(passed)}
    args, temps = [], []
    for d in declared:
        pos, a = by_name[d.name]
        t = LetRefNode(a.value)
        args.append(t)
        temps.append((pos, t))
    temps = [t for _, t in temps]
    node = SimpleCallNode(node.pos, function=node.function, args=args)
    for t in temps[::-1]:
        node = EvalWithTempExprNode(t, node)
    return node
'''


def rule_stack(ctx, floor=9, modules=('ExprNodes', 'Nodes', 'Optimize', 'ParseTreeTransforms', 'MatchCaseNodes', 'UtilNodes', 'Builtin', 'FusedNode')):
    ix = ctx.index
    r = Rule('C20-STACK', 'temporaries wrapped around a node in a loop (EvalWithTempExprNode/LetNode) are evaluated outermost first: the list they come from is in the source order of the '
             'operands they carry (filled while iterating the operands, or re-sorted by a source index) and is wrapped back to front', floor)
    nsites = 0
    for ms in modules:
        try:
            m = ix.mod(ms)
        except AnalysisError:
            continue
        if m is None:
            continue
        for qn, owner, fn in ix.functions_of(m):
            loops = stacking_loops(fn)
            if not loops:
                continue
            try:
                verdicts = _Order(fn).run()
            except pyflow.TooManyStates:
                r.info('not decided: %s.%s (too many states)' % (m.short, qn))
                continue
            for i, (fornode, lst, pol, wname) in enumerate(loops):
                nsites += 1
                key = '%s.%s:%s[%d]' % (m.short, qn, wname, i)
                vs = verdicts.get(id(fornode), set())
                states = {v[0] for v in vs}
                if not vs:
                    r.info('not decided: %s (the loop is not reached)' % key)
                    continue
                established = 'TOP' not in states
                r.inst(key, sample='%s: evaluation order of the wrapped temporaries %s' % (key, sorted(states)), nontrivial=established)
                if not established:
                    r.info('%s: the order of (a part of) the list is not established inside the function; only definite disorder is reported' % key)
                for st, src in sorted(vs, key=str):
                    if st == 'DESC':
                        r.violate(key, m.rel, fornode.lineno, '%s.%s wraps the temporaries of `%s` so that the one created LAST becomes the outermost %s: the operands of %s are evaluated '
                                  'right to left' % (m.short, qn, ast.unparse(fornode.iter), wname, src))
                    elif st == 'PERM':
                        r.violate(key, m.rel, fornode.lineno, '%s.%s wraps temporaries for operands taken from %s, but the list was filled while iterating a different sequence (operands looked up '
                                  'by key) and is not re-sorted by their source position: the operands are evaluated in the order of that other sequence '
                                  '(e.g. keyword arguments of a C function call in declaration order instead of call order)' % (m.short, qn, src))
    if nsites < 8:
        raise AnalysisError('only %d wrapper-stacking loops found' % nsites)
    pc = ast.parse(STACK_POSITIVE).body[0]
    v = _Order(pc).run()
    r.positive_control(any(st == 'PERM' for vs in v.values() for st, src in vs), 'temporaries collected in declaration order wrapped without sorting')
    return r


# ================================================================================================================ C20-HOIST   # pending finding
# NOT registered in props/C20.run(): on the unmodified tree it reports ExprNodes.PrimaryCmpNode.analyse_types (a genuine defect, see
# /tmp/strengthen/G5/FINDING_1.md: `f() < g() < h()` with cdef noexcept functions evaluates g, f, h).  Register it once the defect is fixed/recorded.
def hoisted_pairs(fn, first='operand1', second='operand2'):
    """exit states of an analysis method in which the later operand has been forced into a temporary/simple result and the earlier one has not"""
    def is_simple_coercion(v):
        n = v
        while isinstance(n, ast.Call) and isinstance(n.func, ast.Attribute):
            if n.func.attr in SIMPLE_COERCIONS:
                return True
            n = n.func.value
        return False

    def tr(node, state):
        s = set(state)
        if isinstance(node, ast.Assign) and len(node.targets) == 1 and isinstance(node.targets[0], ast.Attribute) \
                and isinstance(node.targets[0].value, ast.Name) and node.targets[0].value.id == 'self' and node.targets[0].attr in (first, second):
            if is_simple_coercion(node.value):
                s.add(('simple', node.targets[0].attr))
                s.add(('line', node.targets[0].attr, node.lineno))
        return frozenset(s)
    o = pyflow.Flow(tr).run(fn)
    bad = []
    for st in o.normal | o.returns:
        if ('simple', second) in st and ('simple', first) not in st:
            bad += [f[2] for f in st if isinstance(f, tuple) and f[0] == 'line' and f[1] == second]
    return sorted(set(bad))


def rule_hoist(ctx, floor=2):   # pending finding
    """binary node classes (subexprs begin with operand1, operand2; both operands share the common operand type): an analysis method that forces operand2 into a
    temporary (its evaluation becomes a statement emitted before the node's result expression) must do the same for operand1 on that path, otherwise an operand1 whose
    C result is an inline expression (call of a cdef noexcept function) is evaluated AFTER operand2."""
    ix = ctx.index
    r = Rule('C20-HOIST', 'binary expression nodes: the right operand is moved into a temporary only together with the left one (otherwise an inline left operand is evaluated after it)', floor)
    m = ix.mod('ExprNodes')
    for c in sorted(m.classes.values(), key=lambda c: c.name):
        sub = ix.class_list_attr(c, 'subexprs')
        if not sub or not sub[1]:
            sub = ix.class_list_attr(c, 'child_attrs')      # PrimaryCmpNode evaluates its operands itself and lists them as child_attrs
        if not sub or not sub[1] or list(sub[1][:2]) != ['operand1', 'operand2']:
            continue
        for mname, fn in sorted(c.methods.items()):
            if mname.startswith('generate_'):
                continue
            if not any(isinstance(n, ast.Attribute) and n.attr in SIMPLE_COERCIONS for n in ast.walk(fn)):
                continue
            key = '%s.%s:operand2-before-operand1' % (c.qual, mname)
            r.inst(key, sample=key)
            for line in hoisted_pairs(fn):
                r.violate(key, m.rel, line, '%s.%s makes operand2 simple (coerce_to_simple: a non-simple operand2 is evaluated into a temporary by a statement of its own) on a path on which '
                          'operand1 stays as it is: an operand1 with an inline C result (e.g. a call of a cdef noexcept function) is then evaluated after operand2 '
                          '(`f() < g() < h()` runs g, f, h)' % (c.name, mname))
    pc = ast.parse("def analyse_types(self, env):\n    if self.cascade:\n        self.operand2 = self.operand2.coerce_to_simple(env)\n    return self\n").body[0]
    r.positive_control(bool(hoisted_pairs(pc)), 'operand2 coerced alone')
    return r


# ================================================================================================================ C20-REWRITE / C20-INPLACE / C20-SHORT
# Three tree rewrites / emitters outside Optimize.py, decided on complete families of small abstract inputs.  The *source* of the repository
# function is interpreted by the checker's own evaluator (sC21.MiniPy) on trees built from the repository's node classes with opaque leaves;
# the rewritten tree (or the emitted statement skeleton) is then evaluated by the checker under the evaluation-order semantics that C20-ORDER
# establishes for the node classes involved (let: temporary first, then the body; parallel assignment: all right-hand sides, then all targets;
# displays / binary operators: operands left to right) and compared with the language reference applied to the *original* statement.
from .sC21 import MiniPy, Obj, StubClass, HostFn, Unmodelled, PyRaise, visitor_overrides


def _analysis_overrides():
    """type analysis of operand nodes is outside these rules: analyse_* / coerce_* keep the operand sub-trees in place (ASSUMPTION of props/C20)"""
    ident = lambda it, self, *a, **k: self
    none = lambda it, self, *a, **k: None
    o = dict(visitor_overrides())
    for nm in ('analyse_types', 'analyse_target_types', 'analyse_expressions', 'coerce_to', 'coerce_to_simple', 'coerce_to_temp', 'coerce_to_pyobject', 'coerce_to_boolean'):
        o[('Node', nm)] = ident
    for nm in ('analyse_operation', 'analyse_declarations', 'analyse_target_declaration'):
        o[('Node', nm)] = none
    return o


class _RwWorld:
    def __init__(self, ix):
        self.errors = []
        rep = {'error': HostFn(lambda it, pos, msg, *a: self.errors.append(msg), 'error'), 'warning': HostFn(lambda it, *a, **k: None, 'warning')}
        self.TypeStub = StubClass('TypeStub', attrs=dict(is_pyobject=True, is_cpp_class=False, is_memoryviewslice=False, is_ctuple=False, is_string=False, is_int=False))
        types = {'*': lambda name: Obj(self.TypeStub, {'$tag': name})}
        self.it = MiniPy(ix, stub_modules={'Errors': rep, 'ParseTreeTransforms': rep, 'Builtin': types, 'PyrexTypes': types}, family_overrides=_analysis_overrides())
        self.pos = ('scenario.py', 1, 0)
        self.pytype = Obj(self.TypeStub)

    def node(self, mod_, cls_, **attrs):
        attrs.setdefault('pos', self.pos)
        return Obj(self.it.cls(mod_, cls_), attrs)

    # expression shapes: ('call', f) | ('name', n) | ('attr', base, a) | ('index', base, idx) | ('lit', v) | ('tuple'|'list', [items]) | ('star', target)
    def expr(self, e, typed=False):
        k = e[0]
        kw = {'type': self.pytype} if typed else {}
        if k == 'call':
            return self.node('ExprNodes', 'SimpleCallNode', function=self.node('ExprNodes', 'NameNode', name=e[1]), args=[], **dict(kw, **{'$tag': e[1]}))
        if k == 'name':
            return self.node('ExprNodes', 'NameNode', name=e[1], **dict(kw, **{'$tag': e[1]}))
        if k == 'attr':
            base = self.expr(e[1], typed) if isinstance(e[1], tuple) else self.node('ExprNodes', 'NameNode', name=e[1], **kw)
            return self.node('ExprNodes', 'AttributeNode', obj=base, attribute=e[2], **dict(kw, **{'$tag': _show_expr(e)}))
        if k == 'index':
            return self.node('ExprNodes', 'IndexNode', base=self.expr(e[1], typed), index=self.expr(e[2], typed), **kw)
        if k == 'lit':
            return self.node('ExprNodes', 'IntNode', value=str(e[1]), **dict(kw, **{'$tag': str(e[1])}))
        if k in ('tuple', 'list'):
            return self.node('ExprNodes', 'TupleNode' if k == 'tuple' else 'ListNode', args=[self.expr(x, typed) for x in e[1]], mult_factor=None)
        if k == 'star':
            return self.node('ExprNodes', 'StarredUnpackingNode', target=self.expr(e[1], typed))
        raise ValueError(k)


def _show_expr(e):
    k = e[0]
    if k == 'call':
        return e[1] + '()'
    if k == 'name':
        return e[1]
    if k == 'attr':
        return '%s.%s' % (_show_expr(e[1]) if isinstance(e[1], tuple) else e[1], e[2])
    if k == 'index':
        return '%s[%s]' % (_show_expr(e[1]), _show_expr(e[2]))
    if k == 'lit':
        return str(e[1])
    if k == 'star':
        return '*' + _show_expr(e[1])
    inner = ', '.join(_show_expr(x) for x in e[1])
    return '(%s)' % inner if k == 'tuple' else '[%s]' % inner


# ---- language reference: T1 = T2 = ... = display
def _ref_eval(e, ev):
    k = e[0]
    if k in ('call', 'attr'):
        ev.append(_show_expr(e))
        return ('val', _show_expr(e))
    if k in ('name', 'lit'):
        return ('val', _show_expr(e))
    if k in ('tuple', 'list'):
        return (k, tuple(_ref_eval(x, ev) for x in e[1]))
    raise ValueError(k)


def _ref_assign(t, v, stores):
    k = t[0]
    if k == 'name':
        stores.append((t[1], v))
        return
    if k in ('tuple', 'list'):
        if v[0] not in ('tuple', 'list'):
            raise ValueError('an opaque value is unpacked')
        items = list(v[1])
        star = [i for i, x in enumerate(t[1]) if x[0] == 'star']
        if star:
            i = star[0]
            after = len(t[1]) - i - 1
            if len(items) < len(t[1]) - 1:
                raise ValueError('too few values')
            for x, y in zip(t[1][:i], items[:i]):
                _ref_assign(x, y, stores)
            _ref_assign(t[1][i][1], ('list', tuple(items[i:len(items) - after])), stores)
            for x, y in zip(t[1][i + 1:], items[len(items) - after:]):
                _ref_assign(x, y, stores)
        else:
            if len(items) != len(t[1]):
                raise ValueError('%d values for %d targets' % (len(items), len(t[1])))
            for x, y in zip(t[1], items):
                _ref_assign(x, y, stores)
        return
    raise ValueError(k)


class _TreeEval:
    """evaluation of a rewritten statement tree: events (text, 'temp'|'inline'|'get'|'set'), stores, problems"""

    def __init__(self, it):
        self.it = it
        self.events = []
        self.stores = []
        self.bound = {}
        self.problems = []
        self.phase = 'inline'

    def isa(self, o, name):
        return isinstance(o, Obj) and name in self.it.mro_names(o.cls)

    def text(self, o):
        g = self.it.getattr
        if self.isa(o, 'ResultRefNode'):
            return self.bound.get(id(o), ('?', None))[0]
        if self.isa(o, 'NameNode'):
            return g(o, 'name')
        if self.isa(o, 'SimpleCallNode'):
            return o.attrs['$tag'] + '()'
        if self.isa(o, 'AttributeNode'):
            return '%s.%s' % (self.text(g(o, 'obj')), g(o, 'attribute'))
        if self.isa(o, 'IndexNode'):
            return '%s[%s]' % (self.text(g(o, 'base')), self.text(g(o, 'index')))
        return '<%s>' % o.cls.name

    def expr(self, o, reads=False):
        """-> symbolic value; `reads`: attribute / subscript reads are events of their own (augmented assignment family)"""
        g = self.it.getattr
        if self.isa(o, 'ResultRefNode'):
            if id(o) not in self.bound:
                self.problems.append(('temp-before-set', 'a temporary is used before the let that computes it'))
                return ('val', '?')
            return self.bound[id(o)][1]
        if self.isa(o, 'SequenceNode'):
            return ('tuple' if self.isa(o, 'TupleNode') else 'list', tuple(self.expr(x, reads) for x in g(o, 'args')))
        if self.isa(o, 'SimpleCallNode'):
            self.events.append((self.text(o), self.phase))
            return ('val', self.text(o))
        if self.isa(o, 'AttributeNode'):
            if reads:
                self.expr(g(o, 'obj'), reads)
                self.events.append((self.text(o), 'get'))
            else:
                self.events.append((o.attrs.get('$tag'), self.phase))
            return ('val', self.text(o) if reads else o.attrs.get('$tag'))
        if self.isa(o, 'IndexNode'):
            self.expr(g(o, 'base'), reads)
            self.expr(g(o, 'index'), reads)
            self.events.append((self.text(o), 'get'))
            return ('val', self.text(o))
        if self.isa(o, 'BinopNode'):
            self.expr(g(o, 'operand1'), reads)
            self.expr(g(o, 'operand2'), reads)
            return ('val', 'binop')
        if self.isa(o, 'NameNode') or self.isa(o, 'ConstNode'):
            return ('val', o.attrs.get('$tag'))
        raise Unmodelled('expression node %s in the rewritten tree' % o.cls.name)

    def tshape(self, o):
        g = self.it.getattr
        if self.isa(o, 'NameNode'):
            return ('name', g(o, 'name'))
        if self.isa(o, 'StarredUnpackingNode'):
            return ('star', self.tshape(g(o, 'target')))
        if self.isa(o, 'SequenceNode'):
            return ('tuple', [self.tshape(x) for x in g(o, 'args')])
        raise Unmodelled('target node %s in the rewritten tree' % o.cls.name)

    def target(self, o, v, reads=False):
        g = self.it.getattr
        if reads:
            if self.isa(o, 'AttributeNode'):
                self.expr(g(o, 'obj'), True)
            elif self.isa(o, 'IndexNode'):
                self.expr(g(o, 'base'), True)
                self.expr(g(o, 'index'), True)
            elif not self.isa(o, 'NameNode'):
                raise Unmodelled('target node %s in the rewritten tree' % o.cls.name)
            self.events.append((self.text(o), 'set'))
            return
        try:
            _ref_assign(self.tshape(o), v, self.stores)
        except ValueError as e:
            self.problems.append(('routing', 'a target list is assigned a value it cannot unpack (%s)' % e))

    def rhs_phase(self, o, reads):
        g = self.it.getattr
        if self.isa(o, 'SingleAssignmentNode'):
            return [([g(o, 'lhs')], self.expr(g(o, 'rhs'), reads))]
        if self.isa(o, 'CascadedAssignmentNode'):
            return [(list(g(o, 'lhs_list')), self.expr(g(o, 'rhs'), reads))]
        if self.isa(o, 'ParallelAssignmentNode'):
            out = []
            for st in g(o, 'stats'):
                out += self.rhs_phase(st, reads)
            return out
        raise Unmodelled('statement node %s in the rewritten tree' % o.cls.name)

    def stmt(self, o, reads=False):
        g = self.it.getattr
        if self.isa(o, 'LetNode'):
            ref = g(o, 'lazy_temp')
            te = g(o, 'temp_expression')
            if te is not g(ref, 'expression'):
                self.problems.append(('temp-before-set', 'a let evaluates an expression that is not the one its temporary stands for'))
            old, self.phase = self.phase, 'temp'
            v = self.expr(te, reads)
            self.phase = old
            self.bound[id(ref)] = (self.text(te), v)
            self.stmt(g(o, 'body'), reads)
            del self.bound[id(ref)]
            return
        if self.isa(o, 'InPlaceAssignmentNode'):
            self.events.append(('<left to the statement node>', 'unchanged'))
            return
        for targets, v in self.rhs_phase(o, reads):
            for t in targets:
                self.target(t, v, reads)


def _norm(v):
    return (v[0], tuple(_norm(x) for x in v[1])) if v[0] in ('tuple', 'list') else v


def rewrite_family():
    """chained assignments T1 [= T2 [= T3]] = display: every display shape (2..4 items, nested once, list/tuple, a name / an attribute among the items) x every compatible
    target shape per link (whole, item by item, starred first / last / middle, nested), chains of one and two links completely and a sample of three"""
    f, g, h, k = ('call', 'f'), ('call', 'g'), ('call', 'h'), ('call', 'k')
    N = lambda n: ('name', n)
    rhss = [('tuple', [f, g]), ('tuple', [f, g, h]), ('tuple', [f, ('tuple', [g, h])]), ('tuple', [f, N('n')]), ('tuple', [('attr', 'o', 'p'), g]), ('list', [f, g]),
            ('tuple', [f, g, h, k]), ('tuple', [('tuple', [f, g]), ('tuple', [h, k])])]
    out = []
    for rhs in rhss:
        n = len(rhs[1])

        def tl(sfx):
            names = [N(c + sfx) for c in 'abcd'[:n]]
            shapes = [N('x' + sfx), ('tuple', names), ('tuple', [names[0], ('star', N('s' + sfx))]), ('tuple', [('star', N('s' + sfx)), names[-1]])]
            if n >= 3:
                shapes.append(('tuple', [names[0], ('star', N('s' + sfx)), names[-1]]))
            nested = [('tuple', [N('p%d%d%s' % (i, j, sfx)) for j in range(len(x[1]))]) if x[0] in ('tuple', 'list') else names[i] for i, x in enumerate(rhs[1])]
            if nested != names:
                shapes.append(('tuple', nested))
            return shapes
        for t1 in tl('1'):
            out.append(([t1], rhs))
            for t2 in tl('2'):
                out.append(([t1, t2], rhs))
        t3 = tl('3')
        for t1 in tl('1')[:2]:
            for t2 in tl('2')[1:3]:
                out.append(([t1, t2, t3[-1]], rhs))
    return out


def rewrite_check(w, targets, rhs):
    """-> [(kind, text)]; kinds: error once temp-order inline-order temp-before-set routing | cross-order"""
    it = w.it
    it.steps = 0
    del w.errors[:]
    ev, stores = [], []
    v = _ref_eval(rhs, ev)
    for t in targets:
        _ref_assign(t, v, stores)
    tn = [w.expr(t) for t in targets]
    rn = w.expr(rhs)
    if len(tn) == 1:
        node, h = w.node('Nodes', 'SingleAssignmentNode', lhs=tn[0], rhs=rn), 'visit_SingleAssignmentNode'
    else:
        node, h = w.node('Nodes', 'CascadedAssignmentNode', lhs_list=tn, rhs=rn), 'visit_CascadedAssignmentNode'
    pp = Obj(it.cls('ParseTreeTransforms', 'PostParse'))
    res = it.call(it.getattr(pp, h), [node], {})
    if w.errors:
        return [('error', 'the transform reports an error for a valid assignment: %s' % w.errors[0])]
    te = _TreeEval(it)
    te.stmt(res)
    probs = list(te.problems)
    got = [t for t, c in te.events]
    if sorted(got) != sorted(ev):
        probs.append(('once', 'the right-hand side items are evaluated %s, the statement evaluates each of %s exactly once' % (got, ev)))
    else:
        for cls, kind in (('temp', 'temp-order'), ('inline', 'inline-order')):
            sub = [t for t, c in te.events if c == cls]
            if sub != [t for t in ev if t in sub]:
                probs.append((kind, 'the %s are evaluated in the order %s, the source order is %s' % (
                    'temporaries' if cls == 'temp' else 'items left in the partial assignments', sub, [t for t in ev if t in sub])))
        if not probs and got != ev:
            probs.append(('cross-order', 'the items are evaluated in the order %s (temporaries first), the source order is %s' % (got, ev)))
    if sorted((n, _norm(x)) for n, x in te.stores) != sorted((n, _norm(x)) for n, x in stores):
        probs.append(('routing', 'the targets receive %s instead of %s' % (sorted(te.stores), sorted(stores))))
    return probs


REWRITE_PENDING = ('cross-order',)


def rule_rewrite(ctx, part='main', floor=0):
    """part 'main': everything but the relative order of temporaries and items left inline; part 'cross-order': that (pending finding)"""
    ix = ctx.index
    r = Rule('C20-REWRITE' if part == 'main' else 'C20-REWRITE-XORDER',
             'PostParse flattening of chained/parallel assignments (flatten_parallel_assignments, map_starred_assignment, eliminate_rhs_duplicates, sort_common_subsequences, let stacking): '
             'on every assignment shape of the family the rewritten tree evaluates each right-hand side item exactly once, temporaries and inline items in source order, '
             'no temporary before its let, and routes every value to the target CPython gives it to', floor)
    m = ix.mod('ParseTreeTransforms')
    pp = ix.cls('ParseTreeTransforms', 'PostParse')
    fn = pp.methods.get('_visit_assignment_node') or next(iter(pp.methods.values()))
    w = _RwWorld(ix)
    worst = {}
    for targets, rhs in rewrite_family():
        text = ' = '.join(_show_expr(t) for t in targets) + ' = ' + _show_expr(rhs)
        try:
            probs = rewrite_check(w, targets, rhs)
        except Unmodelled as e:
            raise AnalysisError('%s: the interpreter of the checker cannot follow the assignment flattening on [%s]: %s (%s)' % (r.id, text, e, getattr(e, 'where', '')))
        except PyRaise as e:
            raise AnalysisError('%s: the assignment flattening raises %r on [%s] (%s)' % (r.id, e.value, text, getattr(e, 'where', '')))
        r.inst(text, sample=text)
        for kind, msg in probs:
            if (kind in REWRITE_PENDING) != (part != 'main'):
                continue
            if kind not in worst or len(text) < len(worst[kind][0]):
                worst[kind] = (text, msg)
    for kind, (text, msg) in sorted(worst.items()):
        r.violate('ParseTreeTransforms.PostParse._visit_assignment_node:%s' % kind, m.rel, fn.lineno,
                  'the tree PostParse builds for `%s`: %s' % (text, msg))
    # positive control: a reversed let stack is seen by the evaluation of the rewritten tree
    te = _TreeEval(w.it)
    a, b = w.expr(('call', 'f')), w.expr(('call', 'g'))
    ra, rb = (w.it.call(w.it.module_global(ix.mod('UtilNodes'), 'LetRefNode'), [x], {}) for x in (a, b))
    body = w.node('Nodes', 'SingleAssignmentNode', lhs=w.expr(('name', 'x')), rhs=w.node('ExprNodes', 'TupleNode', args=[ra, rb], mult_factor=None))
    LetNode = w.it.cls('UtilNodes', 'LetNode')
    tree = w.it.call(LetNode, [rb, w.it.call(LetNode, [ra, body], {})], {})
    te.stmt(tree)
    r.positive_control([t for t, c in te.events] == ['g()', 'f()'], 'lets stacked front to back evaluate the temporaries right to left')
    return r


# ---- ExpandInplaceOperators
def _inplace_ref(lhs, rhs):
    ev = []

    def val(e):
        k = e[0]
        if k == 'call':
            ev.append((_show_expr(e), 'eval'))
        elif k == 'attr':
            val(e[1])
            ev.append((_show_expr(e), 'get'))
        elif k == 'index':
            val(e[1])
            val(e[2])
            ev.append((_show_expr(e), 'get'))
    if lhs[0] == 'attr':
        val(lhs[1])
    elif lhs[0] == 'index':
        val(lhs[1])
        val(lhs[2])
    if lhs[0] != 'name':
        ev.append((_show_expr(lhs), 'get'))
    val(rhs)
    ev.append((_show_expr(lhs), 'set'))
    return ev


def inplace_family():
    N, C = lambda n: ('name', n), lambda f: ('call', f)
    lhss = [N('x'), ('attr', N('o'), 'a'), ('attr', C('f'), 'a'), ('index', N('o'), C('g')), ('index', C('f'), C('g')), ('index', N('o'), N('i')),
            ('attr', ('index', C('f'), C('g')), 'a'), ('index', ('attr', C('f'), 'a'), C('g')), ('index', ('index', C('f'), C('g')), C('h')),
            ('attr', ('attr', C('f'), 'a'), 'b'), ('index', ('index', N('o'), C('g')), N('i')), ('attr', ('attr', N('o'), 'a'), 'b')]
    return [(l, C('r')) for l in lhss]


def inplace_check(w, lhs, rhs):
    """-> [(kind, text)]; kinds: eval-order eval-once store temp-before-set | read-once"""
    it = w.it
    it.steps = 0
    node = w.node('Nodes', 'InPlaceAssignmentNode', lhs=w.expr(lhs, typed=True), rhs=w.expr(rhs, typed=True), operator='+')
    env = Obj(StubClass('EnvStub', attrs=dict(directives={})))
    tr = Obj(it.cls('ParseTreeTransforms', 'ExpandInplaceOperators'), dict(env_stack=[(None, env)]))
    res = it.call(it.getattr(tr, 'visit_InPlaceAssignmentNode'), [node], {})
    te = _TreeEval(it)
    te.stmt(res, reads=True)
    if te.events == [('<left to the statement node>', 'unchanged')]:
        return []
    want = _inplace_ref(lhs, rhs)
    probs = list(te.problems)
    calls = [t for t, c in te.events if c in ('temp', 'inline')]
    wcalls = [t for t, c in want if c == 'eval']
    if sorted(calls) != sorted(wcalls):
        probs.append(('eval-once', 'the calls %s are made, the statement makes each of %s exactly once' % (calls, wcalls)))
    elif calls != wcalls:
        probs.append(('eval-order', 'the calls are made in the order %s, the source order is %s' % (calls, wcalls)))
    sets = [t for t, c in te.events if c == 'set']
    if sets != [_show_expr(lhs)] or te.events[-1][1] != 'set':
        probs.append(('store', 'the stores are %s (events %s), expected one store to %s at the end' % (sets, te.events, _show_expr(lhs))))
    if not probs:
        got = [(t, 'eval' if c in ('temp', 'inline') else c) for t, c in te.events]
        if got != want:
            probs.append(('read-once', 'the statement performs %s; CPython performs %s (the primary of the target is read once)' % (
                ', '.join('%s %s' % (c, t) for t, c in got), ', '.join('%s %s' % (c, t) for t, c in want))))
    return probs


INPLACE_PENDING = ('read-once',)


def rule_inplace(ctx, part='main', floor=0):
    ix = ctx.index
    r = Rule('C20-INPLACE' if part == 'main' else 'C20-INPLACE-READONCE',
             'ExpandInplaceOperators: on every target shape of the family (name, attribute, subscript, nested twice; primaries that are names or calls) the expanded statement '
             'makes the calls of the target and the right-hand side once each, in source order, binds every temporary before its use and stores once, last', floor)
    m = ix.mod('ParseTreeTransforms')
    c = ix.cls('ParseTreeTransforms', 'ExpandInplaceOperators')
    fn = c.methods.get('visit_InPlaceAssignmentNode')
    if fn is None:
        raise AnalysisError('ExpandInplaceOperators.visit_InPlaceAssignmentNode vanished')
    w = _RwWorld(ix)
    worst = {}
    for lhs, rhs in inplace_family():
        text = '%s += %s' % (_show_expr(lhs), _show_expr(rhs))
        try:
            probs = inplace_check(w, lhs, rhs)
        except Unmodelled as e:
            raise AnalysisError('%s: the interpreter of the checker cannot follow ExpandInplaceOperators on [%s]: %s (%s)' % (r.id, text, e, getattr(e, 'where', '')))
        except PyRaise as e:
            raise AnalysisError('%s: ExpandInplaceOperators raises %r on [%s] (%s)' % (r.id, e.value, text, getattr(e, 'where', '')))
        r.inst(text, sample=text)
        for kind, msg in probs:
            if (kind in INPLACE_PENDING) != (part != 'main'):
                continue
            if kind not in worst or len(text) < len(worst[kind][0]):
                worst[kind] = (text, msg)
    for kind, (text, msg) in sorted(worst.items()):
        r.violate('ParseTreeTransforms.ExpandInplaceOperators.visit_InPlaceAssignmentNode:%s' % kind, m.rel, fn.lineno, 'the tree built for `%s`: %s' % (text, msg))
    r.positive_control(_inplace_ref(('index', ('call', 'f'), ('call', 'g')), ('call', 'r')) ==
                       [('f()', 'eval'), ('g()', 'eval'), ('f()[g()]', 'get'), ('r()', 'eval'), ('f()[g()]', 'set')], 'reference order of f()[g()] += r()')
    return r


# ---- BoolBinopNode / BoolBinopResultNode: the emitted short-circuit skeleton
_SC_IF = re.compile(r'^if \((!?)\s*(\w+)\) \{$')
_SC_ASSIGN = re.compile(r'^(\w+) = (\w+);$')
_SC_ISTRUE = re.compile(r'^(\w+) = __Pyx_PyObject_IsTrue\((\w+)\);')


def _sc_world(ix):
    class Rec:
        events, nlabel, ntemp = [], 0, 0
    rec = Rec()
    rec.events = []

    def new_label(it, self, name=None):
        rec.nlabel += 1
        return 'L%d_%s' % (rec.nlabel, name or '')

    def allocate_temp(it, self, type=None, manage_ref=False, *a, **k):
        rec.ntemp += 1
        return 't%d' % rec.ntemp
    none = lambda it, self, *a, **k: None
    FuncState = StubClass('FuncStateStub', methods=dict(allocate_temp=allocate_temp, release_temp=none))
    Code = StubClass('CodeStub', methods=dict(new_label=new_label, put_label=lambda it, self, l: rec.events.append(('label', l)), put_goto=lambda it, self, l: rec.events.append(('goto', l)),
                                               putln=lambda it, self, text='', *a, **k: rec.events.append(('line', text)), put=lambda it, self, text='', *a, **k: rec.events.append(('line', text)),
                                               mark_pos=none, error_goto_if_neg=lambda it, self, *a, **k: 'ERR', error_goto_if_null=lambda it, self, *a, **k: 'ERR',
                                               error_goto=lambda it, self, *a, **k: 'ERR'))
    TypeStub = StubClass('TypeStub', attrs=dict(is_pyobject=True))
    Leaf = StubClass('LeafStub', methods=dict(generate_evaluation_code=lambda it, self, code: rec.events.append(('eval', self.attrs['$tag'])),
                                               generate_disposal_code=lambda it, self, code: rec.events.append(('dispose', self.attrs['$tag'])), free_temps=none, make_owned_reference=none,
                                               generate_post_assignment_code=none, result=lambda it, self: self.attrs['$tag'], py_result=lambda it, self: self.attrs['$tag'],
                                               result_as=lambda it, self, t=None: self.attrs['$tag']))
    overrides = {('ExprNode', 'allocate_temp_result'): lambda it, self, code: self.attrs.__setitem__('temp_code', 'RESULT'),
                 ('ExprNode', 'result'): lambda it, self: self.attrs.get('temp_code', '?'), ('ExprNode', 'release_temp_result'): none}
    types = {'*': lambda name: Obj(TypeStub, {'$tag': name})}
    it = MiniPy(ix, stub_modules={'PyrexTypes': types, 'Builtin': types}, family_overrides=overrides)
    return it, rec, dict(Code=Code, FuncState=FuncState, TypeStub=TypeStub, Leaf=Leaf)


def _sc_build(it, K, tree, pyobj):
    typ = Obj(K['TypeStub'], dict(is_pyobject=pyobj))
    pos = ('scenario.py', 1, 0)
    if isinstance(tree, int):
        arg = Obj(K['Leaf'], {'$tag': 'a%d' % tree, 'type': typ, 'pos': pos})
        val = Obj(K['Leaf'], {'$tag': 'v%d' % tree, 'type': typ, 'pos': pos})
        return Obj(it.cls('ExprNodes', 'BoolBinopResultNode'), dict(arg=arg, value=val, type=typ, pos=pos))
    op, l, r = tree
    return Obj(it.cls('ExprNodes', 'BoolBinopNode'), dict(operator=op, operand1=_sc_build(it, K, l, pyobj), operand2=_sc_build(it, K, r, pyobj), type=typ, pos=pos))


def sc_run(events, truth):
    """execute the emitted statement skeleton for one valuation of the operands -> (operands evaluated, in order; operand whose value becomes the result)"""
    labels = {e[1]: i for i, e in enumerate(events) if e[0] == 'label'}
    stack, match_else, match_end = [], {}, {}
    for i, e in enumerate(events):
        if e[0] != 'line':
            continue
        t = e[1].strip()
        if _SC_IF.match(t):
            stack.append(i)
        elif t == '} else {':
            if not stack:
                raise Unmodelled('unbalanced braces in the emitted code')
            match_else[stack[-1]] = i
        elif t == '}':
            if not stack:
                raise Unmodelled('unbalanced braces in the emitted code')
            j = stack.pop()
            match_end[j] = i
            if j in match_else:
                match_end[match_else[j]] = i
    if stack:
        raise Unmodelled('unbalanced braces in the emitted code')
    temps, order, result = {}, [], None
    pc = steps = 0
    while pc < len(events):
        steps += 1
        if steps > 400:
            return order, 'the emitted code jumps backwards (loops)'
        e = events[pc]
        if e[0] == 'eval' and e[1].startswith('a'):
            order.append(int(e[1][1:]))
        elif e[0] == 'goto':
            if e[1] not in labels:
                return order, 'goto a label that is never placed'
            pc = labels[e[1]]
            continue
        elif e[0] == 'line':
            t = e[1].strip()
            m = _SC_IF.match(t)
            if m:
                name = temps.get(m.group(2), m.group(2))
                if not re.match(r'^a\d+$', name):
                    raise Unmodelled('the emitted test reads %s' % name)
                v = truth[int(name[1:])] != bool(m.group(1))
                if not v:
                    pc = (match_else[pc] if pc in match_else else match_end[pc]) + 1
                    continue
            elif t == '} else {':
                pc = match_end[pc] + 1
                continue
            elif t != '}':
                m2, m3 = _SC_ISTRUE.match(t), _SC_ASSIGN.match(t)
                if m2:
                    temps[m2.group(1)] = m2.group(2)
                elif m3 and m3.group(1) == 'RESULT':
                    result = int(m3.group(2)[1:]) if re.match(r'^v\d+$', m3.group(2)) else m3.group(2)
                elif '{' in t or '}' in t or 'goto' in t:
                    raise Unmodelled('emitted line %r' % t)
        pc += 1
    return order, result


def sc_python(tree, truth):
    order = []

    def ev(t):
        if isinstance(t, int):
            order.append(t)
            return t
        op, l, r = t
        x = ev(l)
        return ev(r) if (op == 'and') == truth[x] else x
    return order, ev(tree)


def sc_shapes(n, start=0):
    if n == 1:
        return [start]
    return [(op, l, r) for k in range(1, n) for l in sc_shapes(k, start) for r in sc_shapes(n - k, start + k) for op in ('and', 'or')]


def _sc_show(t):
    return 'x%d' % t if isinstance(t, int) else '(%s %s %s)' % (_sc_show(t[1]), t[0], _sc_show(t[2]))


def rule_short(ctx, floor=90):
    ix = ctx.index
    r = Rule('C20-SHORT', 'BoolBinopNode / BoolBinopResultNode: for every and/or tree with up to four operands (object and C result type) and every truth valuation, the emitted '
             'if/goto skeleton evaluates exactly the operands Python evaluates, in the same order, and yields the value of the same operand', floor)
    c = ix.cls('ExprNodes', 'BoolBinopNode')
    fn = c.methods.get('generate_bool_evaluation_code') or c.methods.get('generate_evaluation_code')
    if fn is None:
        raise AnalysisError('BoolBinopNode.generate_evaluation_code vanished')
    it, rec, K = _sc_world(ix)
    worst = None
    for n in (2, 3, 4):
        for tree in sc_shapes(n):
            for pyobj in (True, False):
                del rec.events[:]
                rec.nlabel = rec.ntemp = 0
                it.steps = 0
                node = _sc_build(it, K, tree, pyobj)
                code = Obj(K['Code'], dict(funcstate=Obj(K['FuncState'])))
                text = '%s [%s]' % (_sc_show(tree), 'object' if pyobj else 'C')
                try:
                    it.call(it.getattr(node, 'generate_evaluation_code'), [code], {})
                    events = list(rec.events)
                    bad = None
                    for vals in itertools.product((False, True), repeat=n):
                        want, got = sc_python(tree, vals), sc_run(events, vals)
                        if tuple(got) != tuple(want):
                            bad = (vals, got, want)
                            break
                except Unmodelled as e:
                    raise AnalysisError('C20-SHORT: the interpreter of the checker cannot follow the code generator on %s: %s (%s)' % (text, e, getattr(e, 'where', '')))
                except PyRaise as e:
                    raise AnalysisError('C20-SHORT: the code generator raises %r on %s (%s)' % (e.value, text, getattr(e, 'where', '')))
                r.inst(text, sample=text)
                if bad and (worst is None or len(text) < len(worst[0])):
                    worst = (text, bad)
    if worst:
        text, (vals, got, want) = worst
        r.violate('ExprNodes.BoolBinopNode.generate_evaluation_code:short-circuit', c.module.rel, fn.lineno,
                  'the code emitted for %s with operand truth values %s evaluates the operands %s and yields %s; Python evaluates %s and yields the value of x%s: '
                  'short-circuiting stops at the wrong operand' % (text, list(vals), ['x%d' % i for i in got[0]], ('the value of x%d' % got[1]) if isinstance(got[1], int) else got[1],
                                                                   ['x%d' % i for i in want[0]], want[1]))
    ev = [('eval', 'a0'), ('line', 'if (!a0) {'), ('goto', 'L1'), ('line', '} else {'), ('line', 'RESULT = v0;'), ('goto', 'L2'), ('line', '}'), ('label', 'L1'), ('eval', 'a1'), ('line', 'RESULT = v1;'), ('label', 'L2')]
    r.positive_control(tuple(sc_run(ev, (True, True))) != tuple(sc_python(('and', 0, 1), (True, True))), 'an `and` emitted with the test of `or` is rejected')
    return r


# ================================================================================================================ C20-LISTDIR
# A child list of a node (args of a display or call, key_value_pairs, stats of a parallel assignment, lhs_list ...) is in source order.  A code generator that asks
# the elements for their evaluation / assignment code in a loop emits that code in iteration order, so the loop must run front to back.
EVAL_REQUESTS = ('generate_evaluation_code', 'generate_rhs_evaluation_code', 'generate_assignment_code', 'generate_execution_code', 'generate_subexpr_evaluation_code',
                 'generate_bool_evaluation_code', 'generate_deletion_code')


def _listdir_sites(ix, c, fn):
    """-> [(For node, child attribute, polarity ASC|DESC|None)] for the loops of one method that request evaluation code from the elements of a child list"""
    aliases = {}
    for n in walk_no_nested(fn):
        if isinstance(n, ast.Assign) and len(n.targets) == 1 and isinstance(n.targets[0], ast.Name):
            aliases.setdefault(n.targets[0].id, []).append(n.value)
    selfname = fn.args.args[0].arg if fn.args.args else 'self'
    kids = set()
    for nm in ('child_attrs', 'subexprs'):
        a = ix.class_list_attr(c, nm)
        if a and a[1]:
            kids.update(a[1])

    def child_attr(e, depth=0):
        if isinstance(e, ast.Attribute) and isinstance(e.value, ast.Name) and e.value.id == selfname and e.attr in kids:
            return e.attr
        if isinstance(e, ast.Call) and isinstance(e.func, ast.Attribute) and isinstance(e.func.value, ast.Name) and e.func.value.id == selfname and e.func.attr == 'subexpr_nodes':
            return 'subexpr_nodes()'
        if isinstance(e, ast.Name) and depth < 3 and len(aliases.get(e.id, ())) == 1:
            return child_attr(aliases[e.id][0], depth + 1)
        if isinstance(e, ast.Call) and isinstance(e.func, ast.Name) and e.func.id in ('len', 'list', 'tuple') and len(e.args) == 1:
            return child_attr(e.args[0], depth)
        if isinstance(e, ast.Call) and isinstance(e.func, ast.Name) and e.func.id == 'range' and e.args:
            return child_attr(e.args[-1] if len(e.args) == 1 else e.args[1], depth)
        return None
    out = []
    for n in walk_no_nested(fn):
        if not isinstance(n, ast.For):
            continue
        tnames = {x.id for x in ast.walk(n.target) if isinstance(x, ast.Name)}
        asks = False
        for x in ast.walk(n):
            if isinstance(x, ast.Call) and isinstance(x.func, ast.Attribute) and x.func.attr in EVAL_REQUESTS:
                recv = x.func.value
                names = {y.id for y in ast.walk(recv) if isinstance(y, ast.Name)}
                if names & tnames and selfname not in {y.id for y in ast.walk(recv) if isinstance(y, ast.Name) and not isinstance(recv, ast.Subscript)}:
                    asks = True
                elif isinstance(recv, ast.Subscript) and names & tnames:
                    asks = True
        if not asks:
            continue
        it_expr = n.iter
        # self.subexpr_nodes() (the default iteration over the operands) is a source list like an attribute
        class _Sub(ast.NodeTransformer):
            def visit_Call(self, x):
                self.generic_visit(x)
                if child_attr(x) == 'subexpr_nodes()':
                    return ast.copy_location(ast.Attribute(value=ast.Name(id=selfname, ctx=ast.Load()), attr='subexpr_nodes()', ctx=ast.Load()), x)
                return x
        import copy as _copy
        it_expr = _Sub().visit(_copy.deepcopy(it_expr))
        kind, srcs, pol = _iter_shape(it_expr)
        attrs = [('subexpr_nodes()' if isinstance(s, ast.Attribute) and s.attr == 'subexpr_nodes()' else child_attr(s)) for s in srcs]
        attrs = [a for a in attrs if a]
        if attrs:
            out.append((n, attrs[0], pol))
        elif kind == 'other' and any(child_attr(x) for x in ast.walk(n.iter) if isinstance(x, (ast.Attribute, ast.Name))):
            out.append((n, next(child_attr(x) for x in ast.walk(n.iter) if isinstance(x, (ast.Attribute, ast.Name)) and child_attr(x)), None))
    return out


def rule_listdir(ctx, floor=19):
    ix = ctx.index
    r = Rule('C20-LISTDIR', 'code generators that request evaluation / assignment code from the elements of a child list in a loop (display items, call arguments, dict items, '
             'constituent assignments, cascaded targets, default sub-expressions) iterate the list front to back', floor)
    for ms in ('ExprNodes', 'Nodes', 'UtilNodes'):
        m = ix.mod(ms)
        for c in sorted(m.classes.values(), key=lambda c: c.name):
            for name, fn in sorted(c.methods.items()):
                if not name.startswith('generate_'):
                    continue
                seen = {}
                for fornode, attr, pol in _listdir_sites(ix, c, fn):
                    i = seen[attr] = seen.get(attr, -1) + 1
                    key = '%s.%s:%s%s' % (c.qual, name, attr, '#%d' % i if i else '')
                    r.inst(key, sample='%s: for %s in %s' % (key, ast.unparse(fornode.target), ast.unparse(fornode.iter)), nontrivial=pol is not None)
                    if pol is None:
                        r.info('not decided: %s (iteration `%s` not understood)' % (key, ast.unparse(fornode.iter)))
                    elif pol == 'DESC':
                        r.violate(key, m.rel, fornode.lineno, '%s.%s walks the child list %s back to front (`for %s in %s`) while asking its elements for their evaluation / assignment code: '
                                  'the sub-expressions of the list are evaluated right to left' % (c.name, name, attr, ast.unparse(fornode.target), ast.unparse(fornode.iter)))
    pc = ast.parse("class X:\n    child_attrs = ['stats']\n    def generate_execution_code(self, code):\n        for stat in reversed(self.stats):\n            stat.generate_rhs_evaluation_code(code)\n")

    class _Ix:
        def class_list_attr(self, c, nm):
            return (c, ['stats']) if nm == 'child_attrs' else None
    r.positive_control([p for _, _, p in _listdir_sites(_Ix(), None, pc.body[0].body[1])] == ['DESC'], 'reversed(self.stats) recognised')
    return r


# ================================================================================================================ C20-KWMAP
# GeneralCallNode.map_to_simple_call_node: keyword arguments of a call to a C function are mapped to the declared positional parameters.  Decided on the complete family of
# calls to a function with 3 and 4 declared parameters: every split into positional / keyword arguments, every order of the keywords, every argument simple or not.
def kwmap_family():
    out = []
    for n, pcounts in ((3, (0, 1, 2)), (4, (1, 2))):
        names = ['p%d' % i for i in range(n)]
        for p in pcounts:
            for perm in itertools.permutations(names[p:]):
                for flags in itertools.product((True, False), repeat=n):
                    if all(flags):
                        continue            # nothing with a side effect
                    out.append((names, p, perm, flags))
    return out


def kwmap_check(w, names, p, perm, flags):
    """-> None when the call is left alone, else [(kind, text)]"""
    it = w.it
    it.steps = 0
    del w.errors[:]
    Leaf = w.leaf_cls
    simple = dict(zip(names, flags))
    args = {nm: Obj(Leaf, {'$tag': 'e_%s' % nm, '$simple': simple[nm], 'pos': w.pos, 'type': w.pytype}) for nm in names}
    written = names[:p] + list(perm)
    want = ['e_%s' % nm for nm in written if not simple[nm]]
    pos_tuple = w.node('ExprNodes', 'TupleNode', args=[args[nm] for nm in names[:p]], mult_factor=None)
    Str = StubClass('KeyStub')
    items = [w.node('ExprNodes', 'DictItemNode', key=Obj(Str, {'value': nm, 'pos': w.pos}), value=args[nm]) for nm in perm]
    kw = w.node('ExprNodes', 'DictNode', key_value_pairs=items)
    ArgDecl = StubClass('ArgDeclStub')
    ftype = Obj(StubClass('FuncTypeStub', attrs=dict(is_ptr=False, is_cfunction=True)), {'args': [Obj(ArgDecl, {'name': nm}) for nm in names]})
    entry = Obj(StubClass('EntryStub', attrs=dict(is_cmethod=False, as_variable=None)), {'type': ftype})
    fnode = w.node('ExprNodes', 'NameNode', name='cfunc', entry=entry)
    call = w.node('ExprNodes', 'GeneralCallNode', function=fnode, positional_args=pos_tuple, keyword_args=kw)
    res = it.call(it.getattr(call, 'map_to_simple_call_node'), [], {})
    if res is call or res is None:
        return None
    if w.errors:
        return [('error', 'an error is reported for a valid call: %s' % w.errors[0])]
    g = it.getattr
    isa = lambda o, nm: isinstance(o, Obj) and nm in it.mro_names(o.cls)
    order, bound, probs = [], {}, []
    node = res
    while isa(node, 'EvalWithTempExprNode'):
        te = g(node, 'temp_expression')
        if isa(te, 'ResultRefNode') or not isinstance(te, Obj) or te.cls is not Leaf:
            raise Unmodelled('temporary of an unexpected expression')
        if not te.attrs['$simple']:
            order.append(te.attrs['$tag'])          # a temporary for a simple argument is harmless
        bound[id(g(node, 'lazy_temp'))] = te
        node = g(node, 'subexpression')
    if not isa(node, 'SimpleCallNode'):
        raise Unmodelled('result is not a SimpleCallNode')
    final = []
    for a in g(node, 'args'):
        if isa(a, 'ResultRefNode'):
            if id(a) not in bound:
                probs.append(('temp-unbound', 'an argument refers to a temporary that no EvalWithTempExprNode computes'))
                final.append(g(a, 'expression'))
            else:
                final.append(bound[id(a)])
        else:
            if not a.attrs['$simple']:
                order.append(a.attrs['$tag'])
            final.append(a)
    tags = [a.attrs.get('$tag') for a in final]
    if tags != ['e_%s' % nm for nm in names[:len(tags)]] or len(tags) != len(names):
        probs.append(('routing', 'the parameters (%s) receive %s' % (', '.join(names), tags)))
    if sorted(order) != sorted(want):
        probs.append(('once', 'the non-simple arguments are evaluated %s, the call evaluates each of %s exactly once' % (order, want)))
    elif order != want:
        probs.append(('order', 'the non-simple arguments are evaluated in the order %s, the call is written %s' % (order, want)))
    return probs


KWMAP_PENDING = ('routing',)


def rule_kwmap(ctx, part='main', floor=150):
    """part 'main': evaluation order / exactly once / temporaries bound; part 'routing' (pending finding): every parameter receives the argument that names it"""
    ix = ctx.index
    r = Rule('C20-KWMAP' if part == 'main' else 'C20-KWMAP-ROUTING', 'GeneralCallNode.map_to_simple_call_node on every call of the family (3 and 4 declared parameters x positional/keyword split x keyword order x simple / non-simple '
             'arguments): each non-simple argument is evaluated exactly once, in the order the call is written, and reaches the parameter it names', floor)
    c = ix.cls('ExprNodes', 'GeneralCallNode')
    fn = c.methods.get('map_to_simple_call_node')
    if fn is None:
        raise AnalysisError('GeneralCallNode.map_to_simple_call_node vanished')
    w = _RwWorld(ix)
    w.leaf_cls = StubClass('ArgLeaf', methods=dict(is_simple=lambda it, self: self.attrs['$simple']))
    worst, mapped = {}, 0
    for names, p, perm, flags in kwmap_family():
        text = 'cfunc(%s)' % ', '.join(['%s%s' % ('n' if flags[i] else 'f', i) + ('' if flags[i] else '()') for i in range(p)] +
                                        ['%s=%s%d%s' % (nm, 'n' if flags[names.index(nm)] else 'f', names.index(nm), '' if flags[names.index(nm)] else '()') for nm in perm])
        try:
            probs = kwmap_check(w, names, p, perm, flags)
        except Unmodelled as e:
            raise AnalysisError('C20-KWMAP: the interpreter of the checker cannot follow map_to_simple_call_node on [%s]: %s (%s)' % (text, e, getattr(e, 'where', '')))
        except PyRaise as e:
            raise AnalysisError('C20-KWMAP: map_to_simple_call_node raises %r on [%s] (%s)' % (e.value, text, getattr(e, 'where', '')))
        if probs is None:
            r.info('left to the Python call protocol: %s' % text)
            continue
        mapped += 1
        r.inst(text, sample=text)
        for kind, msg in probs:
            if (kind in KWMAP_PENDING) != (part != 'main'):
                continue
            if kind not in worst or len(text) < len(worst[kind][0]):
                worst[kind] = (text, msg)
    for kind, (text, msg) in sorted(worst.items()):
        r.violate('ExprNodes.GeneralCallNode.map_to_simple_call_node:%s' % kind, c.module.rel, fn.lineno, 'the call built for `%s` (cdef cfunc(%s)): %s' % (text, 'p0, p1, ...', msg))
    r.positive_control(len(kwmap_family()) > 150 and mapped > 0, 'family enumerated and mapped')
    return r
