"""C01-KEYERR: utility code that raises KeyError(key) itself must hand CPython an argument tuple.

PyErr_SetObject(PyExc_KeyError, v) instantiates KeyError(*v) when v is a tuple and KeyError() when v is None (documented
behaviour of PyErr_SetObject/exception normalisation); CPython's own dict code therefore always packs (key,)
(_PyErr_SetKeyError).  Every such site must pass a freshly packed 1-tuple, or be guarded so that the value is neither a
tuple nor None on that path."""
import os, re

from ..core import Rule, AnalysisError
from ..engine.cutil import strip_c_comments, match_paren, split_args
from ..engine.cguard import guards, _match_brace

SITE = re.compile(r'\bPyErr_SetObject\s*\(')
FUNC_HEAD = re.compile(r'^[A-Za-z_][^;{}()#]*?\b([A-Za-z_]\w*)\s*\([^;{}]*\)\s*\{', re.M)


def _function_at(text, pos):
    best = None
    for m in FUNC_HEAD.finditer(text, 0, pos):
        best = m
    if best is None:
        return None
    b0 = best.end() - 1
    b1 = _match_brace(text, b0)
    if not (b0 < pos <= b1):
        return None
    return best.group(1), b0, b1


def _check_site(body, off, val):
    """-> (ok, why)"""
    v = val.strip()
    if re.search(r'\b%s\s*=\s*(?:PyTuple_Pack\s*\(\s*1\s*,|PyTuple_New\s*\(\s*1\s*\))' % re.escape(v), body[:off]):
        return True, 'fresh 1-tuple'
    if re.match(r'PyTuple_Pack\s*\(\s*1\s*,', v):
        return True, 'fresh 1-tuple'
    g = guards(body, off)
    no_tuple = no_none = False
    for cond, pol in g:
        c = re.sub(r'\s+', '', cond)
        c = re.sub(r'\b(?:un)?likely\((.*)\)$', r'\1', c)
        vv = re.escape(re.sub(r'\s+', '', v))
        if not pol:
            # else-branch of a disjunction: every disjunct is false here
            parts = [re.sub(r'^\((.*)\)$', r'\1', x) for x in c.split('||')]
            if any(re.fullmatch(r'PyTuple_Check(?:Exact)?\(%s\)' % vv, x) and 'Exact' not in x for x in parts):
                no_tuple = True
            if any(re.fullmatch(r'%s==Py_None|Py_None==%s|Py_IsNone\(%s\)' % (vv, vv, vv), x) for x in parts):
                no_none = True
        else:
            parts = [re.sub(r'^\((.*)\)$', r'\1', x) for x in c.split('&&')]
            if any(re.fullmatch(r'!PyTuple_Check\(%s\)' % vv, x) for x in parts):
                no_tuple = True
            if any(re.fullmatch(r'%s!=Py_None|Py_None!=%s|!Py_IsNone\(%s\)' % (vv, vv, vv), x) for x in parts):
                no_none = True
    if no_tuple and no_none:
        return True, 'guarded: neither tuple nor None'
    missing = [w for w, f in (('a tuple', no_tuple), ('None', no_none)) if not f]
    return False, ' / '.join(missing)


def rule_keyerror_args(ctx, floor=3):
    r = Rule('C01-KEYERR', 'every PyErr_SetObject(PyExc_KeyError, v) in the utility code passes a freshly packed 1-tuple or is guarded '
             'against v being a tuple or None (else KeyError.args differs from CPython for such keys)', floor)
    udir = ctx.path('Cython/Utility')
    for fn in sorted(os.listdir(udir)):
        if not fn.endswith(('.c', '.h', '.cpp')):
            continue
        rel = 'Cython/Utility/' + fn
        text = strip_c_comments(ctx.read(rel))
        for m in SITE.finditer(text):
            p = m.end() - 1
            q = match_paren(text, p)
            args = split_args(text[p + 1:q])
            if len(args) != 2 or args[0].strip() != 'PyExc_KeyError':
                continue
            f = _function_at(text, m.start())
            line = text.count('\n', 0, m.start()) + 1
            if f is None:
                raise AnalysisError('%s:%d: cannot locate the function enclosing a KeyError site' % (rel, line))
            name, b0, b1 = f
            key = '%s:%s:%s' % (fn, name, args[1].strip())
            ok, why = _check_site(text[b0:b1 + 1], m.start() - b0, args[1])
            r.inst(key, sample='%s -> %s' % (key, why))
            if not ok:
                r.violate(key, rel, line, '%s raises KeyError with PyErr_SetObject(PyExc_KeyError, %s) on a path where %s may be %s: CPython would '
                          'raise KeyError((key,)-packed) — the exception args differ for such keys' % (name, args[1].strip(), args[1].strip(), why))
    pc_body = '{ if (x) { PyErr_SetObject(PyExc_KeyError, key); } }'
    pc2 = '{ if (PyTuple_Check(key) || key == Py_None) { t = PyTuple_Pack(1, key); PyErr_SetObject(PyExc_KeyError, t); } else { PyErr_SetObject(PyExc_KeyError, key); } }'
    ok1 = _check_site(pc_body, pc_body.index('PyErr'), 'key')[0]
    ok2 = _check_site(pc2, pc2.rindex('PyErr'), 'key')[0] and _check_site(pc2, pc2.index('PyErr'), 't')[0]
    r.positive_control((not ok1) and ok2, 'unguarded raw key rejected; guarded/packed forms accepted')
    return r
