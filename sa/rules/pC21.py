"""Rules for C21 — definedness analysis (FlowControl.ControlFlowAnalysis / check_definitions / NameNode / type inference).

C21-ABS    abstract handlers of ControlFlowAnalysis (body = `raise`) are never the dispatch target of a concrete node class
C21-V3     push/pop, counter and save/restore discipline of the visitor-owned state of ControlFlowAnalysis
C21-LAT    lattice rule: decision table of the cf_maybe_null / cf_is_null summarisers over the complete finite domain of reaching sets
C21-DEF    NameNode defaults are conservative; the unbound check depends on cf_maybe_null and is not lost for cf_is_null
C21-INFER  the type chosen for an untyped local depends on its definedness facts
"""
import ast, itertools

from ..core import Rule, AnalysisError, node_src
from ..engine import pyflow
from ..engine.pyindex import walk_no_nested, is_self_attr

FLOW = 'Cython/Compiler/FlowControl.py'


def _cfa(ix):
    return ix.cls('FlowControl', 'ControlFlowAnalysis')


def _body_nodoc(fn):
    return [s for s in fn.body if not (isinstance(s, ast.Expr) and isinstance(s.value, ast.Constant))]


# ====================================================================================== C21-ABS
def dispatch(handler_names, mro_names, prefix='visit_'):
    """Visitor.find_handler: first class of the MRO for which a handler exists."""
    for k in mro_names:
        if prefix + k in handler_names:
            return prefix + k
    return None


def _visitor_methods(ix, vis):
    out = {}
    for k in ix.mro(vis):
        for name, fn in k.methods.items():
            if name.startswith('visit_'):
                out.setdefault(name, (k, fn))
        for name, tgt in k.aliases.items():
            if name.startswith('visit_') and name not in out:
                r = ix.find_method(k, tgt)
                if r:
                    out[name] = (r[0], r[1])
    return out


def instantiated_names(ix):
    def build():
        names = set()
        for m in ix.modules.values():
            for n in ast.walk(m.tree):
                if isinstance(n, ast.Call):
                    nm = n.func.id if isinstance(n.func, ast.Name) else n.func.attr if isinstance(n.func, ast.Attribute) else None
                    if nm:
                        names.add(nm)
        return names
    return ix.ctx.memo('pC21.instantiated', build)


def rule_abstract_handlers(ctx):
    ix = ctx.index
    cfa = _cfa(ix)
    r = Rule('C21-ABS', 'handlers of ControlFlowAnalysis that only raise ("Generic loops are not supported", "Unhandled assignment node") are abstract: '
             'every instantiated node class below them dispatches to a specific handler that models its control flow', floor=7)
    methods = _visitor_methods(ix, cfa)
    abstract = {}
    for name, (owner, fn) in methods.items():
        if owner is not cfa:
            continue
        body = _body_nodoc(fn)
        if len(body) == 1 and isinstance(body[0], ast.Raise):
            abstract[name] = fn
    if not abstract:
        raise AnalysisError('ControlFlowAnalysis has no raising (abstract) handler any more (visit_LoopNode / visit_AssignmentNode vanished)')
    inst = instantiated_names(ix)
    hnames = set(methods)
    for hname, fn in sorted(abstract.items()):
        target = hname[len('visit_'):]
        bases = ix.classes_by_name.get(target, [])
        if not bases:
            raise AnalysisError('abstract handler %s names no class' % hname)
        for base in bases:
            for c in [base] + ix.subclasses(base):
                if c.name not in inst:
                    continue     # never instantiated: an abstract base itself
                mro = [k.name for k in ix.mro(c)]
                got = dispatch(hnames, mro)
                key = 'ControlFlowAnalysis.%s<-%s' % (hname, c.name)
                r.inst(key, sample='%s -> %s' % (c.qual, got))
                if got in abstract:
                    r.violate(key, c.module.rel, c.node.lineno,
                              'node class %s is instantiated but ControlFlowAnalysis dispatches it to %s, which only raises %s: its loop/assignment '
                              'structure is not modelled in the control-flow graph (compiler crash instead of definedness facts)' % (
                                  c.qual, got, node_src(abstract[got].body[-1].exc, 60) if abstract[got].body[-1].exc else 'an error'))
    r.positive_control(dispatch({'visit_LoopNode', 'visit_Node', 'visit_WhileStatNode'}, ['DoUntilStatNode', 'LoopNode', 'StatNode', 'Node']) == 'visit_LoopNode',
                       'a new loop class without handler dispatches to visit_LoopNode')
    return r


# ====================================================================================== C21-V3
def _recv_text(n):
    try:
        return ast.unparse(n)
    except Exception:
        return None


def _rooted_at_self(n):
    while isinstance(n, (ast.Attribute, ast.Subscript)):
        n = n.value
    return isinstance(n, ast.Name) and n.id == 'self'


def _stack_ops(fn):
    """[(kind, receiver text, node)] kind in push/pop/inc/dec for receivers rooted at self."""
    out = []
    for n in walk_no_nested(fn):
        if isinstance(n, ast.Call) and isinstance(n.func, ast.Attribute) and _rooted_at_self(n.func.value):
            if n.func.attr == 'append' and len(n.args) == 1:
                out.append(('push', _recv_text(n.func.value), n))
            elif n.func.attr == 'pop' and not n.args:
                out.append(('pop', _recv_text(n.func.value), n))
        elif isinstance(n, ast.AugAssign) and _rooted_at_self(n.target) and isinstance(n.value, ast.Constant) and n.value.value == 1:
            if isinstance(n.op, ast.Add):
                out.append(('inc', _recv_text(n.target), n))
            elif isinstance(n.op, ast.Sub):
                out.append(('dec', _recv_text(n.target), n))
    return out


def _depths(fn, tracked, summaries, selfname='self'):
    """-> {stack: set of net depths at normal/return exits} for one method (helper effects applied at self.helper() calls)."""
    def tr(n, state):
        d = dict(f[1:] for f in state if isinstance(f, tuple) and f[0] == 'd')
        ops = []
        for x in ([n] if isinstance(n, ast.AugAssign) else []) + pyflow.calls_in(n):
            if isinstance(x, ast.AugAssign):
                if _rooted_at_self(x.target) and isinstance(x.value, ast.Constant) and x.value.value == 1:
                    t = _recv_text(x.target)
                    if t in tracked:
                        ops.append((t, 1 if isinstance(x.op, ast.Add) else -1 if isinstance(x.op, ast.Sub) else 0))
                continue
            if isinstance(x.func, ast.Attribute) and _rooted_at_self(x.func.value):
                t = _recv_text(x.func.value)
                if t in tracked and x.func.attr == 'append' and len(x.args) == 1:
                    ops.append((t, 1))
                elif t in tracked and x.func.attr == 'pop' and not x.args:
                    ops.append((t, -1))
                elif isinstance(x.func.value, ast.Name) and x.func.value.id == selfname and x.func.attr in summaries:
                    for t2, k in summaries[x.func.attr].items():
                        ops.append((t2, k))
        if not ops:
            return state
        for t, k in ops:
            d[t] = d.get(t, 0) + k
        return frozenset([f for f in state if not (isinstance(f, tuple) and f[0] == 'd')] + [('d', t, k) for t, k in d.items() if k])
    o = pyflow.Flow(tr).run(fn)
    res = {}
    for st in o.normal | o.returns:
        d = dict(f[1:] for f in st if isinstance(f, tuple) and f[0] == 'd')
        for t in tracked:
            res.setdefault(t, set()).add(d.get(t, 0))
    return res


def _saved_attr_problems(fn):
    """Save/restore of scoped visitor attributes:  `old = self.a` ... `self.a = x` ... `self.a = old`;
    `old, self.a = self.a, x` ... `self.a = old`;  `self.stack.append((self.a, self.b))` ... `self.a, _ = self.stack.pop()`.
    -> (set of attrs with a save, set of attrs left modified on some normal exit)."""
    saves = set()

    def pairs(n):
        """(target, value) pairs of an assignment, tuple assignments unpacked position-wise."""
        if not isinstance(n, ast.Assign):
            return []
        out = []
        for t in n.targets:
            if isinstance(t, (ast.Tuple, ast.List)) and isinstance(n.value, (ast.Tuple, ast.List)) and len(t.elts) == len(n.value.elts):
                out += list(zip(t.elts, n.value.elts))
            else:
                out.append((t, n.value))
        return out

    def pushed_attrs(call):
        a = call.args[0]
        elts = a.elts if isinstance(a, (ast.Tuple, ast.List)) else [a]
        return [e.attr for e in elts if is_self_attr(e)]

    def is_stack_pop(v):
        return isinstance(v, ast.Call) and isinstance(v.func, ast.Attribute) and v.func.attr == 'pop' and not v.args and _rooted_at_self(v.func.value)

    def tr(n, state):
        s = set(state)
        if isinstance(n, ast.Assign):
            ps = pairs(n)
            # right-hand sides are evaluated before any store: saves first
            for t, v in ps:
                if isinstance(t, ast.Name):
                    s = {f for f in s if not (isinstance(f, tuple) and f[0] == 'saved' and f[1] == t.id)}
            for t, v in ps:
                if isinstance(t, ast.Name) and is_self_attr(v) and ('MOD', v.attr) not in s:
                    s.add(('saved', t.id, v.attr))
                    saves.add(v.attr)
            for t, v in ps:
                if is_self_attr(t):
                    if isinstance(v, ast.Name) and ('saved', v.id, t.attr) in s:
                        s.discard(('MOD', t.attr))
                    elif any(f for f in s if isinstance(f, tuple) and f[0] in ('saved', 'pushed') and f[-1] == t.attr):
                        s.add(('MOD', t.attr))
                elif isinstance(t, (ast.Tuple, ast.List)) and is_stack_pop(v):
                    for e in t.elts:
                        if is_self_attr(e):
                            s.discard(('MOD', e.attr))
                    s = {f for f in s if not (isinstance(f, tuple) and f[0] == 'pushed')}
        for c in pyflow.calls_in(n):
            if isinstance(c.func, ast.Attribute) and c.func.attr == 'append' and len(c.args) == 1 and _rooted_at_self(c.func.value):
                for a in pushed_attrs(c):
                    if ('MOD', a) not in s:
                        s.add(('pushed', a))
                        saves.add(a)
        return frozenset(s)
    o = pyflow.Flow(tr).run(fn)
    left = set()
    for st in o.normal | o.returns:
        left |= {f[1] for f in st if isinstance(f, tuple) and f[0] == 'MOD'}
    stored = {n.attr for n in walk_no_nested(fn) if is_self_attr(n) and isinstance(n.ctx, ast.Store)}
    return saves & stored, left


def rule_visitor_state(ctx):
    ix = ctx.index
    cfa = _cfa(ix)
    r = Rule('C21-V3', 'ControlFlowAnalysis: pushes/pops on its loop, exception and scope stacks and the in_try_block counter balance on every normal path of a handler; '
             'visitor attributes saved before being re-bound are restored', floor=12)
    pushes, pops = set(), set()
    for name, fn in cfa.methods.items():
        for kind, t, n in _stack_ops(fn):
            if kind in ('push', 'inc'):
                pushes.add(t)
            else:
                pops.add(t)
    # a receiver is a stack if its attribute is read as one somewhere in the module: X.a[-1], X.a[::-1], reversed(X.a), X.a.pop()
    stack_like = set()
    for n in ast.walk(cfa.module.tree):
        a = None
        if isinstance(n, ast.Subscript) and isinstance(n.value, ast.Attribute):
            sl = n.slice
            if (isinstance(sl, ast.UnaryOp) and isinstance(sl.op, ast.USub)) or (isinstance(sl, ast.Slice) and sl.step is not None):
                a = n.value.attr
        elif isinstance(n, ast.Call) and isinstance(n.func, ast.Name) and n.func.id == 'reversed' and n.args and isinstance(n.args[0], ast.Attribute):
            a = n.args[0].attr
        elif isinstance(n, ast.Call) and isinstance(n.func, ast.Attribute) and n.func.attr == 'pop' and not n.args and isinstance(n.func.value, ast.Attribute):
            a = n.func.value.attr
        if a:
            stack_like.add(a)
    counters = set()
    for name, fn in cfa.methods.items():
        for kind, t, n in _stack_ops(fn):
            if kind in ('inc', 'dec'):
                counters.add(t)
    tracked = {t for t in (pushes | pops) if t in counters or t.rsplit('.', 1)[-1] in stack_like}
    for need in ('loops', 'exceptions'):
        if not any(t.endswith('.' + need) for t in tracked):
            raise AnalysisError('ControlFlowAnalysis no longer pushes and pops a %s stack' % need)
    # helper summaries (methods that are not dispatch entry points): uniform net effect
    summaries = {}
    helpers = {name: fn for name, fn in cfa.methods.items() if not name.startswith('visit_')}
    for _round in range(2):
        for name, fn in helpers.items():
            if not any(t in tracked for k, t, n in _stack_ops(fn)) and not any(
                    isinstance(c.func, ast.Attribute) and is_self_attr(c.func) and c.func.attr in summaries for c in ast.walk(fn) if isinstance(c, ast.Call)):
                continue
            try:
                res = _depths(fn, tracked, summaries)
            except pyflow.TooManyStates:
                continue
            eff = {t: next(iter(v)) for t, v in res.items() if len(v) == 1 and next(iter(v)) != 0}
            if eff:
                summaries[name] = eff

    def check(fn, cname):
        try:
            res = _depths(fn, tracked, summaries)
        except pyflow.TooManyStates:
            return None
        return {t: v for t, v in res.items() if v != {0}}

    for name, fn in sorted(cfa.methods.items()):
        ops = [(k, t) for k, t, n in _stack_ops(fn) if t in tracked]
        uses_helper = any(isinstance(c, ast.Call) and isinstance(c.func, ast.Attribute) and is_self_attr(c.func) and c.func.attr in summaries for c in ast.walk(fn))
        if ops or uses_helper:
            stacks = sorted({t for k, t in ops}) or sorted({t for c in ast.walk(fn) if isinstance(c, ast.Call) and isinstance(c.func, ast.Attribute)
                                                            and is_self_attr(c.func) and c.func.attr in summaries for t in summaries[c.func.attr]})
            bad = check(fn, name)
            for t in stacks:
                key = 'ControlFlowAnalysis.%s:%s' % (name, t)
                r.inst(key, sample='%s balances %s' % (name, t))
                if bad is None:
                    r.info('%s: state explosion' % key)
                    continue
                if name in summaries and t in summaries[name] and bad.get(t) == {summaries[name][t]}:
                    continue    # a helper with a uniform effect, accounted for at its call sites
                if t in bad:
                    r.violate(key, cfa.module.rel, fn.lineno,
                              '%s leaves %s unbalanced on some normal path (net %s): later break/continue/return/raise statements are linked to a stale loop or '
                              'exception descriptor, so the reaching definitions after them are wrong' % (name, t, sorted(bad[t])))
        saves, left = _saved_attr_problems(fn)
        for a in sorted(saves):
            key = 'ControlFlowAnalysis.%s:self.%s' % (name, a)
            r.inst(key, sample='%s saves and rebinds self.%s' % (name, a))
            if a in left:
                r.violate(key, cfa.module.rel, fn.lineno,
                          '%s rebinds self.%s after saving it but does not restore the saved value on every normal exit: the scope/flow/reduction context of the '
                          'enclosing construct is lost for the statements that follow' % (name, a))
    pc = ast.parse("def visit_X(self, node):\n    self.flow.loops.append(1)\n    if node.a:\n        return node\n    self._visit(node.body)\n    self.flow.loops.pop()\n    return node\n").body[0]
    res = _depths(pc, {'self.flow.loops'}, {})
    pc2 = ast.parse("def visit_Y(self, node):\n    old, self.flag = self.flag, True\n    if node.a:\n        return node\n    self.flag = old\n    return node\n").body[0]
    r.positive_control(res.get('self.flow.loops') != {0} and 'flag' in _saved_attr_problems(pc2)[1], 'early return between push and pop / before restore')
    return r


# ====================================================================================== C21-LAT
MARKERS = ('Uninitialized', 'Unknown')
DOMAIN = ('U', 'K', 'a1', 'a2')


def _marker_of(n):
    if isinstance(n, ast.Name) and n.id in MARKERS:
        return 'U' if n.id == 'Uninitialized' else 'K'
    if isinstance(n, ast.Attribute) and n.attr in MARKERS:
        return 'U' if n.attr == 'Uninitialized' else 'K'
    return None


class _SetEval:
    """3-valued evaluation of tests over one concrete value of the reaching set (texts in `names` denote the set)."""

    def __init__(self, names):
        self.names = names

    def is_set(self, n):
        return _recv_text(n) in self.names

    def value(self, n, S):
        """int / bool value of an expression, or None."""
        if isinstance(n, ast.Constant) and isinstance(n.value, (int, bool)):
            return n.value
        if isinstance(n, ast.Call) and isinstance(n.func, ast.Name) and n.func.id == 'len' and len(n.args) == 1 and self.is_set(n.args[0]):
            return len(S)
        return None

    def ev(self, t, S):
        if isinstance(t, ast.UnaryOp) and isinstance(t.op, ast.Not):
            v = self.ev(t.operand, S)
            return None if v is None else not v
        if isinstance(t, ast.BoolOp):
            vals = [self.ev(v, S) for v in t.values]
            if isinstance(t.op, ast.And):
                if any(v is False for v in vals):
                    return False
                return True if all(v is True for v in vals) else None
            if any(v is True for v in vals):
                return True
            return False if all(v is False for v in vals) else None
        if isinstance(t, ast.Compare) and len(t.ops) == 1:
            m = _marker_of(t.left)
            if m and isinstance(t.ops[0], (ast.In, ast.NotIn)) and self.is_set(t.comparators[0]):
                v = m in S
                return v if isinstance(t.ops[0], ast.In) else not v
            a, b = self.value(t.left, S), self.value(t.comparators[0], S)
            if a is not None and b is not None:
                op = t.ops[0]
                for cls, f in ((ast.Eq, lambda: a == b), (ast.NotEq, lambda: a != b), (ast.Lt, lambda: a < b), (ast.LtE, lambda: a <= b),
                               (ast.Gt, lambda: a > b), (ast.GtE, lambda: a >= b)):
                    if isinstance(op, cls):
                        return f()
            return None
        if self.is_set(t):
            return bool(S)
        v = self.value(t, S)
        if isinstance(v, bool) or (isinstance(v, int) and isinstance(t, ast.Call)):
            return bool(v)
        return None


def _summariser_outcomes(stmts, set_names, target, attr_mn='cf_maybe_null', attr_in='cf_is_null'):
    """Run the statements for every reaching set S0 in the powerset of DOMAIN.
    -> {S0: set of (final maybe_null, final is_null)} with None = not assigned on that path, '?' = non-constant."""
    se = _SetEval(set_names)

    def getS(state):
        for f in state:
            if isinstance(f, tuple) and f[0] == 'S':
                return f[1]
        raise AnalysisError('lost the reaching-set fact')

    def put(state, tag, val):
        return frozenset([f for f in state if not (isinstance(f, tuple) and f[0] == tag)] + [(tag, val)])

    def tr(n, state):
        S = getS(state)
        for c in pyflow.calls_in(n):
            if isinstance(c.func, ast.Attribute) and se.is_set(c.func.value):
                if c.func.attr in ('discard', 'remove') and len(c.args) == 1 and _marker_of(c.args[0]):
                    S = S - {_marker_of(c.args[0])}
                elif c.func.attr in ('add', 'update', 'clear', 'pop', 'difference_update', 'intersection_update', 'symmetric_difference_update'):
                    raise AnalysisError('the reaching set %s is mutated by .%s() inside the summariser: not modelled' % (_recv_text(c.func.value), c.func.attr))
        state = put(state, 'S', S)
        if isinstance(n, ast.Assign):
            for t in n.targets:
                if isinstance(t, ast.Attribute) and _recv_text(t.value) == target and t.attr in (attr_mn, attr_in):
                    v = n.value.value if isinstance(n.value, ast.Constant) and isinstance(n.value.value, bool) else '?'
                    state = put(state, 'mn' if t.attr == attr_mn else 'in', v)
                elif _recv_text(t) in set_names and _recv_text(n.value) not in set_names:
                    raise AnalysisError('the reaching set %s is re-bound inside the summariser: not modelled' % _recv_text(t))
        return state

    def refine(test, truth, state):
        v = se.ev(test, getS(state))
        if v is not None and v != truth:
            return None
        return state
    out = {}
    for k in range(len(DOMAIN) + 1):
        for comb in itertools.combinations(DOMAIN, k):
            S0 = frozenset(comb)
            flow = pyflow.Flow(tr, refine=refine, correlate=False)
            o = flow.block(stmts, {frozenset([('S', S0)])})
            res = set()
            for st in o.normal | o.returns | o.continues:
                d = {f[0]: f[1] for f in st if isinstance(f, tuple) and f[0] in ('mn', 'in')}
                res.add((d.get('mn'), d.get('in')))
            out[S0] = res
    return out


def _lattice_problems(outcomes, default_mn, default_in):
    """obligations: maybe_null False => neither Uninitialized nor Unknown reaches; is_null True => exactly {Uninitialized} reaches."""
    probs = []
    for S0, res in outcomes.items():
        for mn, isn in res:
            fmn = default_mn if mn is None else mn
            fin = default_in if isn is None else isn
            if fmn is False and (S0 & {'U', 'K'}):
                probs.append((S0, 'maybe', 'cf_maybe_null is False although %s can reach the reference' % ' and '.join(
                    sorted({'U': 'Uninitialized', 'K': 'Unknown'}[m] for m in S0 & {'U', 'K'}))))
            if fin is True and S0 != frozenset(['U']):
                probs.append((S0, 'isnull', 'cf_is_null is True although the reaching set is %s, not exactly {Uninitialized}' % _show(S0)))
    return probs


def _show(S0):
    names = {'U': 'Uninitialized', 'K': 'Unknown', 'a1': 'assignment1', 'a2': 'assignment2'}
    return '{' + ', '.join(names[x] for x in DOMAIN if x in S0) + '}'


def _summariser_regions(fn, attr_mn='cf_maybe_null', attr_in='cf_is_null'):
    """Regions of a function that assign <T>.cf_maybe_null / <T>.cf_is_null: (label, stmts, target text, set texts)."""
    regions = []

    def assigns(stmts):
        out = []
        for s in stmts:
            for n in ast.walk(s):
                if isinstance(n, ast.Assign):
                    for t in n.targets:
                        if isinstance(t, ast.Attribute) and t.attr in (attr_mn, attr_in):
                            out.append(t)
        return out

    def set_names_for(stmts, target, params):
        names = set()
        for s in stmts:
            for n in ast.walk(s):
                if isinstance(n, ast.Compare) and len(n.ops) == 1 and isinstance(n.ops[0], (ast.In, ast.NotIn)) and _marker_of(n.left):
                    names.add(_recv_text(n.comparators[0]))
        # aliases `x = T.cf_state`
        for s in stmts:
            for n in ast.walk(s):
                if isinstance(n, ast.Assign) and len(n.targets) == 1 and isinstance(n.targets[0], ast.Name) and _recv_text(n.value) in names:
                    names.add(n.targets[0].id)
                elif isinstance(n, ast.Assign) and len(n.targets) == 1 and isinstance(n.targets[0], ast.Name) and n.targets[0].id in names and isinstance(n.value, ast.Attribute):
                    names.add(_recv_text(n.value))
        return names

    loops = [n for n in walk_no_nested(fn) if isinstance(n, (ast.For,)) and assigns(n.body)]
    inner = set()
    for lp in loops:
        for n in ast.walk(lp):
            if n is not lp and isinstance(n, ast.For):
                inner.add(id(n))
    covered = set()
    for lp in loops:
        if id(lp) in inner:
            continue
        tg = {_recv_text(t.value) for t in assigns(lp.body)}
        if len(tg) != 1:
            raise AnalysisError('summariser loop at line %d assigns definedness flags on several objects %s' % (lp.lineno, sorted(tg)))
        target = tg.pop()
        names = set_names_for(lp.body, target, ())
        if not names:
            raise AnalysisError('summariser loop over %s has no membership test on the reaching set' % node_src(lp.iter, 40))
        regions.append(('for %s in %s' % (node_src(lp.target, 30), node_src(lp.iter, 40)), lp.body, target, names))
        for n in ast.walk(lp):
            covered.add(id(n))
    rest = [t for t in assigns(fn.body) if id(t) not in covered]
    if rest:
        tg = {_recv_text(t.value) for t in rest}
        if len(tg) != 1:
            raise AnalysisError('%s assigns definedness flags on several objects outside loops: %s' % (fn.name, sorted(tg)))
        target = tg.pop()
        names = set_names_for(fn.body, target, ())
        if not names:
            raise AnalysisError('%s has no membership test on the reaching set' % fn.name)
        regions.append(('body', fn.body, target, names))
    return regions


def rule_lattice(ctx):
    ix = ctx.index
    m = ix.mod('FlowControl')
    r = Rule('C21-LAT', 'definedness lattice: in check_definitions and ControlFlowState.__init__, evaluated for every reaching set over {Uninitialized, Unknown, two assignments}, '
             'cf_maybe_null ends up False only if neither Uninitialized nor Unknown reaches, cf_is_null True only if exactly {Uninitialized} reaches', floor=40)
    sites = []
    cd = m.functions.get('check_definitions')
    if cd is None:
        raise AnalysisError('FlowControl.check_definitions vanished')
    # class defaults of the node that carries the flags: unassigned in check_definitions = keeps NameNode's defaults (checked by C21-DEF) -> skip (None)
    for label, stmts, target, names in _summariser_regions(cd):
        sites.append(('check_definitions', label, stmts, target, names, None, None, cd))
    cfs = m.classes.get('ControlFlowState')
    if cfs is None or '__init__' not in cfs.methods:
        raise AnalysisError('FlowControl.ControlFlowState.__init__ vanished')

    def cdefault(c, name):
        a = ix.find_class_attr(c, name)
        if a is None or not (isinstance(a[1], ast.Constant) and isinstance(a[1].value, bool)):
            raise AnalysisError('%s.%s has no boolean class default' % (c.name, name))
        return a[1].value
    init = cfs.methods['__init__']
    for label, stmts, target, names in _summariser_regions(init):
        sites.append(('ControlFlowState.__init__', label, stmts, target, names, cdefault(cfs, 'cf_maybe_null'), cdefault(cfs, 'cf_is_null'), init))
    if len([s for s in sites if s[0] == 'check_definitions']) < 2:
        raise AnalysisError('check_definitions no longer has the two summariser loops (assignment hints, references)')
    for fname, label, stmts, target, names, dmn, din, fn in sites:
        outcomes = _summariser_outcomes(stmts, names, target)
        probs = _lattice_problems(outcomes, dmn, din)
        for S0 in outcomes:
            r.inst('%s:%s:%s' % (fname, label, _show(S0)), sample='%s [%s] reaching set %s -> %s' % (fname, label, _show(S0), sorted(outcomes[S0], key=str)))
        seen = set()
        for S0, kind, msg in probs:
            key = '%s:%s:%s:%s' % (fname, label, kind, _show(S0))
            if key in seen:
                continue
            seen.add(key)
            r.violate(key, m.rel, stmts[0].lineno,
                      '%s (%s): %s — the run-time unbound check / NULL-safe refcounting is dropped for a variable that may be unbound' % (fname, label, msg)
                      if kind == 'maybe' else
                      '%s (%s): %s — a variable that may be bound is treated as definitely unbound (its old value is not released, reads raise unconditionally)' % (fname, label, msg))
    pc = ast.parse("for node in refs:\n    if Uninitialized in node.cf_state:\n        node.cf_maybe_null = True\n    else:\n        node.cf_is_null = False\n        node.cf_maybe_null = False\n").body[0]
    pcp = _lattice_problems(_summariser_outcomes(pc.body, {'node.cf_state'}, 'node'), None, None)
    r.positive_control(any(S0 == frozenset(['K']) and k == 'maybe' for S0, k, msg in pcp), 'summariser without the Unknown arm')
    return r


# ====================================================================================== C21-DEF
FLAG_ATTRS = ('cf_maybe_null', 'cf_is_null')


class _Tri:
    """Partial evaluation of a test under fixed values of self.cf_maybe_null / self.cf_is_null: -> True/False/residual text."""

    def __init__(self, flags, inline):
        self.flags, self.inline = flags, inline

    def ev(self, t, depth=0):
        if is_self_attr(t) and t.attr in self.flags:
            return self.flags[t.attr]
        if isinstance(t, ast.Name) and t.id in self.inline and depth < 6:
            return self.ev(self.inline[t.id], depth + 1)
        if isinstance(t, ast.Constant) and isinstance(t.value, bool):
            return t.value
        if isinstance(t, ast.UnaryOp) and isinstance(t.op, ast.Not):
            v = self.ev(t.operand, depth)
            if isinstance(v, bool):
                return not v
            return 'not (%s)' % v
        if isinstance(t, ast.BoolOp):
            is_and = isinstance(t.op, ast.And)
            rest = []
            for x in t.values:
                v = self.ev(x, depth)
                if isinstance(v, bool):
                    if v != is_and:
                        # absorbing element; operands before it were undetermined but without side effects
                        return v
                    continue
                rest.append(v)
            if not rest:
                return is_and
            if len(rest) == 1:
                return rest[0]
            return (' and ' if is_and else ' or ').join('(%s)' % x for x in rest)
        return ' '.join(ast.unparse(t).split())


def _unbound_sites(fn, flags):
    """Path contexts (frozenset of (residual test, truth)) under which a call to *unbound* check API is reached."""
    counts = {}
    for n in walk_no_nested(fn):
        if isinstance(n, ast.Assign) and len(n.targets) == 1 and isinstance(n.targets[0], ast.Name):
            counts.setdefault(n.targets[0].id, []).append(n.value)
        elif isinstance(n, (ast.AugAssign, ast.For, ast.With)):
            for x in ast.walk(n.target if hasattr(n, 'target') else n):
                if isinstance(x, ast.Name) and isinstance(x.ctx, ast.Store):
                    counts.setdefault(x.id, []).extend([None, None])
    params = {a.arg for a in fn.args.args + fn.args.kwonlyargs}
    inline = {k: v[0] for k, v in counts.items() if len(v) == 1 and v[0] is not None and k not in params and
              any(is_self_attr(x) and x.attr in FLAG_ATTRS for x in ast.walk(v[0]))}
    # transitive: locals defined from inlined locals
    changed = True
    while changed:
        changed = False
        for k, v in counts.items():
            if k not in inline and len(v) == 1 and v[0] is not None and k not in params and any(isinstance(x, ast.Name) and x.id in inline for x in ast.walk(v[0])):
                inline[k] = v[0]
                changed = True
    tri = _Tri(flags, inline)
    found = set()

    def is_site(n):
        return isinstance(n, ast.Call) and isinstance(n.func, ast.Attribute) and 'unbound' in n.func.attr and not is_self_attr(n.func)

    def block(stmts, ctxt):
        """-> (terminated, ctxt after)"""
        for s in stmts:
            if isinstance(s, ast.If):
                v = tri.ev(s.test)
                if v is True:
                    t, ctxt2 = block(s.body, ctxt)
                    if t:
                        return True, ctxt
                elif v is False:
                    t, ctxt2 = block(s.orelse, ctxt)
                    if t:
                        return True, ctxt
                else:
                    tb, _ = block(s.body, ctxt | {(v, True)})
                    te, _ = block(s.orelse, ctxt | {(v, False)})
                    if tb and te:
                        return True, ctxt
                    if tb:
                        ctxt = ctxt | {(v, False)}
                    elif te:
                        ctxt = ctxt | {(v, True)}
                continue
            if isinstance(s, (ast.For, ast.While, ast.With, ast.Try)):
                for fld in ('body', 'orelse', 'finalbody'):
                    block(getattr(s, fld, []) or [], ctxt)
                for h in getattr(s, 'handlers', []) or []:
                    block(h.body, ctxt)
                continue
            for n in ast.walk(s):
                if is_site(n):
                    found.add(frozenset(ctxt))
            if isinstance(s, (ast.Return, ast.Raise)):
                return True, ctxt
        return False, ctxt
    block(fn.body, frozenset())
    return found


def _guard_problems(fn):
    """R1: the check is emitted for definitely-unbound references wherever it is emitted for maybe-unbound ones (and vice versa);
    R2: the check depends on cf_maybe_null at all."""
    maybe = _unbound_sites(fn, {'cf_maybe_null': True, 'cf_is_null': False})
    isnull = _unbound_sites(fn, {'cf_maybe_null': True, 'cf_is_null': True})
    bound = _unbound_sites(fn, {'cf_maybe_null': False, 'cf_is_null': False})
    probs = {}
    if maybe != isnull:
        lost = maybe - isnull
        extra = isnull - maybe
        probs['R1'] = ('for a definitely unbound reference (cf_is_null) the unbound check is %s%s' % (
            'not emitted where it is emitted for a maybe-unbound one (path: %s)' % _ctx_text(lost) if lost else '',
            ('; ' if lost else '') + 'emitted only for cf_is_null, not for cf_maybe_null (path: %s)' % _ctx_text(extra) if extra else ''))
    if not (maybe - bound):
        probs['R2'] = 'no unbound check is emitted for a maybe-unbound reference that would not also be emitted for a definitely bound one: the check no longer depends on cf_maybe_null'
    return probs, (maybe, isnull, bound)


def _ctx_text(ctxs):
    out = []
    for c in sorted(ctxs, key=lambda c: sorted(map(str, c))):
        out.append(' and '.join(('(%s)' if tr else 'not (%s)') % t for t, tr in sorted(c, key=str)) or 'always')
    txt = ' | '.join(out)
    return txt if len(txt) <= 400 else txt[:397] + '...'


def rule_defaults_guards(ctx):
    ix = ctx.index
    nn = ix.cls('ExprNodes', 'NameNode')
    r = Rule('C21-DEF', 'NameNode: class defaults cf_maybe_null=True / cf_is_null=False are the conservative ones; in every method that emits the unbound check '
             '(put_error_if_unbound) the check is emitted for cf_is_null exactly where it is emitted for cf_maybe_null, and it depends on cf_maybe_null', floor=5)
    for attr, want in (('cf_maybe_null', True), ('cf_is_null', False)):
        a = ix.find_class_attr(nn, attr)
        key = 'ExprNodes.NameNode.%s' % attr
        r.inst(key, sample='%s = %s' % (key, node_src(a[1]) if a else None))
        if a is None or not (isinstance(a[1], ast.Constant) and a[1].value is want):
            r.violate(key, nn.module.rel, getattr(a[1], 'lineno', nn.node.lineno) if a else nn.node.lineno,
                      'class default of NameNode.%s is %s, not %r: name nodes that control-flow analysis never visited (synthesised after the analysis, unvisited children) '
                      'would %s' % (attr, node_src(a[1]) if a else 'missing', want,
                                    'be read without an unbound check' if attr == 'cf_maybe_null' else 'be treated as definitely unbound'))
    n = 0
    for name, fn in sorted(nn.methods.items()):
        if not any(isinstance(x, ast.Call) and isinstance(x.func, ast.Attribute) and 'unbound' in x.func.attr and not is_self_attr(x.func) for x in walk_no_nested(fn)):
            continue
        n += 1
        probs, (maybe, isnull, bound) = _guard_problems(fn)
        for req in ('R1', 'R2'):
            key = 'ExprNodes.NameNode.%s:%s' % (name, 'is_null-as-checked-as-maybe_null' if req == 'R1' else 'depends-on-maybe_null')
            r.inst(key, sample='%s: unbound check reachable on %d path(s) for maybe_null, %d for is_null, %d for a bound reference' % (name, len(maybe), len(isnull), len(bound)))
            if req in probs:
                r.violate(key, nn.module.rel, fn.lineno, 'NameNode.%s: %s — reading/deleting an unbound local does not raise UnboundLocalError' % (name, probs[req]))
    if n < 2:
        raise AnalysisError('fewer than two NameNode methods emit put_error_if_unbound (read and delete paths expected)')
    pc = ast.parse("def generate_result_code(self, code):\n    raise_unbound = self.cf_is_null and not self.allow_null\n    if raise_unbound and self.entry.type.is_pyobject:\n        code.put_error_if_unbound(self.pos, self.entry)\n").body[0]
    r.positive_control('R1' in _guard_problems(pc)[0] and 'R2' in _guard_problems(pc)[0], 'check emitted only for cf_is_null')
    return r


# ====================================================================================== C21-INFER
DEFINEDNESS_WORDS = {'cf_maybe_null', 'cf_is_null', 'Uninitialized'}


def _closure_functions(ix, m, owner, fn):
    """fn, its nested functions, and the module functions / methods of `owner` it (transitively) mentions by name."""
    seen, todo, out = set(), [fn], []
    while todo:
        f = todo.pop()
        if id(f) in seen:
            continue
        seen.add(id(f))
        out.append(f)
        for n in ast.walk(f):
            if isinstance(n, (ast.FunctionDef, ast.AsyncFunctionDef)) and n is not f:
                todo.append(n)
            elif isinstance(n, ast.Name) and n.id in m.functions:
                todo.append(m.functions[n.id])
            elif is_self_attr(n) and owner is not None:
                r = ix.find_method(owner, n.attr)
                if r:
                    todo.append(r[1])
    return out


def _definedness_dependent_entry_attrs(ix):
    """Attributes of symbol-table entries that FlowControl writes (assign / append / add / update) under a test on a definedness fact."""
    m = ix.mod('FlowControl')
    out = set()

    def mentions_def(t):
        return any((isinstance(x, ast.Name) and x.id in DEFINEDNESS_WORDS) or (isinstance(x, ast.Attribute) and x.attr in DEFINEDNESS_WORDS) for x in ast.walk(t))

    def walk(stmts, guarded):
        for s in stmts:
            if isinstance(s, ast.If):
                g = guarded or mentions_def(s.test)
                walk(s.body, g)
                walk(s.orelse, g)
                continue
            for fld in ('body', 'orelse', 'finalbody'):
                sub = getattr(s, fld, None)
                if isinstance(sub, list) and sub and isinstance(sub[0], ast.stmt):
                    walk(sub, guarded)
            for h in getattr(s, 'handlers', []) or []:
                walk(h.body, guarded)
            if not guarded or isinstance(s, (ast.For, ast.While, ast.With, ast.Try, ast.FunctionDef, ast.ClassDef)):
                continue
            for n in ast.walk(s):
                tgt = None
                if isinstance(n, ast.Attribute) and isinstance(n.ctx, ast.Store):
                    tgt = n
                elif isinstance(n, ast.Call) and isinstance(n.func, ast.Attribute) and n.func.attr in ('append', 'add', 'update', 'extend', 'insert') and isinstance(n.func.value, ast.Attribute):
                    tgt = n.func.value
                if tgt is not None and 'entry' in ast.unparse(tgt.value) and tgt.attr not in DEFINEDNESS_WORDS:
                    out.add(tgt.attr)
    for qn, owner, fn in ix.functions_of(m):
        walk(fn.body, False)
    return out


def _infer_channels(ix, m, owner, fn, extra_attrs):
    chans = []
    for f in _closure_functions(ix, m, owner, fn):
        for n in ast.walk(f):
            if isinstance(n, ast.Attribute) and (n.attr in DEFINEDNESS_WORDS or n.attr in extra_attrs) and isinstance(n.ctx, ast.Load):
                chans.append((f.name, n.attr, n.lineno))
            elif isinstance(n, ast.Name) and n.id in DEFINEDNESS_WORDS:
                chans.append((f.name, n.id, n.lineno))
            elif isinstance(n, ast.Call) and isinstance(n.func, ast.Name) and n.func.id in ('getattr', 'hasattr') and len(n.args) >= 2 and \
                    isinstance(n.args[1], ast.Constant) and (n.args[1].value in DEFINEDNESS_WORDS or n.args[1].value in extra_attrs):
                chans.append((f.name, n.args[1].value, n.lineno))
    return chans


def _c_type_sites(fn, setter='set_entry_type'):
    """Calls self.set_entry_type(entry, T, scope) where T is not the literal object type."""
    out = []
    for n in ast.walk(fn):
        if isinstance(n, ast.Call) and isinstance(n.func, ast.Attribute) and n.func.attr == setter and len(n.args) >= 2:
            t = n.args[1]
            if isinstance(t, (ast.Name, ast.Attribute)) and _recv_text(t).split('.')[-1] == 'py_object_type':
                continue
            out.append(n)
    return out


def rule_infer(ctx):
    ix = ctx.index
    m = ix.mod('TypeInference')
    r = Rule('C21-INFER', 'SimpleAssignmentTypeInferer.infer_types: wherever a possibly non-object (C) type is given to an untyped local, the decision depends on the '
             'local\'s definedness facts (a C variable cannot carry the unbound state)', floor=1)
    c = m.classes.get('SimpleAssignmentTypeInferer')
    if c is None or 'infer_types' not in c.methods:
        raise AnalysisError('TypeInference.SimpleAssignmentTypeInferer.infer_types vanished')
    fn = c.methods['infer_types']
    if 'set_entry_type' not in c.methods:
        raise AnalysisError('SimpleAssignmentTypeInferer.set_entry_type vanished (the point where an inferred type is committed)')
    sites = _c_type_sites(fn)
    if not sites:
        raise AnalysisError('infer_types no longer commits an inferred type through set_entry_type')
    extra = _definedness_dependent_entry_attrs(ix)
    chans = _infer_channels(ix, m, c, fn, extra)
    key = 'TypeInference.SimpleAssignmentTypeInferer.infer_types:definedness'
    r.inst(key, sample='%d site(s) commit an inferred type; definedness facts read: %s; entry attributes written under a definedness test in FlowControl: %s' % (
        len(sites), sorted({c2[1] for c2 in chans}) or 'none', sorted(extra) or 'none'))
    if not chans:
        r.violate(key, m.rel, sites[0].lineno,
                  'infer_types gives untyped locals the spanning type of their assignments (%s) without consulting any definedness fact '
                  '(cf_maybe_null / cf_is_null of the references, Uninitialized in their cf_state, or an entry attribute that check_definitions derives from them): '
                  'a local that is unbound on some path gets a C type and reading it returns an uninitialised C value instead of raising UnboundLocalError '
                  '(`if x: y = 1` / `return y` with x = 0)' % ', '.join(sorted({node_src(s.args[1], 30) for s in sites})))
    pcm = ast.parse("class T:\n    def set_entry_type(self, e, t, s):\n        e.type = t\n    def infer_types(self, scope):\n        for entry in scope.entries.values():\n            t = spanning_type([a.inferred_type for a in entry.cf_assignments])\n            self.set_entry_type(entry, t, scope)\n")
    pfn = pcm.body[0].body[1]
    has = any((isinstance(n, ast.Attribute) and n.attr in DEFINEDNESS_WORDS) or (isinstance(n, ast.Name) and n.id in DEFINEDNESS_WORDS) for n in ast.walk(pfn))
    r.positive_control(bool(_c_type_sites(pfn)) and not has, 'inferer that never reads a definedness fact')
    return r
