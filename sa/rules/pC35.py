"""Helpers for the C35 rules of the fourth round: a small control-flow graph for C helper bodies (built on the statement
parser of pC17: blocks, if/else, loops, switch, goto/labels, return), preprocessor-variant enumeration, and a
finite-state forward dataflow over that graph.  Clients supply a transfer function on the normalised text of simple
statements and branch conditions; states must be hashable and drawn from a finite set, so the fixpoint terminates.

Nothing here executes C: statements are read as text, conditions are only used to correlate branches on expressions
whose identifiers are never assigned in the function (`stable` conditions).
"""
import re

from ..core import AnalysisError
from .pC17 import parse_body, as_list, norm

PP = re.compile(r'^[ \t]*#[ \t]*(\w+)(.*)$')


def pp_variants(text, limit=32):
    """Resolve #if groups of a function body by enumeration -> [(label, text without preprocessor lines)].
    Groups with the same sequence of condition texts are decided together."""
    lines = text.split('\n')

    def parse(i, nested):
        items = []
        while i < len(lines):
            m = PP.match(lines[i])
            if not m:
                items.append(('line', lines[i]))
                i += 1
                continue
            d, rest = m.group(1), ' '.join(m.group(2).split())
            while lines[i].rstrip().endswith('\\') and i + 1 < len(lines):
                i += 1
                rest += ' ' + ' '.join(lines[i].split())
            if d in ('if', 'ifdef', 'ifndef'):
                arms = []
                sub, i = parse(i + 1, True)
                arms.append(((d + ' ' + rest) if d != 'if' else rest, sub))
                while True:
                    if i >= len(lines):
                        raise AnalysisError('unterminated #if in a C function body')
                    m2 = PP.match(lines[i])
                    d2, rest2 = m2.group(1), ' '.join(m2.group(2).split())
                    if d2 == 'elif':
                        sub, i = parse(i + 1, True)
                        arms.append((rest2, sub))
                    elif d2 == 'else':
                        sub, i = parse(i + 1, True)
                        arms.append(('else', sub))
                    elif d2 == 'endif':
                        i += 1
                        break
                    else:
                        raise AnalysisError('unexpected #%s in a C function body' % d2)
                items.append(('group', arms))
            elif d in ('elif', 'else', 'endif'):
                if not nested:
                    raise AnalysisError('unbalanced #%s in a C function body' % d)
                return items, i
            elif d in ('define', 'undef', 'pragma', 'error', 'warning', 'line', 'include'):
                i += 1                        # no effect on control flow
            else:
                raise AnalysisError('preprocessor directive #%s inside a C function body is not modelled' % d)
        if nested:
            raise AnalysisError('unterminated #if in a C function body')
        return items, i

    items, _ = parse(0, False)
    sigs = []

    def collect(its):
        for it in its:
            if it[0] == 'group':
                sig = tuple(c for c, _ in it[1])
                if sig not in sigs:
                    sigs.append(sig)
                for _, sub in it[1]:
                    collect(sub)
    collect(items)
    choices = [[]]
    for sig in sigs:
        n = len(sig) + (0 if sig[-1] == 'else' else 1)
        choices = [c + [k] for c in choices for k in range(n)]
        if len(choices) > limit:
            return None

    def render(its, choice):
        out = []
        for it in its:
            if it[0] == 'line':
                out.append(it[1])
            else:
                sig = tuple(c for c, _ in it[1])
                k = choice[sigs.index(sig)]
                if k < len(it[1]):
                    out.append(render(it[1][k][1], choice))
        return '\n'.join(out)

    res = []
    for ch in choices:
        label = '; '.join((sig[k] if k < len(sig) and sig[k] != 'else' else 'not(' + ' / '.join(s for s in sig if s != 'else') + ')') for sig, k in zip(sigs, ch)) or 'no #if'
        res.append((label, render(items, ch)))
    return res


# ---------------------------------------------------------------------------------------------- CFG
class Node:
    __slots__ = ('kind', 'text', 'succ', 'pos')     # kind: ev | br | ret | nop ; succ: list of node ids (br: [true, false])

    def __init__(self, kind, text='', pos=0):
        self.kind, self.text, self.succ, self.pos = kind, text, [], pos

    def __repr__(self):
        return '<%s %r -> %s>' % (self.kind, self.text[:30], self.succ)


class CFG:
    """nodes[0] is the entry; node `exit` (kind ret, text '') is falling off the end of the function."""

    def __init__(self, body_text):
        self.nodes = []
        self.labels = {}
        self.gotos = []
        self._cases = None
        stmts = parse_body(body_text)
        self.exit = self._new('ret', '')
        entry = self._new('nop')
        last = self._seq(stmts, [entry], None, None)
        for n in last:
            self.nodes[n].succ.append(self.exit)
        for nid, lab in self.gotos:
            if lab not in self.labels:
                raise AnalysisError('goto to unknown label %s in a C helper' % lab)
            self.nodes[nid].succ.append(self.labels[lab])
        self.entry = entry

    def _new(self, kind, text='', pos=0):
        self.nodes.append(Node(kind, text, pos))
        return len(self.nodes) - 1

    def _link(self, preds, nid):
        for p in preds:
            self.nodes[p].succ.append(nid)

    def _seq(self, stmts, preds, brk, cont):
        """compile a statement list; preds = dangling node ids (whose next successor is the first statement).
        Returns the dangling node ids after the list.  brk/cont = lists collecting break/continue node ids."""
        for st in stmts:
            preds = self._stmt(st, preds, brk, cont)
        return preds

    def _stmt(self, st, preds, brk, cont):
        k = st.kind
        if k == 'pp':
            raise AnalysisError('preprocessor line left in a C helper body: %s' % st.text[:40])
        if k == 'block':
            return self._seq(st.body, preds, brk, cont)
        if k == 'label':
            n = self._new('nop', st.text + ':', st.pos)
            self._link(preds, n)
            self.labels[st.text] = n
            return [n]
        if k in ('case', 'default'):
            n = self._new('nop', 'case', st.pos)
            self._link(preds, n)            # fall-through from the previous arm
            if self._cases is None:
                raise AnalysisError('case label outside a switch in a C helper')
            self._cases.append(n)
            return [n]
        if k == 'simple':
            t = st.text
            if not t:
                return preds
            m = re.match(r'^(return|goto|break|continue)\b\s*(.*)$', t)
            if m:
                w, rest = m.group(1), m.group(2)
                if w == 'return':
                    n = self._new('ret', rest, st.pos)
                    self._link(preds, n)
                    return []
                if w == 'goto':
                    n = self._new('nop', t, st.pos)
                    self._link(preds, n)
                    self.gotos.append((n, rest.strip()))
                    return []
                n = self._new('nop', t, st.pos)
                self._link(preds, n)
                tgt = brk if w == 'break' else cont
                if tgt is None:
                    raise AnalysisError('%s outside a loop in a C helper' % w)
                tgt.append(n)
                return []
            n = self._new('ev', t, st.pos)
            self._link(preds, n)
            return [n]
        if k == 'if':
            b = self._new('br', st.text, st.pos)
            self._link(preds, b)
            # true branch: first successor; false branch: second successor.  Use two nop heads to keep the order.
            th, fh = self._new('nop'), self._new('nop')
            self.nodes[b].succ = [th, fh]
            out = self._seq(as_list(st.body), [th], brk, cont)
            out2 = self._seq(as_list(st.orelse), [fh], brk, cont) if st.orelse is not None else [fh]
            return out + out2
        if k in ('while', 'for'):
            step_text = ''
            if k == 'for':
                parts = st.text.split(';')
                if len(parts) != 3:
                    raise AnalysisError('for header %r is not modelled' % st.text[:40])
                cond, step_text = parts[1].strip(), parts[2].strip()
                if parts[0].strip():
                    init = self._new('ev', parts[0].strip(), st.pos)
                    self._link(preds, init)
                    preds = [init]
            else:
                cond = st.text
            head = self._new('nop', 'loop', st.pos)
            self._link(preds, head)
            b = self._new('br', cond or '1', st.pos)
            self.nodes[head].succ.append(b)
            th, fh = self._new('nop'), self._new('nop')
            self.nodes[b].succ = [th, fh]
            mybrk, mycont = [], []
            out = self._seq(as_list(st.body), [th], mybrk, mycont)
            back = out + mycont
            if step_text:
                step = self._new('ev', step_text, st.pos)
                self._link(back, step)
                self.nodes[step].succ.append(head)
            else:
                self._link(back, head)
            return [fh] + mybrk
        if k == 'do':
            head = self._new('nop', 'do', st.pos)
            self._link(preds, head)
            mybrk, mycont = [], []
            out = self._seq(as_list(st.body), [head], mybrk, mycont)
            b = self._new('br', st.text, st.pos)
            self._link(out + mycont, b)
            fh = self._new('nop')
            self.nodes[b].succ = [head, fh]
            return [fh] + mybrk
        if k == 'switch':
            head = self._new('ev', st.text, st.pos)
            self._link(preds, head)
            saved = self._cases
            self._cases = []
            mybrk = []
            out = self._seq(as_list(st.body), [], mybrk, cont)
            cases = self._cases
            self._cases = saved
            has_default = any(s.kind == 'default' for s in as_list(st.body))
            for c in cases:
                self.nodes[head].succ.append(c)
            res = out + mybrk
            if not has_default:
                skip = self._new('nop')
                self.nodes[head].succ.append(skip)
                res.append(skip)
            return res
        raise AnalysisError('C statement kind %s is not modelled' % k)


IDENT = re.compile(r'[A-Za-z_]\w*')


def strip_likely(cond):
    c = cond.strip()
    while True:
        m = re.fullmatch(r'(?:likely|unlikely|__builtin_expect)\s*\((.*)\)', c, re.S)
        if m and _balanced(m.group(1)):
            c = m.group(1).strip()
            continue
        if c.startswith('(') and c.endswith(')') and _balanced(c[1:-1]):
            c = c[1:-1].strip()
            continue
        return c


def _balanced(t):
    d = 0
    for ch in t:
        if ch == '(':
            d += 1
        elif ch == ')':
            d -= 1
            if d < 0:
                return False
    return d == 0


def cond_key(cond):
    """(key, polarity): `!x` / `x == NULL` / `x == 0` normalise to (x, False); `x` / `x != NULL` to (x, True)."""
    c = strip_likely(cond)
    pol = True
    while True:
        if c.startswith('!') and not c.startswith('!='):
            inner = strip_likely(c[1:])
            if re.fullmatch(r'[\w\s\*\->\.\[\]]+', inner) or (c[1:].lstrip().startswith('(') and _balanced(c[1:].strip()[1:-1])) or re.fullmatch(r'\w+\s*\(.*\)', inner, re.S):
                c, pol = inner, not pol
                continue
        m = re.fullmatch(r'(.+?)\s*(==|!=)\s*(?:NULL|0)', c)
        if m and _balanced(m.group(1)):
            c = strip_likely(m.group(1))
            if m.group(2) == '==':
                pol = not pol
            continue
        break
    return ' '.join(c.split()), pol


def assigned_names(body_text):
    """identifiers that are written somewhere in the body: `x =`, `x++`, `--x`, `x +=`, `&x`."""
    out = set()
    for m in re.finditer(r'(?<![\w.>])([A-Za-z_]\w*)\s*(?:=(?!=)|\+=|-=|\*=|/=|\|=|&=|\^=|<<=|>>=|\+\+|--)', body_text):
        out.add(m.group(1))
    for m in re.finditer(r'(?:\+\+|--)\s*([A-Za-z_]\w*)', body_text):
        out.add(m.group(1))
    for m in re.finditer(r'&\s*([A-Za-z_]\w*)', body_text):
        out.add(m.group(1))
    return out


def run_dataflow(cfg, init, transfer, stable=None, max_states=20000):
    """Forward exploration of (node, state, facts).  transfer(kind, text, state) -> list of states (kind in ev/br/ret).
    Returns [(ret node, state)] for every reachable return.  `stable(key)` says whether a branch condition key may be
    remembered on the path (its identifiers are never written): contradicting branches are then pruned."""
    seen = set()
    work = [(cfg.entry, init, frozenset())]
    rets = []
    while work:
        nid, st, facts = work.pop()
        if (nid, st, facts) in seen:
            continue
        seen.add((nid, st, facts))
        if len(seen) > max_states:
            raise AnalysisError('C helper dataflow: more than %d states' % max_states)
        n = cfg.nodes[nid]
        if n.kind == 'ret':
            for s2 in transfer('ret', n.text, st):
                rets.append((n, s2))
            continue
        if n.kind == 'br':
            key, pol = cond_key(n.text)
            remember = stable is not None and stable(key)
            known = dict(facts).get(key) if remember else None
            for s2 in transfer('br', n.text, st):
                for taken, succ in ((True, n.succ[0]), (False, n.succ[1])):
                    truth = taken == pol            # truth of `key`
                    if known is not None and known != truth:
                        continue
                    f2 = facts | {(key, truth)} if remember else facts
                    work.append((succ, s2, f2))
            continue
        outs = transfer('ev', n.text, st) if n.kind == 'ev' else [st]
        for s2 in outs:
            for succ in n.succ:
                work.append((succ, s2, facts))
    return rets
