"""C41, strengthening: precedence of the sources of a directive value.

  C41-UDEF   a hard-wired *default* written into a user-supplied directive mapping (CompilationOptions.compiler_directives, the
             cython_directives of an Extension, the cython_compiler_directives argument of cython_inline ...) is reachable only when
             the user gave no value: the path condition of the store, evaluated over the COMPLETE value domain of the directive
             ({absent} + every explicit value class of its declared type), is satisfiable for `absent` only.
             ("is None" simplified to a truth test lets the default overwrite an explicit False.)
  C41-RUN    the loop that folds a decorator stack (InterpretCompilerDirectives._extract_directives) drops decorators that "do not change
             the previous value"; that filter is sound only against the *running* state: the mapping it compares with is the one it
             updates on the keep path, and that mapping is a private copy (not an alias) of the enclosing scope's directives.
  C41-LAYER  the module-level directive mapping is built in the order  defaults < options (cythonize / command line) < `# cython:` header,
             each layer written with overriding semantics (update / item store, not setdefault) over the previous one.
"""
import ast

from ..core import Rule, AnalysisError, node_src
from ..engine import pyflow, tables
from ..engine.pyindex import walk_no_nested, is_self_attr

OPT = 'Cython/Compiler/Options.py'
PTT = 'Cython/Compiler/ParseTreeTransforms.py'

ABSENT = ('<absent>',)
UNKNOWN = ('<unknown>',)


# ====================================================================================================== helpers
def _u(n):
    return ast.unparse(n)


def _functions(tree):
    """(qualified name, FunctionDef) of every function of a module, nested ones included."""
    out = []

    def rec(body, prefix):
        for st in body:
            if isinstance(st, (ast.FunctionDef, ast.AsyncFunctionDef)):
                out.append((prefix + st.name, st))
                rec(st.body, prefix + st.name + '.')
            elif isinstance(st, ast.ClassDef):
                rec(st.body, prefix + st.name + '.')
            elif isinstance(st, (ast.If, ast.Try, ast.With, ast.For, ast.While)):
                for fld in ('body', 'orelse', 'finalbody'):
                    rec(getattr(st, fld, []) or [], prefix)
                for h in getattr(st, 'handlers', []) or []:
                    rec(h.body, prefix)
    rec(tree.body, '')
    return out


def reaching_states(fn, wanted):
    """{id(stmt): set of states (frozensets of pyflow facts) in which the statement is executed} for the statements in `wanted`."""
    ids = {id(s) for s in wanted}
    seen = {i: set() for i in ids}

    def tr(node, state):
        if id(node) in ids:
            seen[id(node)].add(state)
        return state
    try:
        pyflow.Flow(tr).run(fn)
    except pyflow.TooManyStates:
        raise AnalysisError('%s: too many path states' % fn.name)
    return seen


def path_facts(state):
    return [(f[1], f[2]) for f in state if isinstance(f, tuple) and f and f[0] == '?']


# ====================================================================================================== C41-UDEF
def directive_domains(ctx):
    """{directive: [explicit value classes]} from Options._directive_defaults / directive_types."""
    def build():
        tree = ctx.parse(OPT)
        dd = tables.module_assign(tree, '_directive_defaults')
        dt = tables.module_assign(tree, 'directive_types')
        if not isinstance(dd, ast.Dict) or not isinstance(dt, ast.Dict):
            raise AnalysisError('Options._directive_defaults / directive_types are not dict literals')
        types = {}
        for k, v in zip(dt.keys, dt.values):
            if isinstance(k, ast.Constant) and isinstance(k.value, str):
                types[k.value] = v.id if isinstance(v, ast.Name) else None
        out = {}
        for k, v in zip(dd.keys, dd.values):
            if not (isinstance(k, ast.Constant) and isinstance(k.value, str)):
                continue
            name = k.value
            default = v.value if isinstance(v, ast.Constant) else UNKNOWN
            tname = types.get(name)
            if tname is None and default is not UNKNOWN and default is not None:
                tname = type(default).__name__
            if tname == 'bool':
                vals = [False, True]
            elif tname == 'int':
                vals = [0, 1]
            elif tname == 'str':
                vals = ['', 'x']
            elif tname == 'list':
                vals = [[], ['x']]
            elif tname == 'dict':
                vals = [{}, {'x': 1}]
            else:
                vals = ['x']          # some explicit (truthy) value of a type the tables do not spell out
            if default is None:
                vals = [None] + vals  # None is a legitimate explicit value of this directive
            out[name] = vals
        if len(out) < 40:
            raise AnalysisError('only %d directives found in Options._directive_defaults' % len(out))
        return out
    return ctx.memo('sC41.directive_domains', build)


def eval3(e, u, mtext, key):
    """Kleene evaluation of a test expression for the user setting u (ABSENT or an explicit value) of mapping `mtext` at `key`.
    -> ('v', python value) | UNKNOWN"""
    def is_m(x):
        return _u(x) == mtext

    def is_key(x):
        return isinstance(x, ast.Constant) and x.value == key

    def val(x):
        # value-denoting expressions
        if isinstance(x, ast.Constant):
            return ('v', x.value)
        if isinstance(x, (ast.Tuple, ast.List)):
            vs = [val(y) for y in x.elts]
            if any(v is UNKNOWN for v in vs):
                return UNKNOWN
            return ('v', tuple(v[1] for v in vs))
        if isinstance(x, ast.Call) and isinstance(x.func, ast.Attribute) and x.func.attr == 'get' and is_m(x.func.value) and x.args and is_key(x.args[0]) and not x.keywords:
            if u is ABSENT:
                if len(x.args) > 1:
                    return val(x.args[1])
                return ('v', None)
            return ('v', u)
        if isinstance(x, ast.Subscript) and is_m(x.value) and is_key(x.slice):
            return UNKNOWN if u is ABSENT else ('v', u)
        if isinstance(x, ast.UnaryOp) and isinstance(x.op, ast.Not):
            v = val(x.operand)
            return UNKNOWN if v is UNKNOWN else ('v', not v[1])
        if isinstance(x, ast.BoolOp):
            is_and = isinstance(x.op, ast.And)
            unknown = False
            last = None
            for y in x.values:
                v = val(y)
                if v is UNKNOWN:
                    unknown = True
                    continue
                last = v
                if is_and and not v[1]:
                    return ('v', False)          # definitely false whatever the unknown parts are
                if not is_and and v[1]:
                    return ('v', True)
            if unknown:
                return UNKNOWN
            return ('v', bool(last[1]))
        if isinstance(x, ast.Compare) and len(x.ops) == 1:
            op, a, b = x.ops[0], x.left, x.comparators[0]
            if isinstance(op, (ast.In, ast.NotIn)) and is_m(b) and is_key(a):
                present = u is not ABSENT
                return ('v', present if isinstance(op, ast.In) else not present)
            va, vb = val(a), val(b)
            if va is UNKNOWN or vb is UNKNOWN:
                return UNKNOWN
            va, vb = va[1], vb[1]
            try:
                if isinstance(op, ast.Is):
                    return ('v', va is vb if (va is None or vb is None or isinstance(va, bool) or isinstance(vb, bool)) else va == vb)
                if isinstance(op, ast.IsNot):
                    return ('v', not (va is vb if (va is None or vb is None or isinstance(va, bool) or isinstance(vb, bool)) else va == vb))
                if isinstance(op, ast.Eq):
                    return ('v', va == vb)
                if isinstance(op, ast.NotEq):
                    return ('v', va != vb)
                if isinstance(op, ast.In):
                    return ('v', va in vb)
                if isinstance(op, ast.NotIn):
                    return ('v', va not in vb)
            except TypeError:
                return UNKNOWN
        return UNKNOWN
    return val(e)


def mentions(e, mtext, key):
    """does the test talk about mapping[key] at all (modelled or not)?"""
    has_m = any(_u(x) == mtext for x in ast.walk(e) if isinstance(x, (ast.Name, ast.Attribute)))
    has_k = any(isinstance(x, ast.Constant) and x.value == key for x in ast.walk(e))
    return has_m and has_k


def feasible(state, u, mtext, key):
    """-> (feasible?, talks about the setting?, an unmodelled test about the setting?)"""
    talks = unmodelled = False
    for text, truth in path_facts(state):
        try:
            e = ast.parse(text, mode='eval').body
        except SyntaxError:
            continue
        m = mentions(e, mtext, key)
        talks = talks or m
        v = eval3(e, u, mtext, key)
        if v is UNKNOWN:
            unmodelled = unmodelled or m
            continue
        if bool(v[1]) != truth:
            return False, talks, unmodelled
    return True, talks, unmodelled


def _external_mapping(fn, m):
    """the mapping expression denotes something handed in from outside the function: an attribute, a parameter, or a local alias of an attribute."""
    if isinstance(m, ast.Attribute):
        return True
    if isinstance(m, ast.Name):
        a = fn.args
        params = [x.arg for x in a.posonlyargs + a.args + a.kwonlyargs] + [x.arg for x in (a.vararg, a.kwarg) if x]
        if m.id in params:
            return True
        for n in walk_no_nested(fn):
            if isinstance(n, ast.Assign) and any(isinstance(t, ast.Name) and t.id == m.id for t in n.targets) and isinstance(n.value, ast.Attribute):
                return True
    return False


def default_stores(fn, domains):
    """candidate default writes of one function: [(statement whose path condition counts, mapping expr, key, literal text, how)]"""
    out = []
    nodes = list(walk_no_nested(fn))
    for n in nodes:
        if isinstance(n, ast.Assign):
            for t in n.targets:
                if isinstance(t, ast.Subscript) and isinstance(t.slice, ast.Constant) and t.slice.value in domains and _external_mapping(fn, t.value):
                    if isinstance(n.value, ast.Constant):
                        out.append((n, t.value, t.slice.value, n.value.value, 'item store'))
                    elif isinstance(n.value, ast.Name):
                        for a in nodes:
                            if isinstance(a, ast.Assign) and isinstance(a.value, ast.Constant) and any(isinstance(x, ast.Name) and x.id == n.value.id for x in a.targets):
                                out.append((a, t.value, t.slice.value, a.value.value, 'item store of local `%s`' % n.value.id))
        elif isinstance(n, ast.Expr) and isinstance(n.value, ast.Call) and isinstance(n.value.func, ast.Attribute) and _external_mapping(fn, n.value.func.value):
            c = n.value
            if c.func.attr == 'setdefault' and len(c.args) == 2 and isinstance(c.args[0], ast.Constant) and c.args[0].value in domains and isinstance(c.args[1], ast.Constant):
                out.append((n, c.func.value, c.args[0].value, c.args[1].value, 'setdefault'))
            elif c.func.attr == 'update':
                if c.args and isinstance(c.args[0], ast.Dict):
                    for k, v in zip(c.args[0].keys, c.args[0].values):
                        if isinstance(k, ast.Constant) and k.value in domains and isinstance(v, ast.Constant):
                            out.append((n, c.func.value, k.value, v.value, 'item store'))
                for kw in c.keywords:
                    if kw.arg in domains and isinstance(kw.value, ast.Constant):
                        out.append((n, c.func.value, kw.arg, kw.value.value, 'item store'))
    return out


def check_default_stores(fn, domains):
    """-> [(key suffix, stmt, mapping text, directive, literal, verdict, detail)], verdict in ok | overrides | unguarded | unmodelled | dead"""
    cands = default_stores(fn, domains)
    if not cands:
        return []
    states = reaching_states(fn, [c[0] for c in cands])
    res = []
    for stmt, m, key, litv, how in cands:
        mtext = _u(m)
        lit = repr(litv)
        if how == 'setdefault':
            res.append((stmt, mtext, key, lit, 'ok', 'setdefault fills an absent key only'))
            continue
        sts = states[id(stmt)]
        if not sts:
            res.append((stmt, mtext, key, lit, 'dead', 'statement is not reachable'))
            continue
        verdict, detail = 'ok', ''
        overridden = []
        for u in domains[key]:
            if type(u) is type(litv) and u == litv:
                continue          # writing the value the user chose anyway changes nothing
            for st in sts:
                ok, talks, unmod = feasible(st, u, mtext, key)
                if not ok:
                    continue
                if not talks:
                    verdict = 'unguarded'
                elif unmod:
                    if verdict == 'ok':
                        verdict = 'unmodelled'
                else:
                    overridden.append(u)
                break
        if overridden:
            verdict = 'overrides'
            detail = ', '.join(repr(x) for x in overridden)
        res.append((stmt, mtext, key, lit, verdict, detail))
    return res


UDEF_FILES = ('Cython/Compiler/Options.py', 'Cython/Compiler/Main.py', 'Cython/Compiler/CmdLine.py')
UDEF_DIRS = ('Cython/Build', 'Cython/Distutils', 'pyximport')

_UDEF_BAD = ("def configure(self, ext):\n    if ext == 'py':\n        if not self.compiler_directives.get('binding'):\n            self.compiler_directives['binding'] = True\n")
_UDEF_GOOD = ("def configure(self, ext):\n    if ext != 'py':\n        return\n    d = self.compiler_directives\n    if 'binding' in d and d['binding'] is not None:\n        return\n"
              "    d['binding'] = True\n")


def rule_UDEF(ctx, floor=2):
    import os
    r = Rule('C41-UDEF', 'a hard-wired default stored into a user-supplied directive mapping is reachable only when the user gave no value '
                         '(path condition evaluated over {absent} + every explicit value class of the directive)', floor)
    domains = directive_domains(ctx)
    files = list(UDEF_FILES)
    for d in UDEF_DIRS:
        p = ctx.path(d)
        if not os.path.isdir(p):
            raise AnalysisError('%s vanished' % d)
        files += sorted('%s/%s' % (d, f) for f in os.listdir(p) if f.endswith('.py'))
    for rel in files:
        tree = ctx.parse(rel)
        mod = rel.rsplit('/', 1)[1][:-3]
        for qn, fn in _functions(tree):
            for stmt, mtext, key, lit, verdict, detail in check_default_stores(fn, domains):
                ck = '%s.%s:%s[%r]' % (mod, qn, mtext, key)
                r.inst(ck, sample='%s = %s: %s %s' % (ck, lit, verdict, detail))
                if verdict == 'overrides':
                    r.violate(ck, rel, stmt.lineno, '%s.%s stores the default %s into %s[%r] on a path that is also taken when the user explicitly set %s = %s: the value given to '
                              'cythonize() / on the command line no longer overrides the default' % (mod, qn, lit, mtext, key, key, detail))
                elif verdict == 'unguarded':
                    r.violate(ck, rel, stmt.lineno, '%s.%s stores the default %s into %s[%r] without testing whether the user set %s: an explicit user value is overwritten'
                              % (mod, qn, lit, mtext, key, key))
                elif verdict in ('unmodelled', 'dead'):
                    r.info('%s: guard of the default store not decided (%s %s)' % (ck, verdict, detail))
    bad = check_default_stores(ast.parse(_UDEF_BAD).body[0], domains)
    good = check_default_stores(ast.parse(_UDEF_GOOD).body[0], domains)
    r.positive_control([x[4:] for x in bad] == [('overrides', 'False')] and [x[4] for x in good] == ['ok'], '`is None` simplified to a truth test / early-return form of the correct guard')
    return r


# ====================================================================================================== C41-RUN
def _lookup_compare(e):
    """find `M.get(k, ...) ==/!= v` or `M[k] ==/!= v` inside a test; -> (mapping expr, key text, value text) or None"""
    for x in ast.walk(e):
        if isinstance(x, ast.Compare) and len(x.ops) == 1 and isinstance(x.ops[0], (ast.Eq, ast.NotEq)):
            for a, b in ((x.left, x.comparators[0]), (x.comparators[0], x.left)):
                if isinstance(a, ast.Call) and isinstance(a.func, ast.Attribute) and a.func.attr == 'get' and a.args:
                    return a.func.value, _u(a.args[0]), _u(b)
                if isinstance(a, ast.Subscript) and isinstance(a.ctx, ast.Load) and not isinstance(a.slice, (ast.Slice, ast.Constant)):
                    return a.value, _u(a.slice), _u(b)
    return None


def change_filters(fn):
    """The 'does not change the previous value' filters of one function.
    -> [(append stmt, list text, mapping expr, key text, value text, [store stmts `X[key] = value` on the keep path])]"""
    appends, stores = [], []
    for n in walk_no_nested(fn):
        if isinstance(n, ast.Expr) and isinstance(n.value, ast.Call) and isinstance(n.value.func, ast.Attribute) and n.value.func.attr == 'append' \
                and isinstance(n.value.func.value, ast.Name):
            appends.append(n)
        elif isinstance(n, ast.Assign) and len(n.targets) == 1 and isinstance(n.targets[0], ast.Subscript):
            stores.append(n)
    if not appends:
        return []
    states = reaching_states(fn, appends + stores)

    def filter_facts(stmt):
        """filter facts common to every state reaching stmt: {(text, truth): (mapping, key, value)}"""
        common = None
        for st in states[id(stmt)]:
            cur = {}
            for text, truth in path_facts(st):
                try:
                    e = ast.parse(text, mode='eval').body
                except SyntaxError:
                    continue
                lc = _lookup_compare(e)
                if lc is not None:
                    cur[(text, truth)] = lc
            common = cur if common is None else {k: v for k, v in common.items() if k in cur}
        return common or {}

    out = []
    for ap in appends:
        for fact, (m, key, value) in sorted(filter_facts(ap).items(), key=lambda kv: kv[0][0]):
            on_keep = []
            for st in stores:
                t = st.targets[0]
                if fact in filter_facts(st):
                    on_keep.append((st, _u(t.slice) == key and _u(st.value) == value))
            out.append((ap, _u(ap.value.func.value), m, key, value, on_keep))
    return out


def check_filters(fn):
    """-> [(key suffix, line, problem or None)]"""
    res = []
    for ap, lst, m, key, value, on_keep in change_filters(fn):
        mtext = _u(m)
        ck = 'filter(%s[%s] vs %s)->%s' % ('<state>', key, value, lst)
        problems = []
        updated = sorted({_u(st.targets[0].value) for st, exact in on_keep if exact})
        touched = sorted({_u(st.targets[0].value) for st, exact in on_keep})
        if mtext in updated:
            pass
        elif mtext in touched:
            problems.append(('undecided', ap.lineno, 'stores into %s on the keep path, but not literally `%s[%s] = %s`' % (mtext, mtext, key, value)))
        elif updated:
            problems.append(('other', ap.lineno, 'compares the new value with %s[%s] but records kept values in %s: the comparison does not see the decorators processed before, so an outer '
                             'decorator that re-establishes the surrounding value is dropped and the inner one wins' % (mtext, key, ' / '.join(updated))))
        elif not touched:
            problems.append(('norun', ap.lineno, 'compares %s[%s] with the new value but never records the kept value (no `<mapping>[%s] = %s` on the keep path): a later decorator '
                             'is compared with a stale state' % (mtext, key, key, value)))
        else:
            problems.append(('undecided', ap.lineno, 'stores into %s on the keep path, none of which is `%s[%s] = %s`' % (' / '.join(touched), mtext, key, value)))
        if not isinstance(m, ast.Name):
            if not problems and mtext in updated:
                problems.append(('shared', ap.lineno, 'keeps its running state in %s, which is not a private local: the stores on the keep path modify the directives of the enclosing scope' % mtext))
        else:
            inits = [n for n in walk_no_nested(fn) if isinstance(n, ast.Assign) and any(isinstance(t, ast.Name) and t.id == m.id for t in n.targets)]
            for n in inits:
                if isinstance(n.value, (ast.Attribute, ast.Name)) and mtext in updated:
                    problems.append(('alias', n.lineno, 'running state %s is an alias of %s (no copy): recording a kept decorator value modifies the directives of the enclosing scope, '
                                     'so the decorator leaks to the code after the decorated function' % (mtext, _u(n.value))))
        res.append((ck, ap.lineno, problems))
    return res


_RUN_BAD = ("def extract(self, node):\n    directives = []\n    cur = dict(self.directives)\n    for dec in node.decorators[::-1]:\n        for name, value in self.parse(dec):\n"
            "            if self.directives.get(name, missing) != value:\n                directives.append((name, value))\n                cur[name] = value\n"
            "            else:\n                warning(dec.pos, 'no change')\n    return directives\n")
_RUN_GOOD = ("def extract(self, node):\n    kept = []\n    state = self.directives.copy()\n    for dec in node.decorators[::-1]:\n        for name, value in self.parse(dec):\n"
             "            if name in state and state[name] == value:\n                warning(dec.pos, 'no change')\n                continue\n"
             "            state[name] = value\n            kept.append((name, value))\n    return kept\n")


def rule_RUN(ctx, floor=1):
    r = Rule('C41-RUN', 'the "directive does not change the previous value" filter of a decorator stack compares with the running state it maintains '
                        '(same mapping compared and updated on the keep path; the mapping is a private copy)', floor)
    ix = ctx.index
    c = ix.cls('ParseTreeTransforms', 'InterpretCompilerDirectives')
    if c is None:
        raise AnalysisError('ParseTreeTransforms.InterpretCompilerDirectives vanished')
    for name, fn in sorted(c.methods.items()):
        for ck, line, problems in check_filters(fn):
            key = '%s.%s:%s' % (c.name, name, ck)
            r.inst(key, sample=key)
            for kind, pline, msg in problems:
                if kind == 'undecided':
                    r.info('%s: %s' % (key, msg))
                else:
                    r.violate('%s:%s' % (key, kind), c.module.rel, pline, '%s.%s %s' % (c.name, name, msg))
    bad = check_filters(ast.parse(_RUN_BAD).body[0])
    good = check_filters(ast.parse(_RUN_GOOD).body[0])
    r.positive_control(len(bad) == 1 and [p[0] for p in bad[0][2]] == ['other'] and len(good) == 1 and not good[0][2],
                       'filter comparing with self.directives instead of the running copy / correct early-continue form')
    return r


# ====================================================================================================== C41-LAYER
def _src_kind(e, params):
    """classify the origin of a mapping expression: 'defaults' | 'options' | 'header' | None (looks through copies)"""
    for x in ast.walk(e):
        if isinstance(x, ast.Call):
            f = x.func
            nm = f.attr if isinstance(f, ast.Attribute) else f.id if isinstance(f, ast.Name) else None
            if nm == 'get_directive_defaults':
                return 'defaults'
        if isinstance(x, ast.Attribute) and x.attr in ('_directive_defaults', 'directive_defaults'):
            return 'defaults'
        if isinstance(x, ast.Attribute) and x.attr == 'directive_comments':
            return 'header'
        if isinstance(x, ast.Name) and x.id in params:
            return params[x.id] if isinstance(params, dict) else 'options'
    return None


def layer_writes(fn, target_is, params=()):
    """Ordered writes that build the mapping denoted by `target_is(expr)`: [(lineno, kind 'init'|'override'|'weak', source kind, text)].
    Item stores inside `for k, v in S.items()` count as an overriding write from S."""
    out = []

    def visit(stmts, loop_src):
        for st in stmts:
            if isinstance(st, ast.Assign) and any(target_is(t) for t in st.targets):
                v = st.value
                src = _src_kind(v, params)
                if isinstance(v, ast.Dict) and any(k is None for k in v.keys):
                    # {**A, **B}: B overrides A
                    for i, (k, vv) in enumerate(zip(v.keys, v.values)):
                        if k is None:
                            out.append((st.lineno, 'init' if i == 0 else 'override', _src_kind(vv, params), _u(vv)))
                else:
                    out.append((st.lineno, 'init', src, _u(v)))
            elif isinstance(st, ast.Assign) and any(isinstance(t, ast.Subscript) and target_is(t.value) for t in st.targets):
                out.append((st.lineno, 'override', loop_src, _u(st)))
            elif isinstance(st, ast.Expr) and isinstance(st.value, ast.Call) and isinstance(st.value.func, ast.Attribute) and target_is(st.value.func.value):
                c = st.value
                if c.func.attr == 'update' and c.args:
                    out.append((st.lineno, 'override', _src_kind(c.args[0], params), _u(c)))
                elif c.func.attr == 'setdefault':
                    out.append((st.lineno, 'weak', loop_src, _u(c)))
            elif isinstance(st, (ast.For, ast.AsyncFor)):
                visit(st.body, _src_kind(st.iter, params) or loop_src)
            elif isinstance(st, ast.If):
                visit(st.body, loop_src)
                visit(st.orelse, loop_src)
            elif isinstance(st, (ast.With, ast.Try)):
                visit(st.body, loop_src)
    visit(fn.body, None)
    return out


class _Undecided(Exception):
    pass


class _Aliased(dict):
    """parameter names of the options mapping plus locals that are plain aliases of a classified mapping (`defaults = Options.get_directive_defaults()`)"""


def _with_local_aliases(fn, params, skip):
    env = _Aliased((p, 'options') for p in params)
    for n in walk_no_nested(fn):
        if isinstance(n, ast.Assign) and len(n.targets) == 1 and isinstance(n.targets[0], ast.Name) and n.targets[0].id != skip and n.targets[0].id not in env:
            v = n.value
            # an alias or a plain accessor call only: a copy / merge is a write of the mapping, not a name for a layer
            if isinstance(v, (ast.Name, ast.Attribute)) or (isinstance(v, ast.Call) and not v.args and not v.keywords):
                k = _src_kind(v, env)
                if k:
                    env[n.targets[0].id] = k
    return env


def check_layers(init, visit_module, methods=None):
    """-> (chain [(source, kind)], problems [(key, lineno, msg)])"""
    a = init.args
    params = [x.arg for x in a.args[1:]]
    # the local that ends up in self.directives
    local = None
    for n in walk_no_nested(init):
        if isinstance(n, ast.Assign) and any(is_self_attr(t) and t.attr == 'directives' for t in n.targets):
            local = n.value.id if isinstance(n.value, ast.Name) else None
            direct = n
            v = n.value
            if methods and isinstance(v, ast.Call) and is_self_attr(v.func) and v.func.attr in methods and v.func.attr not in ('__init__',):
                # the mapping is built by a helper method: the layers are the writes of the mapping the helper returns
                h = methods[v.func.attr]
                hp = [x.arg for x in h.args.args]
                if not any(isinstance(d, ast.Name) and d.id == 'staticmethod' for d in h.decorator_list):
                    hp = hp[1:]
                opt = [hp[i] for i, arg in enumerate(v.args) if i < len(hp) and isinstance(arg, ast.Name) and arg.id in params]
                opt += [k.arg for k in v.keywords if k.arg and isinstance(k.value, ast.Name) and k.value.id in params]
                rets = {r.value.id for r in walk_no_nested(h) if isinstance(r, ast.Return) and isinstance(r.value, ast.Name)}
                other = [r for r in walk_no_nested(h) if isinstance(r, ast.Return) and r.value is not None and not isinstance(r.value, ast.Name)]
                if len(rets) == 1 and not other:
                    return _check_layers(h, visit_module, opt, rets.pop(), returned=True)
                raise _Undecided('the module-level mapping is built by %s(), which returns %s: the order of the layers inside it is not modelled'
                                 % (h.name, 'an expression (%s)' % _u(other[0].value) if other else 'several locals'))
    return _check_layers(init, visit_module, params, local)


def _check_layers(init, visit_module, params, local, returned=False):
    params = _with_local_aliases(init, params, local)
    if local is None:
        def tgt(e):
            return is_self_attr(e) and e.attr == 'directives'
    elif returned:
        def tgt(e):
            return isinstance(e, ast.Name) and e.id == local
    else:
        def tgt(e):
            return (isinstance(e, ast.Name) and e.id == local) or (is_self_attr(e) and e.attr == 'directives')
    w1 = [w for w in layer_writes(init, tgt, params) if not (w[1] == 'init' and w[3] == local)]

    def tgt2(e):
        return is_self_attr(e) and e.attr == 'directives'
    w2 = layer_writes(visit_module, tgt2, ())
    chain = [(w[2], w[1], w[0], 'init') for w in w1] + [(w[2], w[1], w[0], 'visit') for w in w2]
    problems = []
    order = {'defaults': 0, 'options': 1, 'header': 2}
    seen = {}
    for src, kind, line, where in chain:
        if src in order and src not in seen:
            seen[src] = (kind, line, where, len(seen))
    for src in ('defaults', 'options', 'header'):
        if src not in seen:
            problems.append(('missing:' + src, (init if src != 'header' else visit_module).lineno,
                             'the %s layer is never written into the module-level directive mapping' % src))
    if not problems:
        ranks = [seen[s][3] for s in ('defaults', 'options', 'header')]
        if ranks != sorted(ranks):
            got = sorted(seen, key=lambda s: seen[s][3])
            problems.append(('order', seen[got[0]][1], 'the layers are applied in the order %s; a later layer overrides an earlier one, so the precedence '
                             'defaults < options < header comment is broken' % ' < '.join(got)))
        if seen['defaults'][0] != 'init':
            problems.append(('base', seen['defaults'][1], 'the defaults are not the base of the mapping (they are written over something else and override it)'))
        for s in ('options', 'header'):
            if seen[s][0] != 'override':
                problems.append(('weak:' + s, seen[s][1], 'the %s layer is written with non-overriding semantics (%s): it does not override the lower layers' % (s, seen[s][0])))
    return chain, problems


_LAYER_BAD = ("def __init__(self, context, compilation_directive_defaults):\n    directives = copy.deepcopy(Options.get_directive_defaults())\n"
              "    for key, value in compilation_directive_defaults.items():\n        directives.setdefault(str(key), copy.deepcopy(value))\n    self.directives = directives\n")
_LAYER_GOOD = ("def __init__(self, context, opts):\n    self.directives = {**copy.deepcopy(Options.get_directive_defaults()), **copy.deepcopy(opts)}\n")
_LAYER_VISIT = ("def visit_ModuleNode(self, node):\n    self.directives.update(node.directive_comments)\n    node.directives = self.directives\n    return node\n")


def rule_LAYER(ctx, floor=3):
    r = Rule('C41-LAYER', 'the module-level directive mapping is layered defaults < compilation options < `# cython:` header comment, each layer overriding the previous', floor)
    ix = ctx.index
    c = ix.cls('ParseTreeTransforms', 'InterpretCompilerDirectives')
    if c is None or '__init__' not in c.methods or 'visit_ModuleNode' not in c.methods:
        raise AnalysisError('InterpretCompilerDirectives.__init__ / visit_ModuleNode vanished')
    try:
        chain, problems = check_layers(c.methods['__init__'], c.methods['visit_ModuleNode'], c.methods)
    except _Undecided as e:
        r.info('not decided: ' + str(e))
        chain, problems = [('?', 'undecided', c.methods['__init__'].lineno, w) for w in ('init', 'options', 'visit')], []
    for src, kind, line, where in chain:
        r.inst('InterpretCompilerDirectives:layer:%s:%s' % (where, src), sample='%s: %s write from %s' % (where, kind, src))
    for key, line, msg in problems:
        r.violate('InterpretCompilerDirectives:layers:%s' % key, c.module.rel, line, 'InterpretCompilerDirectives: ' + msg)
    # the mapping handed to the module node is the layered one
    vm = c.methods['visit_ModuleNode']
    handed = [n for n in walk_no_nested(vm) if isinstance(n, ast.Assign) and any(isinstance(t, ast.Attribute) and t.attr == 'directives' and not is_self_attr(t) for t in n.targets)]
    for n in handed:
        key = 'InterpretCompilerDirectives.visit_ModuleNode:%s' % _u(n.targets[0])
        r.inst(key, sample=_u(n))
        if not (is_self_attr(n.value) and n.value.attr == 'directives'):
            upd = [w for w in layer_writes(vm, lambda e: is_self_attr(e) and e.attr == 'directives') if w[2] == 'header']
            if not upd or upd[0][0] > n.lineno:
                r.violate(key, c.module.rel, n.lineno, 'visit_ModuleNode hands %s to the module node, which is not the mapping the header comments were merged into' % _u(n.value))
    if not handed:
        raise AnalysisError('visit_ModuleNode no longer stores <node>.directives')
    visit = ast.parse(_LAYER_VISIT).body[0]
    _, pb = check_layers(ast.parse(_LAYER_BAD).body[0], visit)
    _, pg = check_layers(ast.parse(_LAYER_GOOD).body[0], visit)
    r.positive_control([p[0] for p in pb] == ['weak:options'] and not pg, 'options merged with setdefault / dict-display form of the correct layering')
    return r


# ====================================================================================================== fourth round
# C41-BOOLTAB   decision table of the boolean branch of Options.parse_directive_value over the partition of strings its own comparisons induce
#               (exact 'True' / 'False', every accepted word in lower / UPPER / Title case, the empty string, a word it does not know) x relaxed_bool.
# C41-SCOPE     decision table of InterpretCompilerDirectives.check_directive_scope over Options.directive_scopes x the scope vocabulary.
# C41-CONTENTS  directives that apply to the decorated object only (Options.immediate_decorator_directives) never reach the mapping for its contents.
# C41-INHERIT   Options.copy_inherited_directives returns a private copy of the outer mapping overridden by the new directives.
# C41-HEADER    every parsed `# cython:` comment line ends up in the mapping p_compiler_directive_comments returns.
# C41-DECORDER  the decorator written first wins: iteration order of the decorator stack agrees with the merge policy.
# C41-CTX       context managers that rebind an attribute of their argument (`obj.directives`) put the saved value back after the yield.
from .pC07 import Eval, Obj, Unsupported, RepoFn, Sym, Method, ModRef
from ..engine.pyindex import walk_no_nested as _wnn


class Raised(Exception):
    def __init__(self, cls):
        Exception.__init__(self, cls)
        self.cls = cls


class DirEval(Eval):
    """Eval + the few constructs of the directive plumbing: `raise C(...)` (recorded, not modelled further), str.lower()/strip(), dict.get(), calling an opaque class
    (gives an opaque instance), `'...' % args` on plain strings."""

    def stmt(self, s, env, frame):
        if isinstance(s, ast.Raise) and s.exc is not None:
            e = s.exc
            nm = e.func if isinstance(e, ast.Call) else e
            raise Raised(_u(nm))
        return Eval.stmt(self, s, env, frame)

    def getattr(self, o, name, frame):
        if isinstance(o, str) and name in ('lower', 'upper', 'strip', 'startswith', 'endswith'):
            return getattr(o, name)
        if isinstance(o, dict) and name == 'get':
            return o.get
        return Eval.getattr(self, o, name, frame)

    def call(self, f, args, kwargs=None):
        if isinstance(f, Sym):
            return Obj('instance of %s' % f.name, flag_default=False)
        return Eval.call(self, f, args, kwargs)

    def expr(self, e, env, frame):
        if isinstance(e, ast.Dict) and all(k is not None for k in e.keys):
            return {self.expr(k, env, frame): self.expr(v, env, frame) for k, v in zip(e.keys, e.values)}
        if isinstance(e, ast.BinOp) and isinstance(e.op, ast.Mod):
            left = self.expr(e.left, env, frame)
            right = self.expr(e.right, env, frame)
            if isinstance(left, str):
                return '<formatted message>'
        return Eval.expr(self, e, env, frame)


# ------------------------------------------------------------------------------------------------ C41-BOOLTAB
def bool_words(fn):
    """string constants the function compares its value with (candidates for the partition)"""
    out = set()
    for n in ast.walk(fn):
        if isinstance(n, ast.Dict):
            for k in n.keys:
                if isinstance(k, ast.Constant) and isinstance(k.value, str):
                    out.add(k.value)
        if isinstance(n, ast.Compare):
            for c in [n.left] + list(n.comparators):
                if isinstance(c, ast.Constant) and isinstance(c.value, str):
                    out.add(c.value)
                elif isinstance(c, (ast.Tuple, ast.List, ast.Set)):
                    for x in c.elts:
                        if isinstance(x, ast.Constant) and isinstance(x.value, str):
                            out.add(x.value)
    return out


def bool_table(ix, module, fn):
    """-> {(token, relaxed): True | False | 'ValueError' | 'other:<what>'}"""
    words = {w for w in bool_words(fn) if w and w.isalpha() and len(w) <= 8}
    tokens = set()
    for w in words | {'true', 'false'}:
        tokens |= {w, w.lower(), w.upper(), w.title()}
    tokens |= {'', 'maybe', '2'}
    out = {}
    for tok in sorted(tokens):
        for relaxed in (False, True):
            ev = DirEval(ix, overrides={('Options', 'directive_types'): {'boundscheck': bool}})
            try:
                res = ev.call(RepoFn(module, fn), ['boundscheck', tok], {'relaxed_bool': relaxed})
            except Raised as r:
                res = 'ValueError' if r.cls == 'ValueError' else 'other:raises %s' % r.cls
            except Unsupported as e:
                raise AnalysisError('parse_directive_value cannot be evaluated for %r, relaxed_bool=%s: %s' % (tok, relaxed, e))
            if res is not True and res is not False and not isinstance(res, str):
                res = 'other:returns %r' % (res,)
            out[(tok, relaxed)] = res
    return out


def booltab_problems(tab):
    """-> [(key, message)]"""
    problems = []
    for (tok, relaxed), res in sorted(tab.items()):
        mode = 'relaxed' if relaxed else 'strict'
        if isinstance(res, str) and res.startswith('other:'):
            problems.append(('%s:%r' % (mode, tok), 'for the value %r (%s mode) the parser %s: a directive string is neither parsed nor rejected with ValueError' % (tok, mode, res[6:])))
            continue
        # the documented spellings
        if tok in ('True', 'False') and res is not (tok == 'True'):
            problems.append(('%s:%r' % (mode, tok), 'the documented value %r is parsed as %r in %s mode' % (tok, res, mode)))
        # a word is never parsed as the opposite boolean
        elif tok.lower() in ('true', 'false') and res in (True, False) and res is not (tok.lower() == 'true'):
            problems.append(('%s:%r' % (mode, tok), 'the value %r is parsed as %r in %s mode' % (tok, res, mode)))
        # something that is no boolean word at all is rejected
        elif tok in ('', 'maybe', '2') and res != 'ValueError':
            problems.append(('%s:%r' % (mode, tok), 'the value %r, which is no spelling of a boolean, is parsed as %r in %s mode instead of being rejected' % (tok, res, mode)))
        # strict mode knows the exact spellings only (docstring of parse_directive_value: 'true' -> ValueError)
        elif not relaxed and tok not in ('True', 'False') and res != 'ValueError':
            problems.append(('strict:%r' % tok, 'strict mode (header comments, cythonize) accepts %r as %r; only True / False are documented there, the docstring shows \'true\' being rejected' % (tok, res)))
        # relaxed mode extends strict mode
        elif relaxed and tab.get((tok, False)) in (True, False) and res is not tab[(tok, False)]:
            problems.append(('relaxed:%r' % tok, 'relaxed mode parses %r as %r but strict mode as %r' % (tok, res, tab[(tok, False)])))
    # an accepted word and the opposite polarity: words accepted together with 'true' mean True (same test), nothing to add;
    # but a word accepted in relaxed mode must be accepted in each letter case (the parser lower-cases) - different cases of one word agree
    by_word = {}
    for (tok, relaxed), res in tab.items():
        if relaxed and tok and tok.isalpha():
            by_word.setdefault(tok.lower(), set()).add(res if not isinstance(res, str) else res)
    for w, results in sorted(by_word.items()):
        if len(results) > 1 and w not in ('true', 'false'):
            problems.append(('relaxed:case:%s' % w, 'relaxed mode treats the letter cases of %r differently (%s)' % (w, sorted(map(str, results)))))
    return problems


_BOOL_BAD = ("def parse_directive_value(name, value, relaxed_bool=False):\n    type = directive_types.get(name)\n    if type is bool:\n        value = str(value)\n        if value:\n            return True\n"
             "        raise ValueError('bad')\n")


def rule_BOOLTAB(ctx, floor=25):
    r = Rule('C41-BOOLTAB', 'the boolean branch of Options.parse_directive_value parses True / False (and, in relaxed mode, the words it knows) to the boolean they spell and rejects '
                            'everything else with ValueError: decision table over the partition of strings its comparisons induce x relaxed_bool', floor)
    ix = ctx.index
    m = ix.mod('Options')
    fn = m.functions.get('parse_directive_value')
    if fn is None:
        raise AnalysisError('Options.parse_directive_value vanished')
    tab = bool_table(ix, m, fn)
    for (tok, relaxed), res in sorted(tab.items()):
        r.inst('parse_directive_value:bool:%s:%r' % ('relaxed' if relaxed else 'strict', tok), sample='%r relaxed=%s -> %s' % (tok, relaxed, res))
    seen = set()
    for key, msg in booltab_problems(tab):
        if key in seen:
            continue
        seen.add(key)
        r.violate('Options.parse_directive_value:bool:%s' % key, OPT, fn.lineno, 'Options.parse_directive_value (boolean directive): ' + msg)
    bad = bool_table(ix, m, ast.parse(_BOOL_BAD).body[0])
    r.positive_control(any(k.endswith("'False'") for k, _ in booltab_problems(bad)) and any("'maybe'" in k for k, _ in booltab_problems(bad)), 'truthiness test instead of the comparison with the spelling')
    return r


# ------------------------------------------------------------------------------------------------ C41-SCOPE
SCOPE_VOCABULARY = ('module', 'function', 'class', 'cclass', 'cppclass', 'with statement')


def scope_table(ix, cls, fn, scopes_table):
    """-> [(directive, scope, returned value, errors reported)]"""
    out = []
    names = sorted(scopes_table) + ['boundscheck']
    for d in names:
        for sc in SCOPE_VOCABULARY:
            reported = []
            ctxobj = Obj('context', flag_default=False, nonfatal_error=lambda e: reported.append(e))
            selfobj = Obj('InterpretCompilerDirectives', cls=cls, flag_default=False, context=ctxobj)
            ev = DirEval(ix, overrides={('Options', 'directive_types'): {k: True for k in names}, ('Errors', 'error'): (lambda pos, msg: reported.append(msg))})
            try:
                res = ev.call(Method(RepoFn(cls.module, fn, cls), selfobj), [Obj('pos'), d, sc])
            except (Unsupported, Raised) as e:
                raise AnalysisError('check_directive_scope cannot be evaluated for (%s, %s): %s' % (d, sc, e))
            out.append((d, sc, res, len(reported)))
    return out


def rule_SCOPE(ctx, floor=300):
    r = Rule('C41-SCOPE', 'InterpretCompilerDirectives.check_directive_scope accepts a directive exactly in the scopes Options.directive_scopes lists for it (everywhere if it is not listed) '
                          'and reports an error when it answers no: decision table over the table x the scope vocabulary', floor)
    ix = ctx.index
    cls = ix.cls('ParseTreeTransforms', 'InterpretCompilerDirectives')
    fn = cls.methods.get('check_directive_scope') if cls else None
    if fn is None:
        raise AnalysisError('InterpretCompilerDirectives.check_directive_scope vanished')
    sc = tables.module_assign(ctx.parse(OPT), 'directive_scopes')
    table = tables.literal(sc) if sc is not None else None
    if not isinstance(table, dict) or len(table) < 30:
        raise AnalysisError('Options.directive_scopes is not a literal dict')
    bad = {}
    for d, s, res, n_err in scope_table(ix, cls, fn, table):
        legal = table.get(d)
        want = True if not legal else (s in legal)
        r.inst('check_directive_scope:%s@%s' % (d, s), sample='%s in %s -> %r' % (d, s, res), nontrivial=bool(legal))
        if bool(res) != want:
            bad.setdefault('accepts' if res else 'rejects', []).append((d, s))
        elif not want and not n_err:
            bad.setdefault('silent', []).append((d, s))
    for kind, rows in sorted(bad.items()):
        d, s = rows[0]
        msg = {'accepts': 'answers True for %d (directive, scope) pairs the table forbids, e.g. %r in %s scope: the directive takes effect outside the scope it is defined for',
               'rejects': 'answers False for %d (directive, scope) pairs the table allows, e.g. %r in %s scope: a correctly placed directive is dropped',
               'silent': 'answers False for %d pairs without reporting an error, e.g. %r in %s scope: the directive is silently ignored'}[kind] % (len(rows), d, s)
        r.violate('InterpretCompilerDirectives.check_directive_scope:%s' % kind, PTT, fn.lineno, 'check_directive_scope ' + msg)
    return r


# ------------------------------------------------------------------------------------------------ C41-CONTENTS
def contents_findings(cls):
    """-> [(key, line, problem or None, sample)]"""
    out = []
    ex = cls.methods.get('_extract_directives')
    vw = cls.methods.get('visit_with_directives')
    if ex is None or vw is None:
        raise AnalysisError('InterpretCompilerDirectives._extract_directives / visit_with_directives vanished')
    # (a) the mapping returned second by _extract_directives only receives non-immediate names
    second = set()
    for n in _wnn(ex):
        if isinstance(n, ast.Return) and isinstance(n.value, ast.Tuple) and len(n.value.elts) == 2 and isinstance(n.value.elts[1], ast.Name):
            second.add(n.value.elts[1].id)
    if len(second) != 1:
        raise AnalysisError('_extract_directives does not return (directives, contents directives) as two names')
    cname = second.pop()
    stores = [n for n in _wnn(ex) if isinstance(n, ast.Assign) and any(isinstance(t, ast.Subscript) and isinstance(t.value, ast.Name) and t.value.id == cname for t in n.targets)]
    if not stores:
        raise AnalysisError('_extract_directives never stores into %s' % cname)
    states = reaching_states(ex, stores)
    for i, st in enumerate(stores):
        key_expr = [t.slice for t in st.targets if isinstance(t, ast.Subscript)][0]
        ktext = _u(key_expr)
        ok_all = True
        for state in states[id(st)]:
            ok = False
            for text, truth in path_facts(state):
                try:
                    e = ast.parse(text, mode='eval').body
                except SyntaxError:
                    continue
                if isinstance(e, ast.Compare) and len(e.ops) == 1 and _u(e.left) == ktext and 'immediate_decorator_directives' in _u(e.comparators[0]):
                    if (isinstance(e.ops[0], ast.NotIn) and truth) or (isinstance(e.ops[0], ast.In) and not truth):
                        ok = True
            ok_all = ok_all and ok
        key = '_extract_directives:%s[%s]' % (cname, ktext) + ('' if i == 0 else '#%d' % (i + 1))
        out.append((key, st.lineno, None if ok_all and states[id(st)] else
                    'stores the directive into the mapping for the *contents* of the decorated object on a path that does not exclude Options.immediate_decorator_directives: '
                    'cfunc / ccall / final / exceptval / returns ... then also apply to the functions nested inside', _u(st)))
    # (b) visit_with_directives: the node wrapped around the body carries the mapping built from the contents parameter
    params = [a.arg for a in vw.args.args]
    if len(params) < 4:
        raise AnalysisError('visit_with_directives(self, node, directives, contents_directives) changed its signature')
    p_dir, p_cont = params[2], params[3]
    built = {}
    for n in _wnn(vw):
        if isinstance(n, ast.Assign) and len(n.targets) == 1 and isinstance(n.targets[0], ast.Name) and isinstance(n.value, ast.Call):
            stars = [k.value.id for k in n.value.keywords if k.arg is None and isinstance(k.value, ast.Name)]
            for s in stars:
                built.setdefault(n.targets[0].id, set()).add(s)
    wrappers = []
    for n in _wnn(vw):
        if isinstance(n, ast.Assign) and any(isinstance(t, ast.Attribute) and t.attr == 'body' for t in n.targets):
            for c in ast.walk(n.value):
                if isinstance(c, ast.Call) and (getattr(c.func, 'attr', None) or getattr(c.func, 'id', '')) == 'CompilerDirectivesNode':
                    wrappers.append(c)
    if not wrappers:
        raise AnalysisError('visit_with_directives no longer wraps node.body in a CompilerDirectivesNode')
    for c in wrappers:
        kw = [k.value for k in c.keywords if k.arg == 'directives']
        key = 'visit_with_directives:body wrapper'
        if not kw or not isinstance(kw[0], ast.Name):
            out.append((key, c.lineno, 'wraps the body without a plain `directives=<mapping>` argument (not decided)', _u(c)))
            continue
        src = built.get(kw[0].id, set())
        if src == {p_cont}:
            out.append((key, c.lineno, None, 'directives=%s built from **%s' % (kw[0].id, p_cont)))
        else:
            out.append((key, c.lineno, 'wraps the body of the decorated object in CompilerDirectivesNode(directives=%s), a mapping built from %s instead of **%s: the directives meant for the '
                        'object only (cfunc, final, exceptval ...) are applied to everything inside it' % (kw[0].id, ('**' + ', **'.join(sorted(src))) if src else 'something else', p_cont), _u(c)))
    return out


def rule_CONTENTS(ctx, floor=2):
    r = Rule('C41-CONTENTS', 'decorator directives that apply to the decorated object only (Options.immediate_decorator_directives) never reach the directive mapping of its contents: '
                             'guarded store in _extract_directives, and the body wrapper of visit_with_directives carries the contents mapping', floor)
    cls = ctx.index.cls('ParseTreeTransforms', 'InterpretCompilerDirectives')
    if cls is None:
        raise AnalysisError('InterpretCompilerDirectives vanished')
    for key, line, problem, sample in contents_findings(cls):
        k = 'InterpretCompilerDirectives.%s' % key
        r.inst(k, sample='%s: %s' % (k, sample))
        if problem and 'not decided' in problem:
            r.info('%s: %s' % (k, problem))
        elif problem:
            r.violate(k, PTT, line, 'InterpretCompilerDirectives.%s %s' % (key.split(':')[0], problem))
    return r


# ------------------------------------------------------------------------------------------------ C41-INHERIT / C41-HEADER (ordered writes into the returned mapping)
def _is_copy_of(e, name):
    """dict(name) / name.copy() / copy.copy(name) / copy.deepcopy(name) / {**name} / dict(name.items())"""
    if isinstance(e, ast.Call):
        f = e.func
        if isinstance(f, ast.Name) and f.id == 'dict' and len(e.args) == 1 and not e.keywords:
            a = e.args[0]
            return (isinstance(a, ast.Name) and a.id == name) or (isinstance(a, ast.Call) and isinstance(a.func, ast.Attribute) and a.func.attr == 'items' and _u(a.func.value) == name)
        if isinstance(f, ast.Attribute) and f.attr == 'copy' and not e.args and _u(f.value) == name:
            return True
        if isinstance(f, ast.Attribute) and f.attr in ('copy', 'deepcopy') and len(e.args) == 1 and _u(e.args[0]) == name:
            return True
    if isinstance(e, ast.Dict) and e.keys == [None] and _u(e.values[0]) == name:
        return True
    return False


def mapping_writes(fn, var):
    """ordered writes into the local mapping `var`: [(line, kind 'init-copy'|'init-alias'|'init-other'|'override'|'weak', source name or None)]"""
    out = []

    def visit(stmts, loop_src):
        for st in stmts:
            if isinstance(st, ast.Assign) and any(isinstance(t, ast.Name) and t.id == var for t in st.targets):
                v = st.value
                if isinstance(v, ast.Name):
                    out.append((st.lineno, 'init-alias', v.id))
                elif isinstance(v, ast.Dict) and all(k is None for k in v.keys) and len(v.values) > 1 and all(isinstance(x, ast.Name) for x in v.values):
                    out.append((st.lineno, 'init-copy', v.values[0].id))
                    for x in v.values[1:]:
                        out.append((st.lineno, 'override', x.id))
                else:
                    src = [n.id for n in ast.walk(v) if isinstance(n, ast.Name)]
                    copied = [s for s in src if _is_copy_of(v, s)]
                    out.append((st.lineno, 'init-copy' if copied else 'init-other', copied[0] if copied else (src[0] if src else None)))
            elif isinstance(st, ast.Assign) and any(isinstance(t, ast.Subscript) and isinstance(t.value, ast.Name) and t.value.id == var for t in st.targets):
                out.append((st.lineno, 'override', loop_src))
            elif isinstance(st, ast.AugAssign) and isinstance(st.target, ast.Name) and st.target.id == var and isinstance(st.op, ast.BitOr):
                out.append((st.lineno, 'override', _u(st.value)))
            elif isinstance(st, ast.Expr) and isinstance(st.value, ast.Call) and isinstance(st.value.func, ast.Attribute) and isinstance(st.value.func.value, ast.Name) \
                    and st.value.func.value.id == var:
                c = st.value
                if c.func.attr == 'update' and c.args:
                    out.append((st.lineno, 'override', _u(c.args[0])))
                elif c.func.attr == 'update' and c.keywords:
                    out.append((st.lineno, 'override', ','.join(_u(k.value) for k in c.keywords if k.arg is None)))
                elif c.func.attr == 'setdefault':
                    out.append((st.lineno, 'weak', loop_src))
            elif isinstance(st, (ast.For, ast.AsyncFor)):
                names = [n.id for n in ast.walk(st.iter) if isinstance(n, ast.Name)]
                visit(st.body, names[0] if names else loop_src)
            elif isinstance(st, (ast.If, ast.While)):
                visit(st.body, loop_src)
                visit(st.orelse, loop_src)
            elif isinstance(st, (ast.With, ast.Try)):
                visit(st.body, loop_src)
                for h in getattr(st, 'handlers', []) or []:
                    visit(h.body, loop_src)
                visit(getattr(st, 'orelse', []) or [], loop_src)
                visit(getattr(st, 'finalbody', []) or [], loop_src)
    visit(fn.body, None)
    return out


def inherit_findings(fn):
    """-> [(key, line, problem or None, sample)] for a function (outer, **new) -> merged mapping"""
    a = fn.args
    if not a.args or a.kwarg is None:
        raise AnalysisError('%s(outer_directives, **new_directives) changed its signature' % fn.name)
    outer, new = a.args[0].arg, a.kwarg.arg
    rets = [n.value for n in _wnn(fn) if isinstance(n, ast.Return) and n.value is not None]
    if len(rets) != 1 or not isinstance(rets[0], ast.Name):
        return [('result', fn.lineno, 'does not return one named mapping (not decided)', '')]
    var = rets[0].id
    w = mapping_writes(fn, var)
    out = []
    inits = [x for x in w if x[1].startswith('init')]
    sample = '; '.join('%s from %s' % (k, s) for _, k, s in w)
    if len(inits) != 1:
        return [('result', fn.lineno, 'binds the returned mapping %d times (not decided)' % len(inits), sample)]
    line, kind, src = inits[0]
    # follow one level of local aliasing: merged = dict(new); merged.update(copy_of_outer)
    if kind == 'init-copy' and src == outer:
        out.append(('base', line, None, sample))
    elif kind == 'init-alias' and src == outer:
        out.append(('base', line, 'returns the mapping of the enclosing scope itself (`%s = %s`, no copy): the directives of a decorator / with-block are written into the enclosing scope '
                    'and stay in force after the block' % (var, outer), sample))
    else:
        out.append(('base', line, 'starts the result from %s instead of a copy of the enclosing directives `%s`: %s' % (
            src, outer, 'the enclosing scope then overrides the decorator / with-block' if src == new else 'inherited directives are lost'), sample))
    over = [x for x in w if x[1] == 'override' and x[2] and new in x[2] and x[0] >= line]
    late_outer = [x for x in w if x[1] == 'override' and x[2] and outer in x[2] and x[0] > line]
    if late_outer:
        out.append(('override', late_outer[0][0], 'writes the enclosing directives over the result after it was built: the enclosing scope wins over the decorator / with-block', sample))
    elif over:
        out.append(('override', over[0][0], None, sample))
    elif not (kind == 'init-copy' and src == new):
        out.append(('override', fn.lineno, 'never writes the new directives `%s` into the result: decorators and with-blocks have no effect' % new, sample))
    return out


def rule_INHERIT(ctx, floor=2):
    r = Rule('C41-INHERIT', 'Options.copy_inherited_directives returns a private copy of the enclosing directives overridden by the new ones '
                            '(a directive set by decorator or with-block applies inside and only inside)', floor)
    m = ctx.index.mod('Options')
    fn = m.functions.get('copy_inherited_directives')
    if fn is None:
        raise AnalysisError('Options.copy_inherited_directives vanished')
    for key, line, problem, sample in inherit_findings(fn):
        k = 'Options.copy_inherited_directives:%s' % key
        r.inst(k, sample='%s: %s' % (k, sample))
        if problem and 'not decided' in problem:
            r.info('%s: %s' % (k, problem))
        elif problem:
            r.violate(k, OPT, line, 'Options.copy_inherited_directives ' + problem)
    bad = inherit_findings(ast.parse("def f(outer, **new):\n    out = outer\n    out.update(new)\n    return out\n").body[0])
    good = inherit_findings(ast.parse("def f(outer, **new):\n    out = {**outer}\n    for k, v in new.items():\n        out[k] = v\n    return out\n").body[0])
    r.positive_control([k for k, _, p, _ in bad if p] == ['base'] and not any(p for _, _, p, _ in good), 'alias instead of a copy / dict-display and loop form of the correct merge')
    return r


def header_findings(fn):
    """-> [(key, line, problem or None, sample)] for p_compiler_directive_comments"""
    rets = [n.value for n in _wnn(fn) if isinstance(n, ast.Return) and n.value is not None]
    if len(rets) != 1 or not isinstance(rets[0], ast.Name):
        return [('result', fn.lineno, 'does not return one named mapping (not decided)', '')]
    var = rets[0].id
    parsed = []
    for n in _wnn(fn):
        if isinstance(n, ast.Assign) and len(n.targets) == 1 and isinstance(n.targets[0], ast.Name) and isinstance(n.value, ast.Call) \
                and (getattr(n.value.func, 'attr', None) or getattr(n.value.func, 'id', '')) == 'parse_directive_list':
            chained = any(k.arg == 'current_settings' and _u(k.value) == var for k in n.value.keywords)
            parsed.append((n.targets[0].id, n.lineno, chained))
    if not parsed:
        raise AnalysisError('%s no longer calls Options.parse_directive_list' % fn.name)
    w = mapping_writes(fn, var)
    out = []
    for pname, pline, chained in parsed:
        sample = '; '.join('%s from %s' % (k, s) for _, k, s in w)
        flows = [x for x in w if x[1] == 'override' and x[2] and pname in x[2] and x[0] > pline]
        rebinds = [x for x in w if x[1].startswith('init') and x[2] == pname and x[0] > pline]
        if pname == var and chained:
            out.append(('parsed line -> %s' % var, pline, None, 'parse_directive_list(..., current_settings=%s)' % var))
        elif flows:
            out.append(('parsed line -> %s' % var, flows[0][0], None, sample))
        elif rebinds and not chained:
            out.append(('parsed line -> %s' % var, rebinds[0][0], 'rebinds the returned mapping to the directives of the current comment line (`%s = %s`): the lines before it are dropped'
                        % (var, pname), sample))
        elif rebinds:
            out.append(('parsed line -> %s' % var, rebinds[0][0], None, sample))
        else:
            out.append(('parsed line -> %s' % var, pline, 'parses each `# cython:` comment into `%s` but never merges it into the mapping it returns (`%s`): the file header has no effect'
                        % (pname, var), sample))
    return out


def rule_HEADER(ctx, floor=1):
    r = Rule('C41-HEADER', 'every `# cython:` comment line parsed by p_compiler_directive_comments is merged (overriding) into the mapping the function returns', floor)
    m = ctx.index.mod('Parsing')
    fn = m.functions.get('p_compiler_directive_comments')
    if fn is None:
        raise AnalysisError('Parsing.p_compiler_directive_comments vanished')
    for key, line, problem, sample in header_findings(fn):
        k = 'Parsing.p_compiler_directive_comments:%s' % key
        r.inst(k, sample='%s: %s' % (k, sample))
        if problem and 'not decided' in problem:
            r.info('%s: %s' % (k, problem))
        elif problem:
            r.violate(k, 'Cython/Compiler/Parsing.py', line, 'Parsing.p_compiler_directive_comments ' + problem)
    bad = header_findings(ast.parse("def p(s):\n    result = {}\n    while s.sy == 'commentline':\n        new = Options.parse_directive_list(s.systring)\n        s.next()\n    return result\n").body[0])
    good = header_findings(ast.parse("def p(s):\n    result = {}\n    while s.sy == 'commentline':\n        new = Options.parse_directive_list(s.systring)\n        for k in new:\n            result[k] = new[k]\n        s.next()\n    return result\n").body[0])
    r.positive_control(all(p for _, _, p, _ in bad) and not any(p for _, _, p, _ in good), 'parsed line never merged / loop form of the merge')
    return r


# ------------------------------------------------------------------------------------------------ C41-DECORDER
def decorder_findings(fn):
    """-> (reversed iteration?, merge policy 'last-wins'|'first-wins'|None, line)"""
    loop = None
    for n in _wnn(fn):
        if isinstance(n, (ast.For, ast.AsyncFor)) and any(isinstance(x, ast.Attribute) and x.attr == 'decorators' for x in ast.walk(n.iter)):
            loop = n
            break
    if loop is None:
        return None
    it = loop.iter
    rev = False
    if isinstance(it, ast.Subscript) and isinstance(it.slice, ast.Slice) and it.slice.step is not None and _u(it.slice.step) == '-1' and it.slice.lower is None and it.slice.upper is None:
        rev = True
    elif isinstance(it, ast.Call) and isinstance(it.func, ast.Name) and it.func.id == 'reversed':
        rev = True
    elif not (isinstance(it, ast.Attribute) and it.attr == 'decorators'):
        return ('unknown', None, loop.lineno)
    # merge loop: for name, value in <list the first loop appended to>
    appended = {n.value.func.value.id for n in ast.walk(loop) if isinstance(n, ast.Expr) and isinstance(n.value, ast.Call) and isinstance(n.value.func, ast.Attribute)
                and n.value.func.attr == 'append' and isinstance(n.value.func.value, ast.Name)}
    merge = None
    for n in _wnn(fn):
        if isinstance(n, (ast.For, ast.AsyncFor)) and n is not loop and isinstance(n.iter, ast.Name) and n.iter.id in appended and isinstance(n.target, ast.Tuple) and len(n.target.elts) == 2:
            merge = n
    if merge is None:
        return (rev, None, loop.lineno)
    kname, vname = _u(merge.target.elts[0]), _u(merge.target.elts[1])
    stores = [s for s in ast.walk(merge) if isinstance(s, ast.Assign) and len(s.targets) == 1 and isinstance(s.targets[0], ast.Subscript) and _u(s.targets[0].slice) == kname and _u(s.value) == vname]
    if not stores:
        return (rev, None, loop.lineno)
    states = reaching_states(fn, stores)
    policy = 'first-wins'
    for s in stores:
        m = _u(s.targets[0].value)
        for st in states[id(s)]:
            facts = dict(path_facts(st))
            if facts.get('%s in %s' % (kname, m)) is True or facts.get('%s not in %s' % (kname, m)) is False:
                policy = 'last-wins'
    return (rev, policy, loop.lineno)


def rule_DECORDER(ctx, floor=1):
    r = Rule('C41-DECORDER', 'of two decorators that set the same directive the one written first (outermost) wins: the iteration order over the decorator stack '
                             'agrees with the merge policy of _extract_directives', floor)
    cls = ctx.index.cls('ParseTreeTransforms', 'InterpretCompilerDirectives')
    fn = cls.methods.get('_extract_directives') if cls else None
    if fn is None:
        raise AnalysisError('InterpretCompilerDirectives._extract_directives vanished')
    res = decorder_findings(fn)
    if res is None:
        raise AnalysisError('_extract_directives no longer loops over node.decorators')
    rev, policy, line = res
    key = 'InterpretCompilerDirectives._extract_directives:decorator order'
    r.inst(key, sample='%s: iteration %s, merge %s' % (key, 'bottom-up' if rev is True else 'top-down' if rev is False else rev, policy))
    if rev == 'unknown' or policy is None:
        r.info('%s: iteration / merge form not recognised' % key)
    elif (rev and policy != 'last-wins') or (not rev and policy != 'first-wins'):
        r.violate(key, PTT, line, '_extract_directives walks the decorators %s and merges repeated directives %s: of two decorators setting the same directive the one written LAST '
                  '(innermost) takes precedence, Python applies the outermost decorator last, and the comment in the code promises "decorators coming first take precedence"'
                  % ('bottom-up' if rev else 'top-down', policy))
    pc = ast.parse("def _extract_directives(self, node):\n    directives = []\n    for dec in node.decorators:\n        directives.append(self.parse(dec))\n    optdict = {}\n"
                   "    for name, value in directives:\n        if name in optdict:\n            optdict[name] = value\n        else:\n            optdict[name] = value\n    return optdict\n").body[0]
    got = decorder_findings(pc)
    r.positive_control(got is not None and got[0] is False and got[1] == 'last-wins', 'top-down iteration with last-wins merging')
    return r


# ------------------------------------------------------------------------------------------------ C41-CTX
def ctx_unrestored(fn):
    """attributes `<name>.<attr>` that a generator context manager saves, rebinds and does not put back after the yield: [(text, line)]"""
    cands = {}
    for n in _wnn(fn):
        if isinstance(n, ast.Assign) and len(n.targets) == 1 and isinstance(n.targets[0], ast.Name) and isinstance(n.value, ast.Attribute) and isinstance(n.value.value, ast.Name):
            cands[_u(n.value)] = n.targets[0].id
    out = []
    for attr_text, saved in sorted(cands.items()):
        stores = [n for n in _wnn(fn) if isinstance(n, ast.Assign) and any(_u(t) == attr_text for t in n.targets)]
        if not stores:
            continue

        def tr(n, state):
            s = set(state)
            if isinstance(n, ast.Assign):
                for t in n.targets:
                    if _u(t) == attr_text:
                        if isinstance(n.value, ast.Name) and n.value.id == saved and 'SAVED' in s:
                            s.discard('MOD')
                        else:
                            s.add('MOD')
                    elif isinstance(t, ast.Name) and t.id == saved:
                        if _u(n.value) == attr_text and 'MOD' not in s:
                            s.add('SAVED')
                        else:
                            s.discard('SAVED')
            elif isinstance(n, ast.Expr) and isinstance(n.value, (ast.Yield, ast.YieldFrom)):
                s.add('YIELDED')
            return frozenset(s)
        try:
            o = pyflow.Flow(tr).run(fn)
        except pyflow.TooManyStates:
            continue
        if any('MOD' in st and 'YIELDED' in st for st in o.normal | o.returns):
            out.append((attr_text, stores[0].lineno, True))
        else:
            out.append((attr_text, stores[0].lineno, False))
    return out


def rule_CTX(ctx, floor=2):
    r = Rule('C41-CTX', 'a generator context manager that saves an attribute of its argument (obj.directives), rebinds it and yields puts the saved value back on every '
                        'normal exit after the yield', floor)
    ix = ctx.index
    for m in sorted(ix.modules.values(), key=lambda mm: mm.rel):
        if not m.rel.startswith('Cython/Compiler/'):
            continue
        for qn, owner, fn in ix.functions_of(m):
            if not any((isinstance(d, ast.Name) and d.id.endswith('contextmanager')) or (isinstance(d, ast.Attribute) and d.attr.endswith('contextmanager')) for d in fn.decorator_list):
                continue
            for attr_text, line, bad in ctx_unrestored(fn):
                key = '%s.%s:%s' % (m.short, qn, attr_text)
                r.inst(key, sample='%s: %s' % (key, 'NOT restored' if bad else 'restored after the yield'), nontrivial=attr_text.endswith('directives'))
                if bad:
                    r.violate(key, m.rel, line, '%s.%s rebinds %s for the duration of the with-block but does not put the saved value back after the yield: the inner setting '
                              '(e.g. the directives of a decorated function) stays in force for the code that follows' % (m.short, qn, attr_text))
    pc = ast.parse("def apply(self, obj):\n    old = obj.directives\n    obj.directives = self.directives\n    yield\n").body[0]
    ok = ast.parse("def apply(self, obj):\n    old = obj.directives\n    obj.directives = self.directives\n    try:\n        yield\n    finally:\n        obj.directives = old\n").body[0]
    r.positive_control([b for _, _, b in ctx_unrestored(pc)] == [True] and [b for _, _, b in ctx_unrestored(ok)] == [False], 'context manager without the restore / try-finally form')
    return r


# ------------------------------------------------------------------------------------------------ C41-UNKNOWN
def unknown_findings(fn, lenient_param, table_name='_directive_defaults'):
    """raise statements of parse_directive_list in the branch for names that are not in the directive table: [(line, facts about the lenient flag: True/False/None)]"""
    raises = [n for n in _wnn(fn) if isinstance(n, ast.Raise)]
    if not raises:
        return []
    states = reaching_states(fn, raises)
    out = []
    for rz in raises:
        for st in states[id(rz)]:
            facts = dict(path_facts(st))
            unknown_branch = any((t.endswith('not in %s' % table_name) and v is True) or (t.endswith(' in %s' % table_name) and ' not in ' not in t and v is False) for t, v in facts.items())
            if not unknown_branch:
                continue
            out.append((rz.lineno, facts.get(lenient_param)))
    return out


def rule_UNKNOWN(ctx, floor=1):
    r = Rule('C41-UNKNOWN', 'Options.parse_directive_list rejects a name that is no directive with an error, except when the caller asked for leniency (the flag the header-comment '
                            'parser passes): path condition of the raise in the unknown-name branch', floor)
    ix = ctx.index
    m = ix.mod('Options')
    fn = m.functions.get('parse_directive_list')
    hdr = ix.mod('Parsing').functions.get('p_compiler_directive_comments')
    if fn is None or hdr is None:
        raise AnalysisError('Options.parse_directive_list / Parsing.p_compiler_directive_comments vanished')
    params = [a.arg for a in fn.args.args]
    lenient = None
    for n in _wnn(hdr):
        if isinstance(n, ast.Call) and (getattr(n.func, 'attr', None) or getattr(n.func, 'id', '')) == 'parse_directive_list':
            for k in n.keywords:
                if k.arg in params and isinstance(k.value, ast.Constant) and k.value.value is True and 'bool' not in k.arg:
                    lenient = k.arg
    if lenient is None:
        r.inst('parse_directive_list:no-lenient-caller', sample='the header parser passes no leniency flag')
        res = unknown_findings(fn, '<none>')
        if not res:
            r.violate('Options.parse_directive_list:unknown-name', OPT, fn.lineno, 'parse_directive_list has no raise for names that are not directives: unknown options are silently accepted')
        return r
    res = unknown_findings(fn, lenient)
    key = 'Options.parse_directive_list:unknown-name'
    r.inst(key, sample='%s: raise under %s=%s' % (key, lenient, sorted({str(v) for _, v in res})))
    if not res:
        r.violate(key, OPT, fn.lineno, 'parse_directive_list never raises for a name that is not in the directive table: `-X nosuchoption=1` / cythonize(compiler_directives=...) typos are silently accepted')
    elif not any(v is False for _, v in res):
        r.violate(key, OPT, res[0][0], 'parse_directive_list raises for an unknown name only when %s is set (or regardless of it): the command line accepts unknown options silently and/or a '
                  '`# cython:` header with a directive of a newer Cython version, which must be ignored, aborts the compilation' % lenient)
    elif any(v is not False for _, v in res):
        r.violate(key, OPT, [l for l, v in res if v is not False][0], 'parse_directive_list can raise for an unknown name although the caller passed %s=True (header comments): '
                  'a header written for a newer Cython version aborts the compilation' % lenient)
    return r
