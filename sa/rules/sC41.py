"""C41, strengthening: precedence of the sources of a directive value.

  C41-UDEF   a hard-wired *default* written into a user-supplied directive mapping (CompilationOptions.compiler_directives, the
             cython_directives of an Extension, the cython_compiler_directives argument of cython_inline ...) is reachable only when
             the user gave no value: the path condition of the store, evaluated over the COMPLETE value domain of the directive
             ({absent} + every explicit value class of its declared type), is satisfiable for `absent` only.
             ("is None" simplified to a truth test lets the default overwrite an explicit False.)
  C41-RUN    the loop that folds a decorator stack (InterpretCompilerDirectives._extract_directives) drops decorators that "do not change
             the previous value"; that filter is sound only against the *running* state: the mapping it compares with is the one it
             updates on the keep path, and that mapping is a private copy (not an alias) of the enclosing scope's directives.
  C41-LAYER  the module-level directive mapping is built in the order  defaults < options (cythonize / command line) < `# cython:` header,
             each layer written with overriding semantics (update / item store, not setdefault) over the previous one.
"""
import ast

from ..core import Rule, AnalysisError, node_src
from ..engine import pyflow, tables
from ..engine.pyindex import walk_no_nested, is_self_attr

OPT = 'Cython/Compiler/Options.py'
PTT = 'Cython/Compiler/ParseTreeTransforms.py'

ABSENT = ('<absent>',)
UNKNOWN = ('<unknown>',)


# ====================================================================================================== helpers
def _u(n):
    return ast.unparse(n)


def _functions(tree):
    """(qualified name, FunctionDef) of every function of a module, nested ones included."""
    out = []

    def rec(body, prefix):
        for st in body:
            if isinstance(st, (ast.FunctionDef, ast.AsyncFunctionDef)):
                out.append((prefix + st.name, st))
                rec(st.body, prefix + st.name + '.')
            elif isinstance(st, ast.ClassDef):
                rec(st.body, prefix + st.name + '.')
            elif isinstance(st, (ast.If, ast.Try, ast.With, ast.For, ast.While)):
                for fld in ('body', 'orelse', 'finalbody'):
                    rec(getattr(st, fld, []) or [], prefix)
                for h in getattr(st, 'handlers', []) or []:
                    rec(h.body, prefix)
    rec(tree.body, '')
    return out


def reaching_states(fn, wanted):
    """{id(stmt): set of states (frozensets of pyflow facts) in which the statement is executed} for the statements in `wanted`."""
    ids = {id(s) for s in wanted}
    seen = {i: set() for i in ids}

    def tr(node, state):
        if id(node) in ids:
            seen[id(node)].add(state)
        return state
    try:
        pyflow.Flow(tr).run(fn)
    except pyflow.TooManyStates:
        raise AnalysisError('%s: too many path states' % fn.name)
    return seen


def path_facts(state):
    return [(f[1], f[2]) for f in state if isinstance(f, tuple) and f and f[0] == '?']


# ====================================================================================================== C41-UDEF
def directive_domains(ctx):
    """{directive: [explicit value classes]} from Options._directive_defaults / directive_types."""
    def build():
        tree = ctx.parse(OPT)
        dd = tables.module_assign(tree, '_directive_defaults')
        dt = tables.module_assign(tree, 'directive_types')
        if not isinstance(dd, ast.Dict) or not isinstance(dt, ast.Dict):
            raise AnalysisError('Options._directive_defaults / directive_types are not dict literals')
        types = {}
        for k, v in zip(dt.keys, dt.values):
            if isinstance(k, ast.Constant) and isinstance(k.value, str):
                types[k.value] = v.id if isinstance(v, ast.Name) else None
        out = {}
        for k, v in zip(dd.keys, dd.values):
            if not (isinstance(k, ast.Constant) and isinstance(k.value, str)):
                continue
            name = k.value
            default = v.value if isinstance(v, ast.Constant) else UNKNOWN
            tname = types.get(name)
            if tname is None and default is not UNKNOWN and default is not None:
                tname = type(default).__name__
            if tname == 'bool':
                vals = [False, True]
            elif tname == 'int':
                vals = [0, 1]
            elif tname == 'str':
                vals = ['', 'x']
            elif tname == 'list':
                vals = [[], ['x']]
            elif tname == 'dict':
                vals = [{}, {'x': 1}]
            else:
                vals = ['x']          # some explicit (truthy) value of a type the tables do not spell out
            if default is None:
                vals = [None] + vals  # None is a legitimate explicit value of this directive
            out[name] = vals
        if len(out) < 40:
            raise AnalysisError('only %d directives found in Options._directive_defaults' % len(out))
        return out
    return ctx.memo('sC41.directive_domains', build)


def eval3(e, u, mtext, key):
    """Kleene evaluation of a test expression for the user setting u (ABSENT or an explicit value) of mapping `mtext` at `key`.
    -> ('v', python value) | UNKNOWN"""
    def is_m(x):
        return _u(x) == mtext

    def is_key(x):
        return isinstance(x, ast.Constant) and x.value == key

    def val(x):
        # value-denoting expressions
        if isinstance(x, ast.Constant):
            return ('v', x.value)
        if isinstance(x, (ast.Tuple, ast.List)):
            vs = [val(y) for y in x.elts]
            if any(v is UNKNOWN for v in vs):
                return UNKNOWN
            return ('v', tuple(v[1] for v in vs))
        if isinstance(x, ast.Call) and isinstance(x.func, ast.Attribute) and x.func.attr == 'get' and is_m(x.func.value) and x.args and is_key(x.args[0]) and not x.keywords:
            if u is ABSENT:
                if len(x.args) > 1:
                    return val(x.args[1])
                return ('v', None)
            return ('v', u)
        if isinstance(x, ast.Subscript) and is_m(x.value) and is_key(x.slice):
            return UNKNOWN if u is ABSENT else ('v', u)
        if isinstance(x, ast.UnaryOp) and isinstance(x.op, ast.Not):
            v = val(x.operand)
            return UNKNOWN if v is UNKNOWN else ('v', not v[1])
        if isinstance(x, ast.BoolOp):
            is_and = isinstance(x.op, ast.And)
            unknown = False
            last = None
            for y in x.values:
                v = val(y)
                if v is UNKNOWN:
                    unknown = True
                    continue
                last = v
                if is_and and not v[1]:
                    return ('v', False)          # definitely false whatever the unknown parts are
                if not is_and and v[1]:
                    return ('v', True)
            if unknown:
                return UNKNOWN
            return ('v', bool(last[1]))
        if isinstance(x, ast.Compare) and len(x.ops) == 1:
            op, a, b = x.ops[0], x.left, x.comparators[0]
            if isinstance(op, (ast.In, ast.NotIn)) and is_m(b) and is_key(a):
                present = u is not ABSENT
                return ('v', present if isinstance(op, ast.In) else not present)
            va, vb = val(a), val(b)
            if va is UNKNOWN or vb is UNKNOWN:
                return UNKNOWN
            va, vb = va[1], vb[1]
            try:
                if isinstance(op, ast.Is):
                    return ('v', va is vb if (va is None or vb is None or isinstance(va, bool) or isinstance(vb, bool)) else va == vb)
                if isinstance(op, ast.IsNot):
                    return ('v', not (va is vb if (va is None or vb is None or isinstance(va, bool) or isinstance(vb, bool)) else va == vb))
                if isinstance(op, ast.Eq):
                    return ('v', va == vb)
                if isinstance(op, ast.NotEq):
                    return ('v', va != vb)
                if isinstance(op, ast.In):
                    return ('v', va in vb)
                if isinstance(op, ast.NotIn):
                    return ('v', va not in vb)
            except TypeError:
                return UNKNOWN
        return UNKNOWN
    return val(e)


def mentions(e, mtext, key):
    """does the test talk about mapping[key] at all (modelled or not)?"""
    has_m = any(_u(x) == mtext for x in ast.walk(e) if isinstance(x, (ast.Name, ast.Attribute)))
    has_k = any(isinstance(x, ast.Constant) and x.value == key for x in ast.walk(e))
    return has_m and has_k


def feasible(state, u, mtext, key):
    """-> (feasible?, talks about the setting?, an unmodelled test about the setting?)"""
    talks = unmodelled = False
    for text, truth in path_facts(state):
        try:
            e = ast.parse(text, mode='eval').body
        except SyntaxError:
            continue
        m = mentions(e, mtext, key)
        talks = talks or m
        v = eval3(e, u, mtext, key)
        if v is UNKNOWN:
            unmodelled = unmodelled or m
            continue
        if bool(v[1]) != truth:
            return False, talks, unmodelled
    return True, talks, unmodelled


def _external_mapping(fn, m):
    """the mapping expression denotes something handed in from outside the function: an attribute, a parameter, or a local alias of an attribute."""
    if isinstance(m, ast.Attribute):
        return True
    if isinstance(m, ast.Name):
        a = fn.args
        params = [x.arg for x in a.posonlyargs + a.args + a.kwonlyargs] + [x.arg for x in (a.vararg, a.kwarg) if x]
        if m.id in params:
            return True
        for n in walk_no_nested(fn):
            if isinstance(n, ast.Assign) and any(isinstance(t, ast.Name) and t.id == m.id for t in n.targets) and isinstance(n.value, ast.Attribute):
                return True
    return False


def default_stores(fn, domains):
    """candidate default writes of one function: [(statement whose path condition counts, mapping expr, key, literal text, how)]"""
    out = []
    nodes = list(walk_no_nested(fn))
    for n in nodes:
        if isinstance(n, ast.Assign):
            for t in n.targets:
                if isinstance(t, ast.Subscript) and isinstance(t.slice, ast.Constant) and t.slice.value in domains and _external_mapping(fn, t.value):
                    if isinstance(n.value, ast.Constant):
                        out.append((n, t.value, t.slice.value, n.value.value, 'item store'))
                    elif isinstance(n.value, ast.Name):
                        for a in nodes:
                            if isinstance(a, ast.Assign) and isinstance(a.value, ast.Constant) and any(isinstance(x, ast.Name) and x.id == n.value.id for x in a.targets):
                                out.append((a, t.value, t.slice.value, a.value.value, 'item store of local `%s`' % n.value.id))
        elif isinstance(n, ast.Expr) and isinstance(n.value, ast.Call) and isinstance(n.value.func, ast.Attribute) and _external_mapping(fn, n.value.func.value):
            c = n.value
            if c.func.attr == 'setdefault' and len(c.args) == 2 and isinstance(c.args[0], ast.Constant) and c.args[0].value in domains and isinstance(c.args[1], ast.Constant):
                out.append((n, c.func.value, c.args[0].value, c.args[1].value, 'setdefault'))
            elif c.func.attr == 'update':
                if c.args and isinstance(c.args[0], ast.Dict):
                    for k, v in zip(c.args[0].keys, c.args[0].values):
                        if isinstance(k, ast.Constant) and k.value in domains and isinstance(v, ast.Constant):
                            out.append((n, c.func.value, k.value, v.value, 'item store'))
                for kw in c.keywords:
                    if kw.arg in domains and isinstance(kw.value, ast.Constant):
                        out.append((n, c.func.value, kw.arg, kw.value.value, 'item store'))
    return out


def check_default_stores(fn, domains):
    """-> [(key suffix, stmt, mapping text, directive, literal, verdict, detail)], verdict in ok | overrides | unguarded | unmodelled | dead"""
    cands = default_stores(fn, domains)
    if not cands:
        return []
    states = reaching_states(fn, [c[0] for c in cands])
    res = []
    for stmt, m, key, litv, how in cands:
        mtext = _u(m)
        lit = repr(litv)
        if how == 'setdefault':
            res.append((stmt, mtext, key, lit, 'ok', 'setdefault fills an absent key only'))
            continue
        sts = states[id(stmt)]
        if not sts:
            res.append((stmt, mtext, key, lit, 'dead', 'statement is not reachable'))
            continue
        verdict, detail = 'ok', ''
        overridden = []
        for u in domains[key]:
            if type(u) is type(litv) and u == litv:
                continue          # writing the value the user chose anyway changes nothing
            for st in sts:
                ok, talks, unmod = feasible(st, u, mtext, key)
                if not ok:
                    continue
                if not talks:
                    verdict = 'unguarded'
                elif unmod:
                    if verdict == 'ok':
                        verdict = 'unmodelled'
                else:
                    overridden.append(u)
                break
        if overridden:
            verdict = 'overrides'
            detail = ', '.join(repr(x) for x in overridden)
        res.append((stmt, mtext, key, lit, verdict, detail))
    return res


UDEF_FILES = ('Cython/Compiler/Options.py', 'Cython/Compiler/Main.py', 'Cython/Compiler/CmdLine.py')
UDEF_DIRS = ('Cython/Build', 'Cython/Distutils', 'pyximport')

_UDEF_BAD = ("def configure(self, ext):\n    if ext == 'py':\n        if not self.compiler_directives.get('binding'):\n            self.compiler_directives['binding'] = True\n")
_UDEF_GOOD = ("def configure(self, ext):\n    if ext != 'py':\n        return\n    d = self.compiler_directives\n    if 'binding' in d and d['binding'] is not None:\n        return\n"
              "    d['binding'] = True\n")


def rule_UDEF(ctx, floor=2):
    import os
    r = Rule('C41-UDEF', 'a hard-wired default stored into a user-supplied directive mapping is reachable only when the user gave no value '
                         '(path condition evaluated over {absent} + every explicit value class of the directive)', floor)
    domains = directive_domains(ctx)
    files = list(UDEF_FILES)
    for d in UDEF_DIRS:
        p = ctx.path(d)
        if not os.path.isdir(p):
            raise AnalysisError('%s vanished' % d)
        files += sorted('%s/%s' % (d, f) for f in os.listdir(p) if f.endswith('.py'))
    for rel in files:
        tree = ctx.parse(rel)
        mod = rel.rsplit('/', 1)[1][:-3]
        for qn, fn in _functions(tree):
            for stmt, mtext, key, lit, verdict, detail in check_default_stores(fn, domains):
                ck = '%s.%s:%s[%r]' % (mod, qn, mtext, key)
                r.inst(ck, sample='%s = %s: %s %s' % (ck, lit, verdict, detail))
                if verdict == 'overrides':
                    r.violate(ck, rel, stmt.lineno, '%s.%s stores the default %s into %s[%r] on a path that is also taken when the user explicitly set %s = %s: the value given to '
                              'cythonize() / on the command line no longer overrides the default' % (mod, qn, lit, mtext, key, key, detail))
                elif verdict == 'unguarded':
                    r.violate(ck, rel, stmt.lineno, '%s.%s stores the default %s into %s[%r] without testing whether the user set %s: an explicit user value is overwritten'
                              % (mod, qn, lit, mtext, key, key))
                elif verdict in ('unmodelled', 'dead'):
                    r.info('%s: guard of the default store not decided (%s %s)' % (ck, verdict, detail))
    bad = check_default_stores(ast.parse(_UDEF_BAD).body[0], domains)
    good = check_default_stores(ast.parse(_UDEF_GOOD).body[0], domains)
    r.positive_control([x[4:] for x in bad] == [('overrides', 'False')] and [x[4] for x in good] == ['ok'], '`is None` simplified to a truth test / early-return form of the correct guard')
    return r


# ====================================================================================================== C41-RUN
def _lookup_compare(e):
    """find `M.get(k, ...) ==/!= v` or `M[k] ==/!= v` inside a test; -> (mapping expr, key text, value text) or None"""
    for x in ast.walk(e):
        if isinstance(x, ast.Compare) and len(x.ops) == 1 and isinstance(x.ops[0], (ast.Eq, ast.NotEq)):
            for a, b in ((x.left, x.comparators[0]), (x.comparators[0], x.left)):
                if isinstance(a, ast.Call) and isinstance(a.func, ast.Attribute) and a.func.attr == 'get' and a.args:
                    return a.func.value, _u(a.args[0]), _u(b)
                if isinstance(a, ast.Subscript) and isinstance(a.ctx, ast.Load) and not isinstance(a.slice, (ast.Slice, ast.Constant)):
                    return a.value, _u(a.slice), _u(b)
    return None


def change_filters(fn):
    """The 'does not change the previous value' filters of one function.
    -> [(append stmt, list text, mapping expr, key text, value text, [store stmts `X[key] = value` on the keep path])]"""
    appends, stores = [], []
    for n in walk_no_nested(fn):
        if isinstance(n, ast.Expr) and isinstance(n.value, ast.Call) and isinstance(n.value.func, ast.Attribute) and n.value.func.attr == 'append' \
                and isinstance(n.value.func.value, ast.Name):
            appends.append(n)
        elif isinstance(n, ast.Assign) and len(n.targets) == 1 and isinstance(n.targets[0], ast.Subscript):
            stores.append(n)
    if not appends:
        return []
    states = reaching_states(fn, appends + stores)

    def filter_facts(stmt):
        """filter facts common to every state reaching stmt: {(text, truth): (mapping, key, value)}"""
        common = None
        for st in states[id(stmt)]:
            cur = {}
            for text, truth in path_facts(st):
                try:
                    e = ast.parse(text, mode='eval').body
                except SyntaxError:
                    continue
                lc = _lookup_compare(e)
                if lc is not None:
                    cur[(text, truth)] = lc
            common = cur if common is None else {k: v for k, v in common.items() if k in cur}
        return common or {}

    out = []
    for ap in appends:
        for fact, (m, key, value) in sorted(filter_facts(ap).items(), key=lambda kv: kv[0][0]):
            on_keep = []
            for st in stores:
                t = st.targets[0]
                if fact in filter_facts(st):
                    on_keep.append((st, _u(t.slice) == key and _u(st.value) == value))
            out.append((ap, _u(ap.value.func.value), m, key, value, on_keep))
    return out


def check_filters(fn):
    """-> [(key suffix, line, problem or None)]"""
    res = []
    for ap, lst, m, key, value, on_keep in change_filters(fn):
        mtext = _u(m)
        ck = 'filter(%s[%s] vs %s)->%s' % ('<state>', key, value, lst)
        problems = []
        updated = sorted({_u(st.targets[0].value) for st, exact in on_keep if exact})
        touched = sorted({_u(st.targets[0].value) for st, exact in on_keep})
        if mtext in updated:
            pass
        elif mtext in touched:
            problems.append(('undecided', ap.lineno, 'stores into %s on the keep path, but not literally `%s[%s] = %s`' % (mtext, mtext, key, value)))
        elif updated:
            problems.append(('other', ap.lineno, 'compares the new value with %s[%s] but records kept values in %s: the comparison does not see the decorators processed before, so an outer '
                             'decorator that re-establishes the surrounding value is dropped and the inner one wins' % (mtext, key, ' / '.join(updated))))
        elif not touched:
            problems.append(('norun', ap.lineno, 'compares %s[%s] with the new value but never records the kept value (no `<mapping>[%s] = %s` on the keep path): a later decorator '
                             'is compared with a stale state' % (mtext, key, key, value)))
        else:
            problems.append(('undecided', ap.lineno, 'stores into %s on the keep path, none of which is `%s[%s] = %s`' % (' / '.join(touched), mtext, key, value)))
        if not isinstance(m, ast.Name):
            if not problems and mtext in updated:
                problems.append(('shared', ap.lineno, 'keeps its running state in %s, which is not a private local: the stores on the keep path modify the directives of the enclosing scope' % mtext))
        else:
            inits = [n for n in walk_no_nested(fn) if isinstance(n, ast.Assign) and any(isinstance(t, ast.Name) and t.id == m.id for t in n.targets)]
            for n in inits:
                if isinstance(n.value, (ast.Attribute, ast.Name)) and mtext in updated:
                    problems.append(('alias', n.lineno, 'running state %s is an alias of %s (no copy): recording a kept decorator value modifies the directives of the enclosing scope, '
                                     'so the decorator leaks to the code after the decorated function' % (mtext, _u(n.value))))
        res.append((ck, ap.lineno, problems))
    return res


_RUN_BAD = ("def extract(self, node):\n    directives = []\n    cur = dict(self.directives)\n    for dec in node.decorators[::-1]:\n        for name, value in self.parse(dec):\n"
            "            if self.directives.get(name, missing) != value:\n                directives.append((name, value))\n                cur[name] = value\n"
            "            else:\n                warning(dec.pos, 'no change')\n    return directives\n")
_RUN_GOOD = ("def extract(self, node):\n    kept = []\n    state = self.directives.copy()\n    for dec in node.decorators[::-1]:\n        for name, value in self.parse(dec):\n"
             "            if name in state and state[name] == value:\n                warning(dec.pos, 'no change')\n                continue\n"
             "            state[name] = value\n            kept.append((name, value))\n    return kept\n")


def rule_RUN(ctx, floor=1):
    r = Rule('C41-RUN', 'the "directive does not change the previous value" filter of a decorator stack compares with the running state it maintains '
                        '(same mapping compared and updated on the keep path; the mapping is a private copy)', floor)
    ix = ctx.index
    c = ix.cls('ParseTreeTransforms', 'InterpretCompilerDirectives')
    if c is None:
        raise AnalysisError('ParseTreeTransforms.InterpretCompilerDirectives vanished')
    for name, fn in sorted(c.methods.items()):
        for ck, line, problems in check_filters(fn):
            key = '%s.%s:%s' % (c.name, name, ck)
            r.inst(key, sample=key)
            for kind, pline, msg in problems:
                if kind == 'undecided':
                    r.info('%s: %s' % (key, msg))
                else:
                    r.violate('%s:%s' % (key, kind), c.module.rel, pline, '%s.%s %s' % (c.name, name, msg))
    bad = check_filters(ast.parse(_RUN_BAD).body[0])
    good = check_filters(ast.parse(_RUN_GOOD).body[0])
    r.positive_control(len(bad) == 1 and [p[0] for p in bad[0][2]] == ['other'] and len(good) == 1 and not good[0][2],
                       'filter comparing with self.directives instead of the running copy / correct early-continue form')
    return r


# ====================================================================================================== C41-LAYER
def _src_kind(e, params):
    """classify the origin of a mapping expression: 'defaults' | 'options' | 'header' | None (looks through copies)"""
    for x in ast.walk(e):
        if isinstance(x, ast.Call):
            f = x.func
            nm = f.attr if isinstance(f, ast.Attribute) else f.id if isinstance(f, ast.Name) else None
            if nm == 'get_directive_defaults':
                return 'defaults'
        if isinstance(x, ast.Attribute) and x.attr in ('_directive_defaults', 'directive_defaults'):
            return 'defaults'
        if isinstance(x, ast.Attribute) and x.attr == 'directive_comments':
            return 'header'
        if isinstance(x, ast.Name) and x.id in params:
            return 'options'
    return None


def layer_writes(fn, target_is, params=()):
    """Ordered writes that build the mapping denoted by `target_is(expr)`: [(lineno, kind 'init'|'override'|'weak', source kind, text)].
    Item stores inside `for k, v in S.items()` count as an overriding write from S."""
    out = []

    def visit(stmts, loop_src):
        for st in stmts:
            if isinstance(st, ast.Assign) and any(target_is(t) for t in st.targets):
                v = st.value
                src = _src_kind(v, params)
                if isinstance(v, ast.Dict) and any(k is None for k in v.keys):
                    # {**A, **B}: B overrides A
                    for i, (k, vv) in enumerate(zip(v.keys, v.values)):
                        if k is None:
                            out.append((st.lineno, 'init' if i == 0 else 'override', _src_kind(vv, params), _u(vv)))
                else:
                    out.append((st.lineno, 'init', src, _u(v)))
            elif isinstance(st, ast.Assign) and any(isinstance(t, ast.Subscript) and target_is(t.value) for t in st.targets):
                out.append((st.lineno, 'override', loop_src, _u(st)))
            elif isinstance(st, ast.Expr) and isinstance(st.value, ast.Call) and isinstance(st.value.func, ast.Attribute) and target_is(st.value.func.value):
                c = st.value
                if c.func.attr == 'update' and c.args:
                    out.append((st.lineno, 'override', _src_kind(c.args[0], params), _u(c)))
                elif c.func.attr == 'setdefault':
                    out.append((st.lineno, 'weak', loop_src, _u(c)))
            elif isinstance(st, (ast.For, ast.AsyncFor)):
                visit(st.body, _src_kind(st.iter, params) or loop_src)
            elif isinstance(st, ast.If):
                visit(st.body, loop_src)
                visit(st.orelse, loop_src)
            elif isinstance(st, (ast.With, ast.Try)):
                visit(st.body, loop_src)
    visit(fn.body, None)
    return out


def check_layers(init, visit_module):
    """-> (chain [(source, kind)], problems [(key, lineno, msg)])"""
    a = init.args
    params = [x.arg for x in a.args[1:]]
    # the local that ends up in self.directives
    local = None
    for n in walk_no_nested(init):
        if isinstance(n, ast.Assign) and any(is_self_attr(t) and t.attr == 'directives' for t in n.targets):
            local = n.value.id if isinstance(n.value, ast.Name) else None
            direct = n
    if local is None:
        def tgt(e):
            return is_self_attr(e) and e.attr == 'directives'
    else:
        def tgt(e):
            return (isinstance(e, ast.Name) and e.id == local) or (is_self_attr(e) and e.attr == 'directives')
    w1 = [w for w in layer_writes(init, tgt, params) if not (w[1] == 'init' and w[3] == local)]

    def tgt2(e):
        return is_self_attr(e) and e.attr == 'directives'
    w2 = layer_writes(visit_module, tgt2, ())
    chain = [(w[2], w[1], w[0], 'init') for w in w1] + [(w[2], w[1], w[0], 'visit') for w in w2]
    problems = []
    order = {'defaults': 0, 'options': 1, 'header': 2}
    seen = {}
    for src, kind, line, where in chain:
        if src in order and src not in seen:
            seen[src] = (kind, line, where, len(seen))
    for src in ('defaults', 'options', 'header'):
        if src not in seen:
            problems.append(('missing:' + src, (init if src != 'header' else visit_module).lineno,
                             'the %s layer is never written into the module-level directive mapping' % src))
    if not problems:
        ranks = [seen[s][3] for s in ('defaults', 'options', 'header')]
        if ranks != sorted(ranks):
            got = sorted(seen, key=lambda s: seen[s][3])
            problems.append(('order', seen[got[0]][1], 'the layers are applied in the order %s; a later layer overrides an earlier one, so the precedence '
                             'defaults < options < header comment is broken' % ' < '.join(got)))
        if seen['defaults'][0] != 'init':
            problems.append(('base', seen['defaults'][1], 'the defaults are not the base of the mapping (they are written over something else and override it)'))
        for s in ('options', 'header'):
            if seen[s][0] != 'override':
                problems.append(('weak:' + s, seen[s][1], 'the %s layer is written with non-overriding semantics (%s): it does not override the lower layers' % (s, seen[s][0])))
    return chain, problems


_LAYER_BAD = ("def __init__(self, context, compilation_directive_defaults):\n    directives = copy.deepcopy(Options.get_directive_defaults())\n"
              "    for key, value in compilation_directive_defaults.items():\n        directives.setdefault(str(key), copy.deepcopy(value))\n    self.directives = directives\n")
_LAYER_GOOD = ("def __init__(self, context, opts):\n    self.directives = {**copy.deepcopy(Options.get_directive_defaults()), **copy.deepcopy(opts)}\n")
_LAYER_VISIT = ("def visit_ModuleNode(self, node):\n    self.directives.update(node.directive_comments)\n    node.directives = self.directives\n    return node\n")


def rule_LAYER(ctx, floor=3):
    r = Rule('C41-LAYER', 'the module-level directive mapping is layered defaults < compilation options < `# cython:` header comment, each layer overriding the previous', floor)
    ix = ctx.index
    c = ix.cls('ParseTreeTransforms', 'InterpretCompilerDirectives')
    if c is None or '__init__' not in c.methods or 'visit_ModuleNode' not in c.methods:
        raise AnalysisError('InterpretCompilerDirectives.__init__ / visit_ModuleNode vanished')
    chain, problems = check_layers(c.methods['__init__'], c.methods['visit_ModuleNode'])
    for src, kind, line, where in chain:
        r.inst('InterpretCompilerDirectives:layer:%s:%s' % (where, src), sample='%s: %s write from %s' % (where, kind, src))
    for key, line, msg in problems:
        r.violate('InterpretCompilerDirectives:layers:%s' % key, c.module.rel, line, 'InterpretCompilerDirectives: ' + msg)
    # the mapping handed to the module node is the layered one
    vm = c.methods['visit_ModuleNode']
    handed = [n for n in walk_no_nested(vm) if isinstance(n, ast.Assign) and any(isinstance(t, ast.Attribute) and t.attr == 'directives' and not is_self_attr(t) for t in n.targets)]
    for n in handed:
        key = 'InterpretCompilerDirectives.visit_ModuleNode:%s' % _u(n.targets[0])
        r.inst(key, sample=_u(n))
        if not (is_self_attr(n.value) and n.value.attr == 'directives'):
            upd = [w for w in layer_writes(vm, lambda e: is_self_attr(e) and e.attr == 'directives') if w[2] == 'header']
            if not upd or upd[0][0] > n.lineno:
                r.violate(key, c.module.rel, n.lineno, 'visit_ModuleNode hands %s to the module node, which is not the mapping the header comments were merged into' % _u(n.value))
    if not handed:
        raise AnalysisError('visit_ModuleNode no longer stores <node>.directives')
    visit = ast.parse(_LAYER_VISIT).body[0]
    _, pb = check_layers(ast.parse(_LAYER_BAD).body[0], visit)
    _, pg = check_layers(ast.parse(_LAYER_GOOD).body[0], visit)
    r.positive_control([p[0] for p in pb] == ['weak:options'] and not pg, 'options merged with setdefault / dict-display form of the correct layering')
    return r
