"""Helpers for C02 (object arithmetic with constants) and C03 (C integer // and %).

* a Tempita reader (token tree, free variables, literals compared with a variable) and an expander that evaluates the
  template's own `{{py: ...}}` table expressions with a small whitelisted evaluator (never `eval`, never imports /repo);
* the same evaluator used as a three-valued decision-function enumerator over the COMPLETE finite domain of
  Optimize.optimise_numeric_binop (operator x is_float x return kind, unknown tests fork both ways);
* path conditions of a statement and truth tables over their atoms (guards such as "1 <= c <= 63", "abs(c) > 2**30");
* reference tables from the running interpreter: which special method CPython's PyNumber_<Op>/PyObject_RichCompare and
  the Python operator symbols dispatch to (ctypes.pythonapi on a recorder object);
* SIB1: symbolic comparison (clang AST) of a declared copy of the DivInt/ModInt adjustment with the original.
"""
import ast, itertools, re, textwrap

from ..core import AnalysisError, node_src
from ..engine.pyindex import walk_no_nested
from ..engine.cutil import strip_c_comments


# ======================================================================================= whitelisted evaluator
class Unknown(Exception):
    """The expression depends on something the checker does not model."""


class Sym:
    """A module-level object of the analysed program known only by its dotted name (PyrexTypes.c_long_type ...)."""

    def __init__(self, name):
        self.name = name

    def __eq__(self, other):
        return isinstance(other, Sym) and other.name == self.name

    def __ne__(self, other):
        return not self == other

    def __hash__(self):
        return hash(('Sym', self.name))

    def __repr__(self):
        return self.name


class Obj:
    """Record with known attributes (e.g. ret_type with .is_pyobject)."""

    def __init__(self, **kw):
        self.__dict__.update(kw)

    def __repr__(self):
        return 'Obj(%s)' % ', '.join('%s=%r' % kv for kv in sorted(self.__dict__.items()))


class Closure:
    def __init__(self, params, defaults, body, env, is_lambda):
        self.params, self.defaults, self.body, self.env, self.is_lambda = params, defaults, body, env, is_lambda


UNKNOWN = object()          # value of a local whose defining expression could not be evaluated
_STR_METHODS = {'lower', 'upper', 'format', 'join', 'strip', 'startswith', 'endswith', 'replace', 'count', 'split', 'title', 'capitalize'}
_DICT_METHODS = {'get', 'keys', 'values', 'items'}
_BUILTINS = {'range': range, 'len': len, 'abs': abs, 'str': str, 'int': int, 'bool': bool, 'min': min, 'max': max,
             'sorted': sorted, 'tuple': tuple, 'list': list, 'dict': dict, 'set': set, 'True': True, 'False': False, 'None': None}
_BINOPS = {ast.Add: lambda a, b: a + b, ast.Sub: lambda a, b: a - b, ast.Mult: lambda a, b: a * b, ast.Mod: lambda a, b: a % b,
           ast.Pow: lambda a, b: a ** b, ast.LShift: lambda a, b: a << b, ast.RShift: lambda a, b: a >> b,
           ast.FloorDiv: lambda a, b: a // b, ast.BitOr: lambda a, b: a | b, ast.BitAnd: lambda a, b: a & b}
_CMPOPS = {ast.Eq: lambda a, b: a == b, ast.NotEq: lambda a, b: a != b, ast.Lt: lambda a, b: a < b, ast.LtE: lambda a, b: a <= b,
           ast.Gt: lambda a, b: a > b, ast.GtE: lambda a, b: a >= b, ast.In: lambda a, b: a in b, ast.NotIn: lambda a, b: a not in b,
           ast.Is: lambda a, b: (a == b) if isinstance(a, Sym) or isinstance(b, Sym) else a is b,
           ast.IsNot: lambda a, b: (a != b) if isinstance(a, Sym) or isinstance(b, Sym) else a is not b}


class Ev:
    """Evaluator for the pure expression subset used by table-like code.  `subst` maps the *text* of a sub-expression
    to a value (used to give opaque program expressions such as self.cdivision a value from a finite domain);
    `atoms` maps the text of an otherwise unknown boolean leaf to a truth value."""

    def __init__(self, env=None, subst=None, atoms=None, symbols=False, on_atom=None):
        self.env = env if env is not None else {}
        self.subst = subst or {}
        self.atoms = atoms if atoms is not None else {}
        self.symbols = symbols
        self.on_atom = on_atom

    # -------------------------------------------------------------- expressions
    def ev(self, n):
        if self.subst:
            t = _txt(n)
            if t in self.subst:
                return self.subst[t]
        m = getattr(self, 'e_' + type(n).__name__, None)
        if m is None:
            raise Unknown(type(n).__name__)
        return m(n)

    def e_Constant(self, n):
        return n.value

    def e_Name(self, n):
        if n.id in self.env:
            v = self.env[n.id]
            if v is UNKNOWN:
                raise Unknown(n.id)
            return v
        if n.id in _BUILTINS:
            return _BUILTINS[n.id]
        if self.symbols:
            return Sym(n.id)
        raise Unknown(n.id)

    def e_Attribute(self, n):
        v = self.ev(n.value)
        if isinstance(v, Obj):
            if n.attr in v.__dict__:
                return v.__dict__[n.attr]
            raise Unknown(_txt(n))
        if isinstance(v, Sym):
            return Sym(v.name + '.' + n.attr)
        if isinstance(v, str) and n.attr in _STR_METHODS:
            return getattr(v, n.attr)
        if isinstance(v, dict) and n.attr in _DICT_METHODS:
            return getattr(v, n.attr)
        raise Unknown(_txt(n))

    def e_Call(self, n):
        f = self.ev(n.func)
        if isinstance(f, Sym):
            raise Unknown(_txt(n))
        args = []
        for a in n.args:
            if isinstance(a, ast.Starred):
                args.extend(self.ev(a.value))
            else:
                args.append(self.ev(a))
        kw = {k.arg: self.ev(k.value) for k in n.keywords if k.arg}
        if isinstance(f, Closure):
            return self.apply(f, args, kw)
        if callable(f):
            try:
                return f(*args, **kw)
            except Unknown:
                raise
            except Exception as e:
                raise Unknown('%s: %s' % (_txt(n), e))
        raise Unknown(_txt(n))

    def apply(self, f, args, kw):
        env = dict(f.env)
        env.update(f.defaults)
        if len(args) > len(f.params):
            raise Unknown('too many arguments')
        for p, a in zip(f.params, args):
            env[p] = a
        for k, v in kw.items():
            if k not in f.params:
                raise Unknown('unexpected keyword ' + k)
            env[k] = v
        for p in f.params:
            if p not in env:
                raise Unknown('missing argument ' + p)
        sub = Ev(env, self.subst, self.atoms, self.symbols, self.on_atom)
        if f.is_lambda:
            return sub.ev(f.body)
        r = sub.run(f.body)
        return r[1] if r is not None else None

    def e_Lambda(self, n):
        return self._closure(n.args, n.body, True)

    def _closure(self, a, body, is_lambda):
        if a.vararg or a.kwarg or a.kwonlyargs or a.posonlyargs:
            raise Unknown('signature')
        params = [x.arg for x in a.args]
        defaults = {}
        for p, d in zip(params[len(params) - len(a.defaults):], a.defaults):
            defaults[p] = self.ev(d)
        return Closure(params, defaults, body, self.env, is_lambda)

    def e_IfExp(self, n):
        return self.ev(n.body) if self.truth(n.test) else self.ev(n.orelse)

    def e_BoolOp(self, n):
        v = None
        for x in n.values:
            v = self.value_or_atom(x)
            if isinstance(n.op, ast.And) and not v:
                return v
            if isinstance(n.op, ast.Or) and v:
                return v
        return v

    def e_UnaryOp(self, n):
        if isinstance(n.op, ast.Not):
            return not self.truth(n.operand)
        v = self.ev(n.operand)
        if isinstance(n.op, ast.USub):
            return -v
        if isinstance(n.op, ast.UAdd):
            return +v
        raise Unknown(_txt(n))

    def e_BinOp(self, n):
        f = _BINOPS.get(type(n.op))
        if f is None:
            raise Unknown(_txt(n))
        a, b = self.ev(n.left), self.ev(n.right)
        if isinstance(a, Sym) or isinstance(b, Sym):
            raise Unknown(_txt(n))
        if isinstance(n.op, ast.Pow) and (not isinstance(b, int) or abs(b) > 4096):
            raise Unknown(_txt(n))
        try:
            return f(a, b)
        except Exception as e:
            raise Unknown('%s: %s' % (_txt(n), e))

    def e_Compare(self, n):
        left = self.ev(n.left)
        for op, c in zip(n.ops, n.comparators):
            right = self.ev(c)
            f = _CMPOPS.get(type(op))
            if f is None:
                raise Unknown(_txt(n))
            try:
                ok = f(left, right)
            except Exception as e:
                raise Unknown('%s: %s' % (_txt(n), e))
            if not ok:
                return False
            left = right
        return True

    def e_Tuple(self, n):
        return tuple(self.ev(x) for x in n.elts)

    def e_List(self, n):
        return [self.ev(x) for x in n.elts]

    def e_Set(self, n):
        return {self.ev(x) for x in n.elts}

    def e_Dict(self, n):
        if any(k is None for k in n.keys):
            raise Unknown('dict unpacking')
        return {self.ev(k): self.ev(v) for k, v in zip(n.keys, n.values)}

    def e_Subscript(self, n):
        v = self.ev(n.value)
        if isinstance(v, Sym):
            raise Unknown(_txt(n))
        if isinstance(n.slice, ast.Slice):
            lo = self.ev(n.slice.lower) if n.slice.lower else None
            hi = self.ev(n.slice.upper) if n.slice.upper else None
            st = self.ev(n.slice.step) if n.slice.step else None
            return v[lo:hi:st]
        k = self.ev(n.slice)
        try:
            return v[k]
        except Exception as e:
            raise Unknown('%s: %s' % (_txt(n), e))

    def _comprehend(self, n):
        """elements of a list comprehension / generator expression over finite evaluated iterables (pure table-building code)"""
        out = []

        def rec(i, env):
            if i == len(n.generators):
                out.append(Ev(env, self.subst, self.atoms, self.symbols, self.on_atom).ev(n.elt))
                return
            g = n.generators[i]
            if g.is_async:
                raise Unknown('async comprehension')
            sub = Ev(env, self.subst, self.atoms, self.symbols, self.on_atom)
            it = sub.ev(g.iter)
            if isinstance(it, Sym) or not isinstance(it, (list, tuple, range, str, dict, set, frozenset)):
                raise Unknown(_txt(g.iter))
            if len(it) > 4096:
                raise Unknown('comprehension over %d items' % len(it))
            for item in it:
                e2 = dict(env)
                s2 = Ev(e2, self.subst, self.atoms, self.symbols, self.on_atom)
                s2.bind(g.target, item)
                if all(s2.truth(c) for c in g.ifs):
                    rec(i + 1, e2)
        rec(0, dict(self.env))
        return out

    def e_ListComp(self, n):
        return self._comprehend(n)

    def e_GeneratorExp(self, n):
        return self._comprehend(n)

    def e_JoinedStr(self, n):
        out = ''
        for v in n.values:
            if isinstance(v, ast.Constant):
                out += str(v.value)
            else:
                x = self.ev(v.value)
                if isinstance(x, Sym):
                    raise Unknown(_txt(n))
                if v.conversion == ord('r'):
                    x = repr(x)
                elif v.conversion == ord('s'):
                    x = str(x)
                spec = self.ev(v.format_spec) if v.format_spec is not None else ''
                out += format(x, spec)
        return out

    # -------------------------------------------------------------- truth with opaque atoms
    def value_or_atom(self, n):
        """Value of an operand in boolean position: composite boolean structure is evaluated, an unknown leaf is an atom."""
        if isinstance(n, (ast.BoolOp, ast.IfExp)) or (isinstance(n, ast.UnaryOp) and isinstance(n.op, ast.Not)):
            return self.ev(n)
        try:
            return self.ev(n)
        except Unknown:
            t = _txt(n)
            if t in self.atoms:
                return self.atoms[t]
            if self.on_atom is not None:
                return self.on_atom(t, n)
            raise

    def truth(self, n):
        return bool(self.value_or_atom(n))

    # -------------------------------------------------------------- statements of {{py: ...}} blocks and closures
    def run(self, stmts):
        """Execute simple statements; returns ('return', value) when a return statement is reached."""
        for s in stmts:
            if isinstance(s, ast.Assign):
                v = self.ev(s.value)
                for t in s.targets:
                    self.bind(t, v)
            elif isinstance(s, ast.ImportFrom):
                for a in s.names:
                    self.env[a.asname or a.name] = _import_stub(a.name)
            elif isinstance(s, ast.Import):
                for a in s.names:
                    self.env[(a.asname or a.name).split('.')[0]] = Sym(a.name)
            elif isinstance(s, ast.FunctionDef):
                self.env[s.name] = self._closure(s.args, s.body, False)
            elif isinstance(s, ast.Return):
                return ('return', self.ev(s.value) if s.value is not None else None)
            elif isinstance(s, ast.If):
                r = self.run(s.body if self.truth(s.test) else s.orelse)
                if r is not None:
                    return r
            elif isinstance(s, (ast.Expr, ast.Pass)):
                continue
            else:
                raise Unknown('statement ' + type(s).__name__)
        return None

    def bind(self, t, v):
        if isinstance(t, ast.Name):
            self.env[t.id] = v
        elif isinstance(t, (ast.Tuple, ast.List)):
            v = list(v)
            if len(v) != len(t.elts):
                raise Unknown('unpack')
            for x, y in zip(t.elts, v):
                self.bind(x, y)
        else:
            raise Unknown('assignment target')


def _import_stub(name):
    def stub(*args):
        # an imported generator of C text (pylong_join): its output is kept as an opaque C call
        return '__imported_%s(%s)' % (name, ', '.join(str(a).replace(' ', '_') for a in args))
    return stub


def _txt(n):
    t = getattr(n, '_sa_txt', None)
    if t is None:
        t = ast.unparse(n)
        try:
            n._sa_txt = t
        except AttributeError:
            pass
    return t


# ======================================================================================= Tempita
def tpl_tokens(text):
    out, pos = [], 0
    while True:
        i = text.find('{{', pos)
        if i < 0:
            out.append(('text', text[pos:]))
            break
        j = text.find('}}', i + 2)
        if j < 0:
            raise AnalysisError('unterminated {{ in template')
        if i > pos:
            out.append(('text', text[pos:i]))
        body = text[i + 2:j]
        pos = j + 2
        b = body.strip()
        if b.startswith('#'):
            continue
        if b.startswith('py:'):
            code = b[3:]
            code = textwrap.dedent(code.lstrip('\n')) if '\n' in code else code.strip()
            out.append(('py', code.strip('\n')))
        elif b.startswith('if ') or b.startswith('if('):
            out.append(('if', b[2:].strip()))
        elif b.startswith('elif '):
            out.append(('elif', b[5:].strip()))
        elif b == 'else':
            out.append(('else', ''))
        elif b == 'endif':
            out.append(('endif', ''))
        elif b.startswith('for '):
            out.append(('for', b[4:].strip()))
        elif b == 'endfor':
            out.append(('endfor', ''))
        elif re.match(r'(default|inherit|def|enddef|continue|break)\b', b):
            raise AnalysisError('unsupported Tempita directive %r' % b[:30])
        else:
            out.append(('expr', b))
    return out


def tpl_tree(text):
    """Nested form: ('text', s) ('expr', ast) ('py', [stmts]) ('if', [(test ast, block), ...], else_block)
    ('for', target ast, iter ast, block)."""
    toks = tpl_tokens(text)

    def pexpr(s):
        try:
            return ast.parse(s.strip(), mode='eval').body
        except SyntaxError as e:
            raise AnalysisError('cannot parse template expression %r: %s' % (s[:60], e))

    def block(i, stops):
        out = []
        while i < len(toks):
            k, v = toks[i]
            if k in stops:
                return out, i
            if k == 'text':
                out.append(('text', v))
                i += 1
            elif k == 'expr':
                out.append(('expr', pexpr(v)))
                i += 1
            elif k == 'py':
                try:
                    out.append(('py', ast.parse(v).body))
                except SyntaxError as e:
                    raise AnalysisError('cannot parse {{py:}} block %r: %s' % (v[:60], e))
                i += 1
            elif k == 'if':
                arms, els = [], []
                test = pexpr(v)
                body, i = block(i + 1, ('elif', 'else', 'endif'))
                arms.append((test, body))
                while i < len(toks) and toks[i][0] == 'elif':
                    test = pexpr(toks[i][1])
                    body, i = block(i + 1, ('elif', 'else', 'endif'))
                    arms.append((test, body))
                if i < len(toks) and toks[i][0] == 'else':
                    els, i = block(i + 1, ('endif',))
                if i >= len(toks) or toks[i][0] != 'endif':
                    raise AnalysisError('{{if}} without {{endif}}')
                out.append(('if', arms, els))
                i += 1
            elif k == 'for':
                m = re.match(r'(.+?)\s+in\s+(.+)$', v, re.S)
                if not m:
                    raise AnalysisError('bad {{for}}: %r' % v)
                target = ast.parse(m.group(1).strip(), mode='eval').body
                body, i = block(i + 1, ('endfor',))
                if i >= len(toks):
                    raise AnalysisError('{{for}} without {{endfor}}')
                out.append(('for', target, pexpr(m.group(2)), body))
                i += 1
            else:
                raise AnalysisError('unbalanced template directive %s' % k)
        if stops:
            raise AnalysisError('template block not closed (%s expected)' % '/'.join(stops))
        return out, i

    tree, _ = block(0, ())
    return tree


def tpl_expand(tree, context):
    env = dict(context)
    ev = Ev(env)
    out = []

    def run(block):
        for node in block:
            k = node[0]
            if k == 'text':
                out.append(node[1])
            elif k == 'expr':
                v = ev.ev(node[1])
                out.append('' if v is None else str(v))
            elif k == 'py':
                ev.run(node[1])
            elif k == 'if':
                for test, body in node[1]:
                    if ev.truth(test):
                        run(body)
                        break
                else:
                    run(node[2])
            elif k == 'for':
                for v in ev.ev(node[2]):
                    ev.bind(node[1], v)
                    run(node[3])
    try:
        run(tree)
    except Unknown as e:
        raise AnalysisError('template expression outside the modelled subset: %s' % e)
    return ''.join(out)


def _expr_nodes(tree):
    """All Python ast nodes (expressions and statements) of a template tree, with the names bound by for-loops."""
    for node in tree:
        k = node[0]
        if k == 'expr':
            yield 'expr', node[1]
        elif k == 'py':
            for s in node[1]:
                yield 'stmt', s
        elif k == 'if':
            for test, body in node[1]:
                yield 'expr', test
                yield from _expr_nodes(body)
            yield from _expr_nodes(node[2])
        elif k == 'for':
            yield 'target', node[1]
            yield 'expr', node[2]
            yield from _expr_nodes(node[3])


def _free_names(n, bound):
    """Names read in n that are not bound by an enclosing lambda/def/comprehension inside n."""
    out = set()

    def rec(x, local):
        if isinstance(x, ast.Name):
            if isinstance(x.ctx, ast.Load) and x.id not in local:
                out.add(x.id)
            return
        if isinstance(x, ast.Lambda):
            for d in x.args.defaults:
                rec(d, local)
            rec(x.body, local | {a.arg for a in x.args.args})
            return
        if isinstance(x, ast.FunctionDef):
            for d in x.args.defaults:
                rec(d, local)
            inner = local | {a.arg for a in x.args.args}
            for s in x.body:
                for y in ast.walk(s):
                    if isinstance(y, ast.Name) and isinstance(y.ctx, ast.Store):
                        inner = inner | {y.id}
            for s in x.body:
                rec(s, inner)
            return
        if isinstance(x, (ast.ListComp, ast.SetComp, ast.GeneratorExp, ast.DictComp)):
            inner = set(local)
            for g in x.generators:
                rec(g.iter, inner)
                for y in ast.walk(g.target):
                    if isinstance(y, ast.Name):
                        inner.add(y.id)
                for c in g.ifs:
                    rec(c, inner)
            for f in ('elt', 'key', 'value'):
                if hasattr(x, f):
                    rec(getattr(x, f), inner)
            return
        for c in ast.iter_child_nodes(x):
            rec(c, local)
    rec(n, set(bound))
    return out


def tpl_variables(tree):
    """(names the template reads from its context, names it binds itself)."""
    bound, reads = set(), set()
    for kind, n in _expr_nodes(tree):
        if kind == 'target':
            bound |= {y.id for y in ast.walk(n) if isinstance(y, ast.Name)}
        elif kind == 'stmt':
            if isinstance(n, (ast.Import, ast.ImportFrom)):
                bound |= {(a.asname or a.name).split('.')[0] for a in n.names}
            elif isinstance(n, ast.FunctionDef):
                bound.add(n.name)
            else:
                for y in ast.walk(n):
                    if isinstance(y, ast.Name) and isinstance(y.ctx, ast.Store):
                        bound.add(y.id)
    for kind, n in _expr_nodes(tree):
        if kind != 'target':
            reads |= _free_names(n, ())
    builtins = set(dir(__import__('builtins')))
    return {r for r in reads if r not in bound and r not in builtins}, bound


def tpl_compared_literals(tree, var):
    """[(literal, kind, source text)] for every comparison of template variable `var` with string literals:
    kind 'eq' (==, !=, membership in a tuple/list/set of strings) or 'substr' (var in 'text')."""
    out = []
    for kind, n in _expr_nodes(tree):
        if kind == 'target':
            continue
        for c in ast.walk(n):
            if not isinstance(c, ast.Compare) or len(c.ops) != 1:
                continue
            l, r, op = c.left, c.comparators[0], c.ops[0]
            src = node_src(n if kind == 'expr' else c, 120)
            for a, b in ((l, r), (r, l)):
                if isinstance(a, ast.Name) and a.id == var:
                    if isinstance(op, (ast.Eq, ast.NotEq)) and isinstance(b, ast.Constant) and isinstance(b.value, str):
                        out.append((b.value, 'eq', src))
                    elif isinstance(op, (ast.In, ast.NotIn)) and a is l:
                        if isinstance(b, (ast.Tuple, ast.List, ast.Set)):
                            for e in b.elts:
                                if isinstance(e, ast.Constant) and isinstance(e.value, str):
                                    out.append((e.value, 'eq', src))
                        elif isinstance(b, ast.Constant) and isinstance(b.value, str):
                            out.append((b.value, 'substr', src))
    return out


def tpl_assigned_dict(tree, var):
    """The dict literal D of a template statement `var = {...}[key]` / `var = {...}.get(key, ...)` / `var = {...}` -> (dict, key name)."""
    for kind, n in _expr_nodes(tree):
        if kind == 'stmt' and isinstance(n, ast.Assign) and any(isinstance(t, ast.Name) and t.id == var for t in n.targets):
            v = n.value
            key = None
            if isinstance(v, ast.Subscript) and isinstance(v.value, ast.Dict):
                key = v.slice.id if isinstance(v.slice, ast.Name) else None
                v = v.value
            elif isinstance(v, ast.Call) and isinstance(v.func, ast.Attribute) and v.func.attr == 'get' and isinstance(v.func.value, ast.Dict):
                key = v.args[0].id if v.args and isinstance(v.args[0], ast.Name) else None
                v = v.func.value
            if isinstance(v, ast.Dict):
                try:
                    return Ev().ev(v), key
                except Unknown:
                    return None, key
    return None, None


def segmentable(text, words):
    """True if `text` is a concatenation of elements of `words`."""
    ok = [True] + [False] * len(text)
    for i in range(len(text)):
        if ok[i]:
            for w in words:
                if w and text.startswith(w, i):
                    ok[i + len(w)] = True
    return ok[len(text)]


# ======================================================================================= path conditions and truth tables
def _always_exits(stmts):
    if not stmts:
        return False
    s = stmts[-1]
    if isinstance(s, (ast.Return, ast.Raise, ast.Continue, ast.Break)):
        return True
    if isinstance(s, ast.If):
        return bool(s.orelse) and _always_exits(s.body) and _always_exits(s.orelse)
    return False


def _is_const(n, v):
    return isinstance(n, ast.Constant) and n.value is v


def _f_not(a):
    if _is_const(a, True):
        return ast.Constant(False)
    if _is_const(a, False):
        return ast.Constant(True)
    return ast.UnaryOp(op=ast.Not(), operand=a)


def _f_and(a, b):
    if _is_const(a, False) or _is_const(b, False):
        return ast.Constant(False)
    if _is_const(a, True):
        return b
    if _is_const(b, True):
        return a
    return ast.BoolOp(op=ast.And(), values=[a, b])


def _f_or(a, b):
    if _is_const(a, True) or _is_const(b, True):
        return ast.Constant(True)
    if _is_const(a, False):
        return b
    if _is_const(b, False):
        return a
    return ast.BoolOp(op=ast.Or(), values=[a, b])


def _fall_block(stmts):
    """Formula under which control falls off the end of a statement list (early exits through return/raise/continue/break
    of nested ifs; loops, with and try are assumed to fall through)."""
    f = ast.Constant(True)
    for s in stmts:
        if isinstance(s, (ast.Return, ast.Raise, ast.Continue, ast.Break)):
            return ast.Constant(False)
        if isinstance(s, ast.If):
            f = _f_and(f, _fall_if(s))
    return f


def _fall_if(s):
    return _f_or(_f_and(s.test, _fall_block(s.body)), _f_and(_f_not(s.test), _fall_block(s.orelse)))


def _assigned_texts(stmt):
    out = set()
    for n in ast.walk(stmt):
        if isinstance(n, (ast.Name, ast.Attribute, ast.Subscript)) and isinstance(getattr(n, 'ctx', None), (ast.Store, ast.Del)):
            out.add(_txt(n))
    return out


def _mentions(test, texts):
    return any(isinstance(n, (ast.Name, ast.Attribute, ast.Subscript)) and _txt(n) in texts for n in ast.walk(test))


def path_conditions(fn, is_target):
    """[(target node, [(test, truth), ...])]: the branch tests that hold whenever the target node is evaluated
    (if/elif/else nesting, early exits of preceding ifs, conditional expressions, and/or short-circuit).
    Conditions on an expression that is re-assigned before the target is reached are dropped."""
    res = []

    def in_expr(e, conds):
        if is_target(e):
            res.append((e, list(conds)))
        if isinstance(e, ast.IfExp):
            in_expr(e.test, conds)
            in_expr(e.body, conds + [(e.test, True)])
            in_expr(e.orelse, conds + [(e.test, False)])
            return
        if isinstance(e, ast.BoolOp):
            acc = list(conds)
            for v in e.values:
                in_expr(v, acc)
                acc = acc + [(v, isinstance(e.op, ast.And))]
            return
        if isinstance(e, (ast.Lambda, ast.FunctionDef, ast.AsyncFunctionDef, ast.ClassDef)):
            return
        for c in ast.iter_child_nodes(e):
            in_expr(c, conds)

    def kill(conds, stmt):
        a = _assigned_texts(stmt)
        if not a:
            return conds
        return [c for c in conds if not _mentions(c[0], a)]

    def rec(stmts, conds):
        conds = list(conds)
        for s in stmts:
            if isinstance(s, ast.If):
                in_expr(s.test, conds)
                rec(s.body, conds + [(s.test, True)])
                rec(s.orelse, conds + [(s.test, False)])
                g = _fall_if(s)
                inside = set()
                for b in s.body + s.orelse:
                    for x in ast.walk(b):
                        if isinstance(x, ast.stmt):
                            conds = kill(conds, x)
                            inside |= _assigned_texts(x)
                if _is_const(g, False):
                    break       # both arms leave: the rest of the block is unreachable
                if not _is_const(g, True) and not _mentions(g, inside):
                    conds.append((g, True))
            elif isinstance(s, (ast.For, ast.While)):
                in_expr(s.iter if isinstance(s, ast.For) else s.test, conds)
                inner = list(conds)
                for x in ast.walk(s):
                    if isinstance(x, ast.stmt) and x is not s:
                        inner = kill(inner, x)
                if isinstance(s, ast.For):
                    inner = [c for c in inner if not _mentions(c[0], {_txt(t) for t in ast.walk(s.target) if isinstance(t, ast.Name)})]
                rec(s.body, inner)
                rec(s.orelse, inner)
                conds = inner
            elif isinstance(s, (ast.With, ast.Try)):
                for item in getattr(s, 'items', []):
                    in_expr(item.context_expr, conds)
                for blk in (s.body, getattr(s, 'orelse', []), getattr(s, 'finalbody', [])):
                    rec(blk, conds)
                for h in getattr(s, 'handlers', []):
                    rec(h.body, conds)
                for x in ast.walk(s):
                    if isinstance(x, ast.stmt) and x is not s:
                        conds = kill(conds, x)
            elif isinstance(s, (ast.FunctionDef, ast.AsyncFunctionDef, ast.ClassDef)):
                continue
            else:
                in_expr(s, conds)
                conds = kill(conds, s)
                if isinstance(s, (ast.Return, ast.Raise, ast.Continue, ast.Break)):
                    break       # the rest of the block is unreachable
    rec(fn.body, [])
    return res


def formula_leaves(tests):
    """Opaque leaves of boolean formulas: maximal sub-expressions below and/or/not/if-else."""
    leaves = []

    def rec(n):
        if isinstance(n, ast.BoolOp):
            for v in n.values:
                rec(v)
        elif isinstance(n, ast.UnaryOp) and isinstance(n.op, ast.Not):
            rec(n.operand)
        elif isinstance(n, ast.IfExp):
            rec(n.test), rec(n.body), rec(n.orelse)
        else:
            leaves.append(n)
    for t in tests:
        rec(t)
    return leaves


def _leaf_keys(test, typed, sample):
    """(typed expressions with more than one value, opaque atoms) a test depends on."""
    tk, at = set(), set()
    for n in ast.walk(test):
        if isinstance(n, ast.expr):
            t = _txt(n)
            if t in typed and len(typed[t]) > 1:
                tk.add(t)
    for leaf in formula_leaves([test]):
        try:
            Ev(subst=sample).ev(leaf)
        except Unknown:
            at.add(_txt(leaf))
    return tk, at


def truth_table(tests, typed, focus=None):
    """Enumerate every valuation of `typed` (text of a sub-expression -> finite list of values) and of the remaining
    opaque boolean leaves; yield (subst, atoms, [value of each test]).
    With focus=(conds, keys): the tests are the conjuncts `conds` [(test, truth)]; only the connected component of
    conjuncts that (transitively, through shared leaves) involves one of `keys` is enumerated -- the other components are
    independent and only checked for satisfiability (nothing is yielded when one of them is unsatisfiable); the value
    list then has None for conjuncts outside the component, which conj_holds() skips."""
    tests = list(tests)
    keys = sorted(typed)
    sample = {k: typed[k][0] for k in keys}
    if focus is not None:
        conds, fkeys = focus
        deps = [_leaf_keys(t, typed, sample) for t in tests]
        comp = set(fkeys)
        chosen = set()
        changed = True
        while changed:
            changed = False
            for i, (tk, at) in enumerate(deps):
                if i not in chosen and ((tk | at) & comp):
                    chosen.add(i)
                    comp |= tk | at
                    changed = True
        rest = [i for i in range(len(tests)) if i not in chosen]
        # independent remainder: satisfiable?  (decomposed again into its own components)
        todo = list(rest)
        while todo:
            seed = todo[0]
            grp, c2 = {seed}, set(deps[seed][0] | deps[seed][1])
            changed = True
            while changed:
                changed = False
                for i in todo:
                    if i not in grp and (deps[i][0] | deps[i][1]) & c2:
                        grp.add(i)
                        c2 |= deps[i][0] | deps[i][1]
                        changed = True
            todo = [i for i in todo if i not in grp]
            sub_conds = [conds[i] for i in sorted(grp)]
            sub_typed = {k: (typed[k] if k in c2 else typed[k][:1]) for k in typed}
            if not any(conj_holds(sub_conds, vals) for _, _, vals in truth_table([t for t, _ in sub_conds], sub_typed)):
                return
        sub_typed = {k: (typed[k] if (k in comp or len(typed[k]) == 1) else typed[k][:1]) for k in typed}
        order = sorted(chosen)
        for subst, av, vals in truth_table([tests[i] for i in order], sub_typed):
            full = [None] * len(tests)
            for i, v in zip(order, vals):
                full[i] = v
            yield subst, av, full
        return
    atoms = []
    for leaf in formula_leaves(tests):
        try:
            Ev(subst=sample).ev(leaf)
        except Unknown:
            t = _txt(leaf)
            if t not in atoms:
                atoms.append(t)
    if len(atoms) > 14:
        raise AnalysisError('too many opaque atoms in a guard formula (%d)' % len(atoms))
    for combo in itertools.product(*[typed[k] for k in keys]):
        subst = dict(zip(keys, combo))
        for bits in itertools.product((False, True), repeat=len(atoms)):
            av = dict(zip(atoms, bits))
            ev = Ev(subst=subst, atoms=av)
            vals = []
            for t in tests:
                try:
                    vals.append(bool(ev.value_or_atom(t)))
                except Unknown as e:
                    raise AnalysisError('guard formula outside the modelled subset: %s (%s)' % (node_src(t, 80), e))
            yield subst, av, vals


def conj_holds(conds, vals):
    return all(v is None or v == truth for (_, truth), v in zip(conds, vals))


def int_constants(nodes):
    """Integer constants (after folding 2**30, -2**30 ...) occurring in the nodes."""
    out = set()
    for n in nodes:
        for x in ast.walk(n):
            if isinstance(x, (ast.Constant, ast.BinOp, ast.UnaryOp)):
                try:
                    v = Ev().ev(x)
                except Unknown:
                    continue
                if isinstance(v, int) and not isinstance(v, bool):
                    out.add(v)
    return out


def boundary_samples(consts, extra=()):
    s = set()
    for c in set(consts) | set(extra):
        s |= {c - 1, c, c + 1, -c - 1, -c, -c + 1}
    s |= {0, 1, -1}
    return sorted(s)


# ======================================================================================= decision-function enumeration
class PathResult:
    def __init__(self, env, atoms, events, returned):
        self.env, self.atoms, self.events, self.returned = env, atoms, events, returned


def enumerate_paths(fn, env0, on_stmt=None, limit=4000):
    """All paths through a straight-line/if-structured function for a given valuation of its decision variables.
    Tests that cannot be evaluated fork (both outcomes); the chosen outcome is remembered per test text so that the same
    test has the same value along a path.  Assignments with unknown right-hand sides make the target UNKNOWN.
    -> [PathResult]; .returned is the ast of the returned expression (None for falling off the end)."""
    results = []
    counter = [0]

    class Fork(Exception):
        def __init__(self, key):
            self.key = key

    def run_path(decisions):
        env = dict(env0)
        atoms = dict(decisions)
        events = []

        def on_atom(t, n):
            raise Fork(t)
        ev = Ev(env, atoms=atoms, symbols=True, on_atom=on_atom)

        def block(stmts):
            for s in stmts:
                if isinstance(s, ast.If):
                    if ev.truth(s.test):
                        r = block(s.body)
                    else:
                        r = block(s.orelse)
                    if r is not None:
                        return r
                elif isinstance(s, ast.Return):
                    return ('return', s.value)
                elif isinstance(s, ast.Raise):
                    return ('raise', s)
                elif isinstance(s, ast.Assign):
                    if on_stmt:
                        on_stmt(s, ev, events)
                    if len(s.targets) == 1 and isinstance(s.targets[0], ast.Name) and s.targets[0].id in env0.get('__fixed__', ()):
                        continue
                    try:
                        v = ev.ev(s.value)
                    except Unknown:
                        v = UNKNOWN
                    except Fork:
                        raise
                    for t in s.targets:
                        if isinstance(t, ast.Name):
                            env[t.id] = v
                        elif isinstance(t, (ast.Tuple, ast.List)):
                            for x in ast.walk(t):
                                if isinstance(x, ast.Name):
                                    env[x.id] = UNKNOWN
                elif isinstance(s, (ast.Expr, ast.Pass, ast.ImportFrom, ast.Import, ast.Assert, ast.AnnAssign, ast.AugAssign)):
                    if on_stmt:
                        on_stmt(s, ev, events)
                    if isinstance(s, ast.AugAssign) and isinstance(s.target, ast.Name):
                        env[s.target.id] = UNKNOWN
                else:
                    raise AnalysisError('%s: statement kind %s is outside the modelled decision-function subset' % (fn.name, type(s).__name__))
            return None
        r = block(fn.body)
        return PathResult(env, atoms, events, r)

    todo = [dict()]
    while todo:
        d = todo.pop()
        counter[0] += 1
        if counter[0] > limit:
            raise AnalysisError('%s: more than %d paths' % (fn.name, limit))
        try:
            results.append(run_path(d))
        except Fork as f:
            for b in (False, True):
                d2 = dict(d)
                d2[f.key] = b
                todo.append(d2)
    return results


# ======================================================================================= interpreter reference tables
_REF = {}


def _recorder():
    if 'rec' in _REF:
        return _REF['rec']
    log = []
    names = {n for n in set(dir(int)) | set(dir(float)) if re.fullmatch(r'__\w+__', n)}
    skip = {'__new__', '__init__', '__class__', '__getattribute__', '__setattr__', '__delattr__', '__init_subclass__',
            '__subclasshook__', '__dir__', '__doc__', '__repr__', '__str__', '__hash__', '__sizeof__', '__reduce__',
            '__reduce_ex__', '__getstate__', '__format__', '__getnewargs__'}
    names -= skip
    binary = {n for n in names if ('__r' + n[2:]) in names}
    names |= {'__i' + n[2:] for n in binary} | {'__contains__'}

    def mk(n):
        def f(self, *a):
            log.append(n)
            return 0
        return f
    R = type('Recorder', (object,), {n: mk(n) for n in names})
    _REF['rec'] = (R(), log)
    return _REF['rec']


def dunder_of_symbol(sym):
    """Special method the running interpreter calls on the left operand of `x <sym> y` (right operand for `in`)."""
    r, log = _recorder()
    del log[:]
    try:
        if sym in ('in', 'not in', 'not_in'):
            eval(compile('o %s r' % sym.replace('_', ' '), '<ref>', 'eval'), {'r': r, 'o': object()})
        else:
            eval(compile('r %s o' % sym, '<ref>', 'eval'), {'r': r, 'o': object()})
    except SyntaxError:
        return None
    except Exception:
        pass
    return log[0] if log else None


def richcmp_macros():
    """Py_LT ... Py_GE -> int, from the installed CPython headers."""
    if 'cmp' in _REF:
        return _REF['cmp']
    import os
    from ..engine import tables
    out = {}
    p = os.path.join(tables.cpython_include(), 'object.h')
    try:
        txt = open(p, encoding='utf-8', errors='replace').read()
    except OSError:
        raise AnalysisError('CPython header object.h not found')
    for m in re.finditer(r'^[ \t]*#[ \t]*define[ \t]+(Py_(?:LT|LE|EQ|NE|GT|GE))[ \t]+(\d+)', txt, re.M):
        out[m.group(1)] = int(m.group(2))
    if len(out) != 6:
        raise AnalysisError('rich comparison macros not found in object.h')
    _REF['cmp'] = out
    return out


def dunder_of_capi(func, cmp_value=None):
    """Special method CPython's PyNumber_<X>(a, b) / PyObject_RichCompare(a, b, op) dispatches to on a."""
    try:
        import ctypes
        f = getattr(ctypes.pythonapi, func)
    except (ImportError, AttributeError):
        return None
    r, log = _recorder()
    del log[:]
    f.restype = ctypes.py_object
    try:
        if cmp_value is None:
            f.argtypes = [ctypes.py_object, ctypes.py_object]
            f(r, object())
        else:
            f.argtypes = [ctypes.py_object, ctypes.py_object, ctypes.c_int]
            f(r, object(), cmp_value)
    except Exception:
        pass
    return log[0] if log else None


# ======================================================================================= SIB1: declared copies (clang)
C_KEYWORDS = {'long', 'int', 'unsigned', 'signed', 'short', 'char', 'return', 'if', 'else', 'const', 'double', 'float', 'sizeof',
              'void', 'goto', 'static', 'PY_LONG_LONG'}


def enclosing_block(text, pos):
    """Innermost { ... } of C text around pos (text may not contain Tempita any more)."""
    depth, i = 0, pos
    while i >= 0:
        ch = text[i]
        if ch == '}':
            depth += 1
        elif ch == '{':
            if depth == 0:
                break
            depth -= 1
        i -= 1
    if i < 0:
        return None
    depth, j = 0, i
    while j < len(text):
        if text[j] == '{':
            depth += 1
        elif text[j] == '}':
            depth -= 1
            if depth == 0:
                return text[i:j + 1]
        j += 1
    return None


def _sym_expr(n, env):
    """clang JSON expression -> canonical tuple tree with local variables substituted by their defining trees."""
    k = n.get('kind')
    inner = [c for c in n.get('inner', []) if isinstance(c, dict)]
    if k in ('ImplicitCastExpr', 'ParenExpr', 'ConstantExpr', 'CStyleCastExpr'):
        return _sym_expr(inner[-1], env)
    if k == 'DeclRefExpr':
        name = (n.get('referencedDecl') or {}).get('name')
        return env.get(name, ('var', name))
    if k == 'IntegerLiteral':
        return ('int', int(n.get('value')))
    if k == 'BinaryOperator':
        return ('bin', n.get('opcode'), _sym_expr(inner[0], env), _sym_expr(inner[1], env))
    if k == 'UnaryOperator':
        return ('un', n.get('opcode'), _sym_expr(inner[0], env))
    if k == 'ConditionalOperator':
        return ('alt', _sym_expr(inner[0], env), _sym_expr(inner[1], env), _sym_expr(inner[2], env))
    if k == 'CallExpr':
        return ('call', _sym_expr(inner[0], env)) + tuple(_sym_expr(a, env) for a in inner[1:])
    raise AnalysisError('SIB1: C expression kind %s is outside the modelled subset' % k)


def symbolic_result(fdecl):
    """Straight-line C function (declarations with initialisers, = += -= *=, one return) -> tree of the returned value."""
    env = {}
    body = [c for c in fdecl.get('inner', []) if c.get('kind') == 'CompoundStmt']
    if not body:
        raise AnalysisError('SIB1: no body')
    stmts = list(body[0].get('inner', []))
    i = 0
    while i < len(stmts):
        s = stmts[i]
        i += 1
        k = s.get('kind')
        if k == 'CompoundStmt':
            stmts[i:i] = s.get('inner', [])
        elif k == 'DeclStmt':
            for d in s.get('inner', []):
                if d.get('kind') == 'VarDecl':
                    init = [c for c in d.get('inner', []) if isinstance(c, dict) and c.get('kind', '').endswith(('Expr', 'Operator', 'Literal'))]
                    if init:
                        env[d['name']] = _sym_expr(init[-1], env)
        elif k == 'BinaryOperator' and s.get('opcode') == '=':
            l, r = s['inner']
            env[_lhs_name(l)] = _sym_expr(r, env)
        elif k == 'CompoundAssignOperator':
            l, r = s['inner']
            name = _lhs_name(l)
            env[name] = ('bin', s.get('opcode')[:-1], env.get(name, ('var', name)), _sym_expr(r, env))
        elif k == 'ReturnStmt':
            return _sym_expr(s['inner'][0], env)
        elif k in ('NullStmt',):
            continue
        elif k == 'IfStmt':
            # `if (special case) return constant;` -- an early exit for a special case; the fall-through value is compared
            parts = [c for c in s.get('inner', []) if isinstance(c, dict)]
            then = parts[1] if len(parts) == 2 else None
            while then is not None and then.get('kind') == 'CompoundStmt' and len(then.get('inner', [])) == 1:
                then = then['inner'][0]
            if then is None or then.get('kind') != 'ReturnStmt':
                raise AnalysisError('SIB1: conditional C statement other than an early `if (...) return ...;` in a declared copy/original')
            continue
        elif k in ('CallExpr', 'CStyleCastExpr', 'ParenExpr', 'ImplicitCastExpr'):
            continue    # (void)x; CYTHON_UNUSED_VAR(x);
        else:
            raise AnalysisError('SIB1: C statement kind %s is outside the modelled straight-line subset' % k)
    raise AnalysisError('SIB1: no return statement')


def _lhs_name(l):
    while l.get('kind') in ('ParenExpr', 'ImplicitCastExpr') and l.get('inner'):
        l = l['inner'][-1]
    if l.get('kind') != 'DeclRefExpr':
        raise AnalysisError('SIB1: assignment target is not a variable')
    return l['referencedDecl']['name']


def alternatives(tree, flag):
    """Expand ('alt', <flag var>, A, B) nodes: the set of trees for flag true / false."""
    def rec(t, choice):
        if not isinstance(t, tuple):
            return t
        if t[0] == 'alt' and t[1] == ('var', flag):
            return rec(t[2] if choice else t[3], choice)
        return tuple(rec(x, choice) for x in t)
    return [rec(tree, True), rec(tree, False)]


def rename_vars(tree, mapping):
    if not isinstance(tree, tuple):
        return tree
    if tree[0] == 'var':
        return ('var', mapping.get(tree[1], tree[1]))
    return tuple(rename_vars(x, mapping) for x in tree)


def tree_text(t):
    if not isinstance(t, tuple):
        return str(t)
    if t[0] == 'var':
        return t[1]
    if t[0] == 'int':
        return str(t[1])
    if t[0] == 'bin':
        return '(%s %s %s)' % (tree_text(t[2]), t[1], tree_text(t[3]))
    if t[0] == 'un':
        return '%s%s' % (t[1], tree_text(t[2]))
    if t[0] == 'alt':
        return '(%s ? %s : %s)' % tuple(tree_text(x) for x in t[1:])
    if t[0] == 'call':
        return '%s(%s)' % (tree_text(t[1]), ', '.join(tree_text(x) for x in t[2:]))
    return repr(t)


def clang_functions(source, prefix):
    """One clang run for several snippet functions whose names start with `prefix` -> {name: FunctionDecl JSON}.
    (Same mechanism as sa.engine.absint.clang_function_ast, which returns one function per clang process.)"""
    import json, os, subprocess, tempfile
    with tempfile.TemporaryDirectory(prefix='sa_clang_') as d:
        p = os.path.join(d, 't.c')
        with open(p, 'w') as f:
            f.write(source)
        try:
            r = subprocess.run(['clang', '-fsyntax-only', '-w', '-Xclang', '-ast-dump=json', '-Xclang', '-ast-dump-filter=' + prefix, p],
                               stdout=subprocess.PIPE, stderr=subprocess.PIPE, text=True, timeout=60)
        except (OSError, subprocess.TimeoutExpired) as e:
            raise AnalysisError('clang not runnable: %s' % e)
        if r.returncode != 0:
            raise AnalysisError('clang cannot parse the declared-copy snippets: %s' % r.stderr[-400:])
        txt = r.stdout
    dec = json.JSONDecoder()
    out, i = {}, 0
    while i < len(txt):
        j = txt.find('{', i)
        if j < 0:
            break
        try:
            d, k = dec.raw_decode(txt, j)
        except ValueError:
            i = j + 1
            continue
        i = k
        if d.get('kind') == 'FunctionDecl' and str(d.get('name', '')).startswith(prefix) and any(c.get('kind') == 'CompoundStmt' for c in d.get('inner', [])):
            out[d['name']] = d
    return out


# ----------------------------------------------------------------------------------------------------------------- SIB1
COPY_RE = re.compile(r'see\s+(\w+\.c)\s*::\s*(\w+)\s+utility code')


def original_source(ctx, ufile, section, fname):
    """C text of the original helper instantiated for `long`, renamed to fname."""
    d = ctx.cat.files.get(ufile, {}).get(section, {}).get('impl')
    if d is None:
        raise AnalysisError('declared original %s::%s does not exist' % (ufile, section))
    text = strip_c_comments(d.raw)
    text = text.replace('%(type)s', 'long').replace('%(type_name)s', 'long').replace('%%', '%')
    if '%(' in text:
        raise AnalysisError('%s::%s has substitution keys other than type/type_name' % (ufile, section))
    names = set(re.findall(r'\b(__Pyx_\w+)\s*\(', text))
    if len(names) != 1:
        raise AnalysisError('%s::%s does not define exactly one __Pyx_ function' % (ufile, section))
    return re.sub(r'\b%s\b' % re.escape(names.pop()), fname, text)


def original_alternatives(fa):
    params = [c['name'] for c in fa.get('inner', []) if c.get('kind') == 'ParmVarDecl']
    if len(params) < 2:
        raise AnalysisError('declared original: unexpected signature')
    tree = symbolic_result(fa)
    tree = rename_vars(tree, {params[0]: 'a', params[1]: 'b'})
    alts = [tree]
    for flag in params[2:]:
        alts = [x for t in alts for x in alternatives(t, flag)]
    return alts


def copy_sites(expanded):
    """[(original file, section, block text, c type, left var, right var)] for each declared copy in an expanded PyLongBinop (order ObjC)."""
    out = []
    plain = strip_c_comments(expanded)
    consts = {m.group(1).strip(): m.group(2) for m in re.finditer(r'\bconst\s+(long|PY_LONG_LONG)\s+(\w+)\s*=\s*intval\s*;', plain)}
    others = {}
    for m in re.finditer(r'^[ \t]*(long|PY_LONG_LONG)\s+(\w+)\s*;', plain, re.M):
        others.setdefault(m.group(1), m.group(2))
    for m in COPY_RE.finditer(expanded):
        blk = enclosing_block(expanded, m.start())
        if blk is None:
            raise AnalysisError('declared copy of %s is not inside a block' % m.group(2))
        body = strip_c_comments(blk)
        ctype = 'PY_LONG_LONG' if re.search(r'\bPY_LONG_LONG\b', body) else 'long'
        if ctype not in consts or ctype not in others:
            raise AnalysisError('operand variables of type %s (const X = intval; and its partner) not found in the expanded function' % ctype)
        out.append((m.group(1), m.group(2), body, ctype, others[ctype], consts[ctype]))
    return out


SIB_PRELUDE = ('#define CYTHON_INLINE\n#define CYTHON_UNUSED_VAR(x) (void)(x)\n#define likely(x) (x)\n#define unlikely(x) (x)\ntypedef long long PY_LONG_LONG;\n'
               'void *PyLong_FromLong(long);\nvoid *PyLong_FromLongLong(long long);\n')


def copy_tree(fa, left, right):
    t = symbolic_result(fa)
    if t[0] == 'call' and len(t) == 3:
        t = t[2]
    return rename_vars(t, {left: 'a', right: 'b'})


def rule_sib(ctx, rid):
    from ..core import Rule
    from ..engine.cutil import strip_c_comments
    d = ctx.cat.files.get('Optimize.c', {}).get('PyLongBinop', {}).get('impl')
    if d is None:
        raise AnalysisError('Optimize.c::PyLongBinop missing')
    tree = tpl_tree(d.raw)
    cop, key = tpl_assigned_dict(tree, 'c_op')
    if not cop or key != 'op':
        raise AnalysisError('PyLongBinop: the c_op dispatch table was not found')
    r = Rule(rid, 'SIB1: every block of PyLongBinop that declares itself a copy of CMath.c DivInt / ModInt computes the same expression tree as the original '
                  '(modulo variable names and operand type; either arm of the b_is_constant choice)', floor=4)
    sites = []
    for op in sorted(cop):
        if cop[op] not in ('/', '%'):
            continue
        text = tpl_expand(tree, dict(op=op, order='ObjC', ret_type=Obj(is_pyobject=True)))
        for site in copy_sites(text):
            sites.append((op,) + site)
    sites.append(('<control>', 'CMath.c', 'DivInt', '{ long q, r; q = a / b; r = a - q*b; q -= ((r != 0) & ((r ^ a) < 0)); return PyLong_FromLong(q); }', 'long', 'a', 'b'))
    src = SIB_PRELUDE
    orig_names = {}
    for op, ufile, section, body, ctype, left, right in sites:
        if (ufile, section) not in orig_names:
            orig_names[(ufile, section)] = 'sib_orig_%d' % len(orig_names)
            src += original_source(ctx, ufile, section, orig_names[(ufile, section)]) + '\n'
    for i, (op, ufile, section, body, ctype, left, right) in enumerate(sites):
        src += 'void *sib_copy_%d(%s %s, %s %s) %s\n' % (i, ctype, left, ctype, right, body)
    decls = clang_functions(src, 'sib_')
    originals = {}
    for k, name in orig_names.items():
        if name not in decls:
            raise AnalysisError('clang did not return the original %s::%s' % k)
        originals[k] = original_alternatives(decls[name])
    control = False
    for i, (op, ufile, section, body, ctype, left, right) in enumerate(sites):
        if 'sib_copy_%d' % i not in decls:
            raise AnalysisError('clang did not return the declared copy %s/%s' % (op, section))
        t = copy_tree(decls['sib_copy_%d' % i], left, right)
        same = t in originals[(ufile, section)]
        if op == '<control>':
            control = not same
            continue
        key = 'PyLongBinop(%s):%s:%s' % (op, section, ctype)
        r.inst(key, sample='%s = %s' % (key, tree_text(t)[:120]))
        if not same:
            r.violate(key, 'Cython/Utility/Optimize.c', 0,
                      'the %s block of PyLongBinop(op=%s) says "see %s :: %s" but computes %s where the original computes %s: '
                      'Python-object and C-integer %s disagree for some sign combination'
                      % (ctype, op, ufile, section, tree_text(t), ' or '.join(tree_text(x) for x in originals[(ufile, section)]),
                         'floor division' if 'Div' in section else 'modulo'))
    r.positive_control(control, 'copy testing the sign of a instead of b')
    return r
