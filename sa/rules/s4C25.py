"""C25-COVER — writer / sizer agreement of the code-object description *with path conditions*.

`CodeObjectNode.generate_codeobj` (the writer) stores argcount / posonly / kwonly / nlocals / flags / first line of every
function into bit-fields of `__Pyx_PyCode_New_function_description`; `GlobalState.generate_codeobject_constants` (the
sizer) declares the widths of these bit-fields from running maxima over the same nodes.  C truncates a value that does not
fit silently, and `inspect.signature` then reads a wrong co_argcount / co_posonlyargcount / co_kwonlyargcount.  The
existing rule C25-CODEOBJ compares the *quantities* (linear forms) but not the *conditions* under which they are written
and accumulated.  This rule interprets both functions with the checker's own small evaluator:

 * values are linear forms over non-negative node quantities (`len(D.args)`, `D.num_kwonly_args`, `len(N.varnames)`,
   the line), running maxima are sets of forms they dominate; a loop-carried variable keeps its accumulation only when
   its new value dominates its old one on every path of the loop body;
 * every test on a flag of the def node (`D.is_generator_expression`, `D.is_generator`, ...) that decides an assignment,
   a `continue` / `break` / `return` or a conditional expression is an atom; the functions are interpreted once per
   truth assignment of the atoms they actually consult (complete enumeration, atoms requested lazily);
 * obligation: for every writer case and every field, the stored form is a constant that fits, or - in every sizer case
   compatible with it - dominated by a form accumulated into the maximum that sizes the field; the sizer visits the same
   collection as the loop that calls the writer and does not leave the loop early; the width is the bit length of the
   maximum (not less); every CO_* flag the writer can set fits into the constant flags mask (values from the checker's
   own `inspect` module).

Generator expressions: the writer stores `D.num_posonly_args` / `D.num_kwonly_args` for them although the sizer skips
them; that is sound because these counts are zero for a generator expression.  The rule establishes this from the
source: every construction that passes `is_generator_expression=True` passes the literal `args=[]` (a construction that
forwards the flag forwards the argument list of the same node), and `DefNode.__init__` computes the two counts by counting
over `self.args` from zero.  Nothing is executed.
"""
import ast, inspect as _inspect, itertools, re

from ..core import Rule, AnalysisError, node_src

CODE = 'Cython/Compiler/Code.py'
EXN = 'Cython/Compiler/ExprNodes.py'
ONE = '1'


class NeedAtom(Exception):
    def __init__(self, key):
        self.key = key


class Unmodelled(Exception):
    pass


# ---- abstract values ---------------------------------------------------------------------------------------------
# ('lin', {atom: coeff})      an integer quantity
# ('ref', 'D' | 'N' | 'S')    the def node / the code-object node / the GlobalState (or writer's self == N)
# ('max', frozenset of items) a value that dominates every item; item = ('lin', tuple(sorted form)) | ('carry', name)
# ('atom', key)               a flag of the def node (truth value decided by the case)
# ('coll', text)              a collection (loop iterable)
# ('unk',)
UNK = ('unk',)


def _lin(d):
    return ('lin', {k: v for k, v in d.items() if v})


def _freeze(form):
    return tuple(sorted(form.items()))


def _as_max(v):
    if v[0] == 'max':
        return v
    if v[0] == 'lin':
        return ('max', frozenset([('lin', _freeze(v[1]))]))
    return None


def show(form):
    form = dict(form)
    parts = []
    for k, v in sorted(form.items()):
        if k == ONE:
            parts.append('%+d' % v)
        else:
            parts.append(('%+d*' % v if abs(v) != 1 else ('+' if v > 0 else '-')) + k)
    return ' '.join(parts).lstrip('+') or '0'


def dominated(w, s):
    """w <= s for all non-negative values of the atoms"""
    diff = dict(s)
    for k, v in w.items():
        diff[k] = diff.get(k, 0) - v
    return all(v >= 0 for v in diff.values())


class Interp:
    """One pass over a function body under a fixed truth assignment of the flag atoms (`case`)."""

    def __init__(self, case, self_role, zero_when=None):
        self.case = case
        self.self_role = self_role
        self.zero_when = zero_when or {}       # atom key -> set of D attributes known to be 0 when the atom is true
        self.consulted = set()
        self.methods = {}                      # name -> FunctionDef of the class the interpreted method belongs to
        self.depth = 0

    def call(self, fn, argvals, outer):
        params = [a.arg for a in fn.args.args]
        if len(params) != len(argvals) or fn.args.vararg or fn.args.kwarg or fn.args.kwonlyargs:
            return UNK
        env = {k: v for k, v in outer.items() if v[0] == 'func'}
        env.update(zip(params, argvals))
        if params and params[0] == 'self':
            del env['self']
        self.depth += 1
        try:
            if isinstance(fn, ast.Lambda):
                return self.ev(fn.body, env)
            body = list(fn.body)
            if not body or not isinstance(body[-1], ast.Return) or body[-1].value is None or any(isinstance(n, ast.Return) for b in body[:-1] for n in ast.walk(b)):
                return UNK
            self.run(body[:-1], env, lambda *a: None)
            return self.ev(body[-1].value, env)
        finally:
            self.depth -= 1

    # -- expressions
    def truth(self, key):
        self.consulted.add(key)
        if key not in self.case:
            raise NeedAtom(key)
        return self.case[key]

    def atom_form(self, text):
        m = re.fullmatch(r'D\.(\w+)', text)
        if m:
            for key, attrs in self.zero_when.items():
                if m.group(1) in attrs and self.case.get(key) is True:
                    return _lin({})
                if m.group(1) in attrs and key not in self.case:
                    raise NeedAtom(key)
        return _lin({text: 1})

    def ev(self, e, env):
        if isinstance(e, ast.Constant):
            if isinstance(e.value, bool) or e.value is None:
                return ('const', e.value)
            if isinstance(e.value, int):
                return _lin({ONE: e.value})
            return UNK
        if isinstance(e, ast.Name):
            if e.id == 'self':
                return ('ref', self.self_role)
            return env.get(e.id, UNK)
        if isinstance(e, ast.Attribute):
            b = self.ev(e.value, env)
            if b[0] == 'ref':
                if e.attr == 'def_node' and b[1] == 'N':
                    return ('ref', 'D')
                if e.attr == 'pos':
                    return ('pos',)
                if b[1] == 'S':
                    return ('coll', 'S.' + e.attr)
                return ('attr', b[1], e.attr)
            return UNK
        if isinstance(e, ast.Subscript):
            b = self.ev(e.value, env)
            if b[0] == 'pos' and isinstance(e.slice, ast.Constant) and e.slice.value == 1:
                return _lin({'line': 1})
            if b[0] == 'coll':
                return ('coll', b[1] + '[' + node_src(e.slice, 30) + ']')
            return UNK
        if isinstance(e, ast.Call):
            f = e.func
            if isinstance(f, ast.Name) and f.id == 'len' and len(e.args) == 1:
                a = self.ev(e.args[0], env)
                if a[0] == 'attr':
                    return _lin({'len(%s.%s)' % (a[1], a[2]): 1})
                return UNK
            if isinstance(f, ast.Name) and f.id == 'max' and len(e.args) >= 2 and not e.keywords:
                items = set()
                for a in e.args:
                    v = _as_max(self.num(self.ev(a, env)))
                    if v is None:
                        items.add(('unknown', ' '.join(node_src(a, 60).split())))      # dominated, but the checker cannot say what it is
                    else:
                        items |= v[1]
                return ('max', frozenset(items))
            if isinstance(f, ast.Name) and f.id == 'min' and len(e.args) >= 2:
                return ('notmax', 'min(...)')
            if isinstance(f, ast.Name) and f.id in ('sorted', 'reversed', 'list', 'tuple') and len(e.args) == 1:
                a = self.ev(e.args[0], env)
                return a if a[0] == 'coll' else UNK
            if isinstance(f, ast.Name) and f.id == 'getattr' and len(e.args) in (2, 3) and isinstance(e.args[1], ast.Constant):
                b = self.ev(e.args[0], env)
                if b[0] == 'ref':
                    return ('attr', b[1], e.args[1].value)
                return UNK
            if isinstance(f, ast.Name) and f.id == 'int' and len(e.args) == 1:
                return self.num(self.ev(e.args[0], env))
            if isinstance(f, ast.Attribute) and f.attr == 'bit_length' and not e.args:
                return ('width', ('bits', self.ev(f.value, env), 0))
            # a local helper (nested def / lambda) or a method of the same class: interpreted on the abstract arguments
            target = None
            if isinstance(f, ast.Name) and env.get(f.id, UNK)[0] == 'func':
                target, bound = env[f.id][1], []
            elif isinstance(f, ast.Attribute) and isinstance(f.value, ast.Name) and f.value.id == 'self' and f.attr in self.methods:
                target = self.methods[f.attr]
                static = any(isinstance(d, ast.Name) and d.id == 'staticmethod' for d in target.decorator_list)
                bound = [] if static else [('ref', self.self_role)]
            if target is not None and not e.keywords and self.depth < 3:
                return self.call(target, bound + [self.ev(a, env) for a in e.args], env)
            return UNK
        if isinstance(e, ast.Lambda):
            return ('func', e)
        if isinstance(e, ast.BinOp) and isinstance(e.op, (ast.Add, ast.Sub)):
            a, b = self.num(self.ev(e.left, env)), self.num(self.ev(e.right, env))
            if a[0] == 'acc' and b[0] == 'lin' and set(b[1]) <= {ONE}:
                c = b[1].get(ONE, 0)
                return ('acc', a[1], a[2], a[3] + (c if isinstance(e.op, ast.Add) else -c))
            if a[0] != 'lin' or b[0] != 'lin':
                return UNK
            out = dict(a[1])
            for k, v in b[1].items():
                out[k] = out.get(k, 0) + (v if isinstance(e.op, ast.Add) else -v)
            return _lin(out)
        if isinstance(e, ast.IfExp):
            return self.ev(e.body if self.test(e.test, env) else e.orelse, env)
        return UNK

    def num(self, v):
        """attribute of the def node / code-object node used as a number"""
        if v[0] == 'attr':
            return self.atom_form('%s.%s' % (v[1], v[2]))
        return v

    def test(self, e, env):
        if isinstance(e, ast.UnaryOp) and isinstance(e.op, ast.Not):
            return not self.test(e.operand, env)
        if isinstance(e, ast.BoolOp):
            if isinstance(e.op, ast.And):
                for v in e.values:
                    if not self.test(v, env):
                        return False
                return True
            for v in e.values:
                if self.test(v, env):
                    return True
            return False
        v = self.ev(e, env)
        if v[0] == 'const':
            return bool(v[1])
        if v[0] == 'attr' and v[1] == 'D':
            return self.truth('D.' + v[2])
        if v[0] == 'atom':
            return self.truth(v[1])
        return self.truth('?' + ' '.join(node_src(e, 200).split()))


def _assigns_or_jumps(stmts):
    for s in stmts:
        for n in ast.walk(s):
            if isinstance(n, (ast.Assign, ast.AugAssign, ast.AnnAssign, ast.Continue, ast.Break, ast.Return, ast.NamedExpr)):
                return True
    return False


def _assigned_names(stmts):
    out = set()
    for s in stmts:
        for n in ast.walk(s):
            if isinstance(n, (ast.Assign, ast.AnnAssign, ast.AugAssign)):
                tgts = n.targets if isinstance(n, ast.Assign) else [n.target]
                for t in tgts:
                    for x in ast.walk(t):
                        if isinstance(x, ast.Name):
                            out.add(x.id)
            elif isinstance(n, ast.NamedExpr):
                out.add(n.target.id)
            elif isinstance(n, (ast.For, ast.comprehension)):
                for x in ast.walk(n.target):
                    if isinstance(x, ast.Name):
                        out.add(x.id)
    return out


class Jump(Exception):
    def __init__(self, kind):
        self.kind = kind


class Body(Interp):
    """statement interpreter shared by the writer and the sizer; `hook(stmt, env)` sees every expression statement"""

    def run(self, stmts, env, hook):
        for s in stmts:
            self.stmt(s, env, hook)

    def assign(self, target, value, env):
        if isinstance(target, ast.Name):
            env[target.id] = value
        elif isinstance(target, (ast.Tuple, ast.List)):
            for t in target.elts:
                self.assign(t, UNK, env)

    def stmt(self, s, env, hook):
        if isinstance(s, ast.Assign):
            v = self.ev(s.value, env)
            if v[0] == 'attr' and v[1] == 'D' and re.match(r'(is_|has_|needs_)', v[2]):
                v = ('atom', 'D.' + v[2])
            for t in s.targets:
                self.assign(t, v, env)
            hook(s, env, self)
        elif isinstance(s, ast.AnnAssign):
            if s.value is not None:
                self.assign(s.target, self.ev(s.value, env), env)
        elif isinstance(s, ast.AugAssign):
            if isinstance(s.target, ast.Name):
                cur = self.num(env.get(s.target.id, UNK))
                inc = self.num(self.ev(s.value, env))
                if isinstance(s.op, (ast.Add, ast.Sub)) and cur[0] == 'lin' and inc[0] == 'lin':
                    out = dict(cur[1])
                    for k, v in inc[1].items():
                        out[k] = out.get(k, 0) + (v if isinstance(s.op, ast.Add) else -v)
                    env[s.target.id] = _lin(out)
                else:
                    env[s.target.id] = UNK
        elif isinstance(s, ast.If):
            if not _assigns_or_jumps([s]):
                hook(s, env, self)
                return
            idiom = self.max_idiom(s, env)
            if idiom:
                return
            self.run(s.body if self.test(s.test, env) else s.orelse, env, hook)
        elif isinstance(s, ast.Continue):
            raise Jump('continue')
        elif isinstance(s, ast.Break):
            raise Jump('break')
        elif isinstance(s, ast.Return):
            raise Jump('return')
        elif isinstance(s, ast.Expr):
            hook(s, env, self)
        elif isinstance(s, ast.For):
            if not hook(s, env, self):
                for nm in _assigned_names([s]):
                    env[nm] = UNK
        elif isinstance(s, (ast.While, ast.With, ast.Try)):
            for nm in _assigned_names([s]):
                env[nm] = UNK
        elif isinstance(s, ast.FunctionDef):
            env[s.name] = ('func', s)
        elif isinstance(s, (ast.Pass, ast.Import, ast.ImportFrom, ast.Assert, ast.Global, ast.Nonlocal, ast.Delete)):
            pass
        else:
            for nm in _assigned_names([s]):
                env[nm] = UNK

    def max_idiom(self, s, env):
        """`if e > acc: acc = e`  (also >=, and the mirrored `acc < e`): acc := max(acc, e)"""
        t = s.test
        if s.orelse or len(s.body) != 1 or not isinstance(s.body[0], ast.Assign) or not isinstance(t, ast.Compare) or len(t.ops) != 1:
            return False
        a = s.body[0]
        if len(a.targets) != 1 or not isinstance(a.targets[0], ast.Name):
            return False
        name = a.targets[0].id
        left, right, op = t.left, t.comparators[0], t.ops[0]
        if isinstance(op, (ast.Lt, ast.LtE)):
            left, right = right, left
        elif not isinstance(op, (ast.Gt, ast.GtE)):
            return False
        if not (isinstance(right, ast.Name) and right.id == name and ast.dump(left) == ast.dump(a.value)):
            return False
        old = _as_max(self.num(env.get(name, UNK)))
        new = _as_max(self.num(self.ev(a.value, env)))
        if old is None or new is None:
            return False
        env[name] = ('max', old[1] | new[1])
        return True


def enumerate_cases(run_one, limit=64):
    """run_one(case) -> result, raising NeedAtom(key) when an undecided atom is consulted.  -> [(case, result)]"""
    out, work = [], [{}]
    while work:
        case = work.pop()
        try:
            res = run_one(case)
        except NeedAtom as n:
            if len(case) >= 10:
                raise AnalysisError('C25-COVER: more than 10 atoms on one path')
            work.append(dict(case, **{n.key: True}))
            work.append(dict(case, **{n.key: False}))
            continue
        out.append((case, res))
        if len(out) > limit:
            raise AnalysisError('C25-COVER: more than %d cases' % limit)
    return out


# ---- the fact about generator expressions ---------------------------------------------------------------------------------
def kind_count_attrs(ctx):
    """{'pos_only': attr, 'kw_only': attr}: the DefNode attributes that DefNode.__init__ sets to the number of arguments with that flag
    (`for arg in self.args: if arg.<flag>: n += 1 ... self.<attr> = n`, the increment directly under the test of the flag)"""
    dn = ctx.index.cls('Nodes', 'DefNode')
    init = dn.methods.get('__init__') if dn else None
    out = {}
    if init is None:
        return out
    counter_flag = {}
    for lp in ast.walk(init):
        if isinstance(lp, ast.For) and isinstance(lp.iter, ast.Attribute) and lp.iter.attr == 'args' and isinstance(lp.target, ast.Name):
            for st in lp.body:
                if isinstance(st, ast.If) and isinstance(st.test, ast.Attribute) and isinstance(st.test.value, ast.Name) and st.test.value.id == lp.target.id:
                    for b in st.body:
                        if isinstance(b, ast.AugAssign) and isinstance(b.target, ast.Name) and isinstance(b.op, ast.Add) and isinstance(b.value, ast.Constant) and b.value.value == 1:
                            counter_flag.setdefault(b.target.id, set()).add(st.test.attr)
    for n in ast.walk(init):
        if isinstance(n, ast.Assign) and len(n.targets) == 1 and isinstance(n.targets[0], ast.Attribute) and isinstance(n.targets[0].value, ast.Name) \
                and n.targets[0].value.id == 'self' and isinstance(n.value, ast.Name) and len(counter_flag.get(n.value.id, ())) == 1:
            out[next(iter(counter_flag[n.value.id]))] = n.targets[0].attr
    return out


def genexpr_zero_counts(ctx):
    """-> (set of DefNode attributes that are 0 for a generator expression, [evidence strings]); empty set when the source does not show it"""
    ix = ctx.index
    dn = ix.cls('Nodes', 'DefNode')
    init = dn.methods.get('__init__') if dn else None
    if init is None:
        return set(), ['Nodes.DefNode.__init__ not found']
    counted = {}
    zero_init = set()
    for n in ast.walk(init):
        if isinstance(n, ast.Assign) and isinstance(n.value, ast.Constant) and n.value.value == 0:
            for t in n.targets:
                if isinstance(t, ast.Name):
                    zero_init.add(t.id)
    other_writes = set()
    loops = [n for n in ast.walk(init) if isinstance(n, ast.For) and isinstance(n.iter, ast.Attribute) and n.iter.attr == 'args'
             and isinstance(n.iter.value, ast.Name) and n.iter.value.id == 'self']
    in_loop = set()
    for lp in loops:
        for n in ast.walk(lp):
            if isinstance(n, ast.AugAssign) and isinstance(n.target, ast.Name) and isinstance(n.op, ast.Add):
                in_loop.add(id(n))
    for n in ast.walk(init):
        if isinstance(n, ast.AugAssign) and isinstance(n.target, ast.Name) and id(n) not in in_loop:
            other_writes.add(n.target.id)
        if isinstance(n, ast.Assign) and not (isinstance(n.value, ast.Constant) and n.value.value == 0):
            for t in n.targets:
                if isinstance(t, ast.Name):
                    other_writes.add(t.id)
    for n in ast.walk(init):
        if isinstance(n, ast.Assign) and len(n.targets) == 1 and isinstance(n.targets[0], ast.Attribute) and isinstance(n.targets[0].value, ast.Name) \
                and n.targets[0].value.id == 'self' and isinstance(n.value, ast.Name) and n.value.id in zero_init and n.value.id not in other_writes:
            counted[n.targets[0].attr] = n.value.id
    evidence = ['DefNode.__init__ counts %s over self.args from 0' % sorted(counted)]
    # construction sites
    ok = True
    nsites = 0
    for modname in ('ParseTreeTransforms', 'ExprNodes', 'Nodes', 'Optimize', 'Parsing', 'FusedNode', 'UtilNodes', 'ModuleNode'):
        try:
            tree = ix.mod(modname).tree
        except Exception:
            continue
        for n in ast.walk(tree):
            if isinstance(n, ast.Call):
                kw = {k.arg: k.value for k in n.keywords if k.arg}
                if 'is_generator_expression' not in kw:
                    continue
                nsites += 1
                v = kw['is_generator_expression']
                a = kw.get('args')
                if isinstance(v, ast.Constant) and v.value is False:
                    continue
                if isinstance(v, ast.Constant) and v.value is True:
                    if not (isinstance(a, (ast.List, ast.Tuple)) and not a.elts):
                        ok = False
                        evidence.append('%s:%d passes is_generator_expression=True with args=%s' % (modname, n.lineno, node_src(a, 30) if a is not None else '<missing>'))
                elif isinstance(v, ast.Attribute) and v.attr == 'is_generator_expression':
                    if not (isinstance(a, ast.Attribute) and a.attr == 'args' and ast.dump(a.value) == ast.dump(v.value)):
                        ok = False
                        evidence.append('%s:%d forwards is_generator_expression but not the argument list of the same node' % (modname, n.lineno))
                else:
                    ok = False
                    evidence.append('%s:%d computes is_generator_expression' % (modname, n.lineno))
            elif isinstance(n, ast.Assign):
                for t in n.targets:
                    if isinstance(t, ast.Attribute) and t.attr == 'is_generator_expression':
                        if not (isinstance(n.value, ast.Constant) and n.value.value is False):
                            ok = False
                            evidence.append('%s:%d assigns .is_generator_expression' % (modname, n.lineno))
    if nsites < 1:
        ok = False
        evidence.append('no construction passes is_generator_expression')
    return (set(counted) if ok else set()), evidence


# ---- the two functions ------------------------------------------------------------------------------------------------------
FIELD_BEFORE = re.compile(r'(\w+)\s*:\s*$')


def _fparts(node):
    if isinstance(node, ast.Constant) and isinstance(node.value, str):
        return [node.value]
    if isinstance(node, ast.JoinedStr):
        return [p.value if isinstance(p, (ast.Constant, ast.FormattedValue)) else p for p in node.values]
    if isinstance(node, ast.BinOp) and isinstance(node.op, ast.Add):
        a, b = _fparts(node.left), _fparts(node.right)
        return None if a is None or b is None else a + b
    if isinstance(node, ast.Call) and isinstance(node.func, ast.Attribute) and node.func.attr == 'dedent' and node.args:
        return _fparts(node.args[0])
    return None


def _emitted_texts(stmt):
    """argument part lists of put / putln calls in one statement"""
    for n in ast.walk(stmt):
        if isinstance(n, ast.Call) and isinstance(n.func, ast.Attribute) and n.func.attr in ('put', 'putln', 'write') and n.args:
            parts = _fparts(n.args[0])
            if parts:
                yield n, parts


def writer_cases(gen, zero, methods=None):
    """[(case, [value per initialiser position] , consulted atoms)]"""
    def run_one(case):
        it = Body(case, 'N', {'D.is_generator_expression': zero} if zero else {})
        it.methods = methods or {}
        found = []

        def hook(s, env, interp):
            for call, parts in _emitted_texts(s):
                if isinstance(parts[0], str) and 'function_description' in parts[0] and '{' in parts[0]:
                    found.append([interp.num(interp.ev(p, env)) for p in parts if not isinstance(p, str)])
        env = {}
        try:
            it.run(gen.body, env, hook)
        except Jump:
            pass
        return found[-1] if found else None, set(it.consulted)
    return enumerate_cases(run_one)


class SizerResult:
    def __init__(self):
        self.fields = None        # [(field name, ('acc', name, offset) | ('const', value))]
        self.loops = []           # per sizing loop: dict(iter=('coll', text), cases=[(case, {name: value}, jump)])
        self.final = {}


def sizer_paths(gs, methods=None):
    """paths of the sizer outside the per-node loop -> [(case, SizerResult)]"""
    def run_one(case):
        res = SizerResult()
        it = Body(case, 'S')
        it.methods = methods or {}

        def hook(s, env, interp):
            if isinstance(s, ast.For):
                coll = interp.ev(s.iter, env)
                names = sorted(_assigned_names(s.body))
                tnames = {x.id for x in ast.walk(s.target) if isinstance(x, ast.Name)}
                carried = [n for n in names if n in env and n not in tnames]
                calls_writer = any(isinstance(n, ast.Call) and isinstance(n.func, ast.Attribute) and n.func.attr == 'generate_codeobj' for b in s.body for n in ast.walk(b))
                if calls_writer:
                    res.loops.append(dict(kind='writer', iter=coll, line=s.lineno))
                    return True
                if not carried:
                    return False

                def body_case(bcase):
                    bi = Body(bcase, 'S')
                    bi.methods = methods or {}
                    benv = dict(env)
                    if isinstance(s.target, ast.Name):
                        benv[s.target.id] = ('ref', 'N')
                    for n in carried:
                        benv[n] = ('max', frozenset([('carry', n)]))
                    jump = None
                    try:
                        bi.run(s.body, benv, lambda *a: None)
                    except Jump as j:
                        jump = j.kind
                    return {n: benv.get(n, UNK) for n in carried}, jump
                cases = enumerate_cases(body_case)
                res.loops.append(dict(kind='sizer', iter=coll, line=s.lineno, cases=cases, carried=carried, pre={n: env[n] for n in carried}))
                for n in carried:
                    env[n] = ('acc', n, len(res.loops) - 1, 0)
                for n in set(names) - set(carried):
                    env[n] = UNK
                return True
            for call, parts in _emitted_texts(s):
                fields = []
                for i, p in enumerate(parts):
                    if i and not isinstance(p, str) and isinstance(parts[i - 1], str):
                        m = FIELD_BEFORE.search(parts[i - 1])
                        if m and re.search(r'\bunsigned\b|\bint\b', parts[i - 1].rsplit('\n', 1)[-1] if '\n' in parts[i - 1] else parts[i - 1]):
                            fields.append((m.group(1), width_of(p, env, interp), p))
                if len(fields) >= 3:
                    res.fields = fields
        env = {}
        jump = None
        try:
            it.run(gs.body, env, hook)
        except Jump as j:
            jump = j.kind
        res.final = env
        return res
    return enumerate_cases(run_one)


def width_of(e, env, interp):
    """width expression of a bit-field -> ('bits', value, offset)  meaning  value.bit_length() + offset ; ('unknown', text)"""
    if isinstance(e, ast.Call) and isinstance(e.func, ast.Attribute) and e.func.attr == 'bit_length' and not e.args:
        return ('bits', interp.ev(e.func.value, env), 0)
    if isinstance(e, ast.BinOp) and isinstance(e.op, (ast.Add, ast.Sub)) and isinstance(e.right, ast.Constant) and isinstance(e.right.value, int):
        w = width_of(e.left, env, interp)
        if w[0] == 'bits':
            return ('bits', w[1], w[2] + (e.right.value if isinstance(e.op, ast.Add) else -e.right.value))
    if isinstance(e, ast.Call) and isinstance(e.func, ast.Name) and e.func.id == 'max' and len(e.args) == 2:
        ws = [width_of(a, env, interp) for a in e.args]
        consts = [a for a in e.args if isinstance(a, ast.Constant)]
        bits = [w for w in ws if w[0] == 'bits']
        if len(consts) == 1 and len(bits) == 1:
            return bits[0]
    if isinstance(e, ast.Name):
        v = env.get(e.id)
        if v is not None and v[0] == 'width':
            return v[1]
    return ('unknown', node_src(e, 60))


def co_flag_names(gen):
    out = []
    for n in ast.walk(gen):
        if isinstance(n, ast.Constant) and isinstance(n.value, str) and re.fullmatch(r'CO_[A-Z_]+', n.value):
            out.append((n.value, n.lineno))
    return out


def cover_findings(gen, gs, zero, wmethods=None, smethods=None, kinds=None):
    """-> (instances [(key, sample)], findings [(key, rel, line, msg)], infos)"""
    inst, finds, infos = [], [], []
    wcases = [(c, vals, cons) for c, (vals, cons) in writer_cases(gen, zero, wmethods) if vals is not None]
    if not wcases:
        raise AnalysisError('generate_codeobj: the initialiser of __Pyx_PyCode_New_function_description was not reached by the interpreter')
    spaths = [(c, r) for c, r in sizer_paths(gs, smethods) if r.fields]
    if not spaths:
        raise AnalysisError('generate_codeobject_constants: no path emits the bit-field struct')
    gkey = 'Code.GlobalState.generate_codeobject_constants'
    # what the three counts of a code object mean (CPython data model: co_argcount = positional parameters incl. positional-only, without keyword-only / * / **;
    # DefNode.args holds positional and keyword-only parameters): every function that is not a generator expression stores exactly these quantities
    if kinds and 'kw_only' in kinds and 'pos_only' in kinds:
        want = {'argcount': {'len(D.args)': 1, 'D.' + kinds['kw_only']: -1}, 'posonly': {'D.' + kinds['pos_only']: 1}, 'kwonly': {'D.' + kinds['kw_only']: 1}}
        fields0 = [f for f, _, _ in spaths[0][1].fields]
        for i, field in enumerate(fields0):
            role = 'posonly' if 'posonly' in field.replace('_', '') else 'kwonly' if 'kwonly' in field.replace('_', '') else 'argcount' if 'argcount' in field.replace('_', '') else None
            if role is None:
                continue
            inst.append(('value:%s' % field, 'field %s must hold [%s] for every function that is not a generator expression' % (field, show(want[role]))))
            for wcase, wvals, _ in wcases:
                if wcase.get('D.is_generator_expression') is True or i >= len(wvals):
                    continue
                w = wvals[i]
                if w[0] == 'lin' and w[1] == want[role]:
                    continue
                wl_ = _relevant_lits(wcases, wcase, i)
                finds.append(('ExprNodes.CodeObjectNode.generate_codeobj:value:%s:%s' % (field, wl_ or 'always'), EXN, gen.lineno,
                              'generate_codeobj stores [%s] in the %s field of the code-object description for a function%s; the number of %s parameters of the function is [%s]: '
                              'inspect.signature() of the compiled function shows a different parameter list than the source' % (
                                  show(w[1]) if w[0] == 'lin' else 'a value the checker cannot follow', field, (' with ' + wl_) if wl_ else '',
                                  {'argcount': 'positional', 'posonly': 'positional-only', 'kwonly': 'keyword-only'}[role], show(want[role]))))
    for scase, res in spaths:
        sizers = [lp for lp in res.loops if lp['kind'] == 'sizer']
        writers = [lp for lp in res.loops if lp['kind'] == 'writer']
        if not writers:
            raise AnalysisError('generate_codeobject_constants: the loop that calls generate_codeobj was not found')
        wl = writers[0]
        nfields = len(res.fields)
        for c, vals, _ in wcases:
            if len(vals) != nfields:
                inst.append(('cover:arity', None))
                finds.append(('ExprNodes.CodeObjectNode.generate_codeobj:cover:arity', EXN, gen.lineno,
                              'the description struct declares %d bit-fields, generate_codeobj initialises %d values' % (nfields, len(vals))))
                return inst, finds, infos
        for lp in sizers:
            key = '%s:iteration:%s' % (gkey, '+'.join(lp['carried'][:1]))
            inst.append((gkey + ':iteration', 'sizing loop over %s, writer loop over %s' % (lp['iter'], wl['iter'])))
            if lp['iter'][0] != 'coll' or wl['iter'][0] != 'coll' or lp['iter'][1] != wl['iter'][1]:
                finds.append((gkey + ':iteration', CODE, lp['line'],
                              'the loop that computes the bit-field widths runs over %s, but generate_codeobj is called for every node of %s: the nodes left out are not measured and '
                              'their counts can be truncated in the code-object description' % (lp['iter'][1] if lp['iter'][0] == 'coll' else 'another collection',
                                                                                             wl['iter'][1] if wl['iter'][0] == 'coll' else '?')))
            for bcase, (vals, jump) in lp['cases']:
                if jump in ('break', 'return'):
                    lits = _lits(bcase)
                    finds.append(('%s:loop-exit:%s' % (gkey, lits or 'always'), CODE, lp['line'],
                                  'the loop that computes the bit-field widths is left by `%s`%s: the nodes after that one are not measured and their counts can be truncated in '
                                  'the code-object description' % (jump, (' when ' + lits) if lits else '')))
        for i, (field, width, wexpr) in enumerate(res.fields):
            key = 'cover:%s' % field
            if width[0] != 'bits':
                raise AnalysisError('generate_codeobject_constants: width expression of bit-field %s not understood: %s' % (field, width[1]))
            val, off = width[1], width[2]
            if val[0] == 'acc' and val[3] < 0:
                finds.append(('%s:width:%s' % (gkey, field), CODE, wexpr.lineno,
                              'bit-field %s is as wide as the bit length of (%s %+d), not of the maximum itself: when the largest count is a power of two it is truncated to 0 '
                              '(inspect.signature reads the argument counts from this struct)' % (field, val[1], val[3])))
            inst.append((key, 'field %d %s : %s.bit_length()%s' % (i, field, _valshow(val), ('%+d' % off) if off else '')))
            if off < 0:
                finds.append(('%s:width:%s' % (gkey, field), CODE, wexpr.lineno,
                              'bit-field %s is declared %d bit(s) narrower than the bit length of its maximum: the largest value is truncated (inspect.signature reads the '
                              'argument counts from this struct)' % (field, -off)))
            # what does the width dominate, per sizer body case?
            if val[0] == 'acc':
                lp = res.loops[val[2]]
                name = val[1]
                pre = _as_max(lp['pre'][name])
                per_case = []
                unknown = []
                for bcase, (vals, jump) in lp['cases']:
                    v = interp_num(vals.get(name, UNK))
                    if v[0] not in ('max', 'lin', 'notmax'):
                        raise AnalysisError('generate_codeobject_constants: the value assigned to %s in the sizing loop is outside the modelled subset (%s)%s' % (
                            name, v[0], (' when ' + _lits(bcase)) if bcase else ''))
                    m = _as_max(v)
                    if m is None or ('carry', name) not in m[1]:
                        per_case.append((bcase, None))
                    else:
                        forms = [dict(f[1]) for f in m[1] if f[0] == 'lin']
                        unknown += [f[1] for f in m[1] if f[0] == 'unknown']
                        per_case.append((bcase, forms))
                resets = [bc for bc, f in per_case if f is None]
                if resets:
                    lits = _lits(resets[0])
                    finds.append(('%s:accumulate:%s' % (gkey, name), CODE, lp['line'],
                                  'the running maximum %s does not dominate its previous value%s (it is not of the form max(%s, x)): its final value ignores earlier nodes, so the '
                                  'bit-field %s can be narrower than a stored count' % (name, (' when ' + lits) if lits else '', name, field)))
                    continue
                base_forms = [dict(f[1]) for f in pre[1] if f[0] == 'lin'] if pre else []
            elif val[0] == 'lin' and set(val[1]) <= {ONE}:
                per_case = [({}, [dict(val[1])])]
                base_forms, unknown = [], []
            else:
                raise AnalysisError('generate_codeobject_constants: bit-field %s is sized from a value the interpreter cannot follow (%s)' % (field, _valshow(val)))
            for wcase, wvals, _ in wcases:
                w = wvals[i]
                if w[0] != 'lin':
                    if val[0] == 'lin':
                        continue        # a non-numeric initialiser (the flags expression) of a constant-width field: checked separately
                    infos.append('cover: initialiser %d (%s) is not a linear form in writer case %s' % (i, field, _lits(wcase)))
                    continue
                wf = w[1]
                for bcase, forms in per_case:
                    if not _compatible(wcase, bcase):
                        continue
                    cand = (forms or []) + base_forms
                    if any(dominated(wf, f) for f in cand):
                        continue
                    if val[0] == 'acc' and unknown:
                        raise AnalysisError('generate_codeobject_constants: %s accumulates %s, which the checker cannot follow (helper call?); bit-field %s not decided' % (
                            val[1], unknown[0], field))
                    wl_ = _relevant_lits(wcases, wcase, i)
                    lits = _lits(bcase) or wl_
                    finds.append(('%s:cover:%s:%s' % (gkey, field, lits or 'always'), CODE, (lp['line'] if val[0] == 'acc' else wexpr.lineno),
                                  'bit-field %s: generate_codeobj stores [%s] for a function%s, but generate_codeobject_constants does not include that quantity in the maximum that sizes '
                                  'the field%s (included there: %s). When such a function has the largest count of its module the value does not fit, the C compiler truncates it '
                                  'silently, and inspect.signature() reports missing / re-classified parameters (co_argcount, co_posonlyargcount, co_kwonlyargcount come from this '
                                  'struct)' % (field, show(wf), (' with ' + wl_) if wl_ else '', (' when ' + _lits(bcase)) if _lits(bcase) else '',
                                               ', '.join('[%s]' % show(f) for f in (forms or [])) or 'nothing')))
    return inst, finds, infos


def _relevant_lits(wcases, wcase, i):
    """the literals of a writer case on which the value of initialiser i depends"""
    keep = {}
    for k, v in wcase.items():
        for c2, vals2, _ in wcases:
            if c2.get(k) == (not v) and all(c2.get(k2, v2) == v2 for k2, v2 in wcase.items() if k2 != k):
                mine = [vals for c, vals, _ in wcases if c == wcase][0]
                if vals2[i] != mine[i]:
                    keep[k] = v
    return _lits(keep)


def interp_num(v):
    if v[0] == 'attr':
        return _lin({'%s.%s' % (v[1], v[2]): 1})
    return v


def _valshow(v):
    if v[0] == 'acc':
        return v[1]
    if v[0] == 'lin':
        return show(v[1])
    return str(v[0])


def _lits(case):
    return ' & '.join(('%s' if v else 'not %s') % k.lstrip('?') for k, v in sorted(case.items()))


def _compatible(c1, c2):
    return all(c2.get(k, v) == v for k, v in c1.items())


POSITIVE_SIZER = '''
def generate_codeobject_constants(self):
    w = self.parts['init_codeobjects']
    max_func_args = 1
    max_vars = 1
    max_flags = 0x3ff
    for node in self.codeobject_constants:
        def_node = node.def_node
        if not def_node.is_generator:
            max_func_args = max(max_func_args, len(def_node.args) - def_node.num_kwonly_args)
        max_vars = max(max_vars, len(node.varnames))
    w.put(f"typedef struct {{ unsigned int argcount : {max_func_args.bit_length()}; unsigned int nlocals : {max_vars.bit_length()}; unsigned int flags : {max_flags.bit_length()}; }} d;")
    for node in self.codeobject_constants:
        node.generate_codeobj(w, "bad")
'''
POSITIVE_WRITER = '''
def generate_codeobj(self, code, error_label):
    func = self.def_node
    if func.is_generator_expression:
        argcount = 0
    else:
        argcount = len(func.args)
    kw = func.num_kwonly_args
    nlocals = len(self.varnames)
    flags = '0'
    code.putln("const __Pyx_PyCode_New_function_description descr = {" f"{argcount - kw}, " f"{nlocals}, " f"{flags}" "};")
'''


def rule_cover(ctx):
    r = Rule('C25-COVER', 'code-object description: under every combination of the def-node flags the two functions test, each count generate_codeobj stores is included in the running '
             'maximum that sizes its bit-field in generate_codeobject_constants (same collection, no early loop exit, accumulating maxima, width = bit length), and every CO_* '
             'flag fits the flags mask', floor=15)
    ix = ctx.index
    con = ix.cls('ExprNodes', 'CodeObjectNode')
    gen = con.methods.get('generate_codeobj') if con else None
    gsc = ix.cls('Code', 'GlobalState')
    gs = gsc.methods.get('generate_codeobject_constants') if gsc else None
    if gen is None or gs is None:
        raise AnalysisError('CodeObjectNode.generate_codeobj or GlobalState.generate_codeobject_constants vanished')
    zero, evidence = genexpr_zero_counts(ctx)
    r.inst('genexpr-zero-counts', sample='; '.join(evidence)[:200])
    if not zero:
        r.info('the source does not show that generator expressions have zero keyword-only / positional-only counts: %s' % '; '.join(evidence))
    kinds = kind_count_attrs(ctx)
    if len(kinds) < 2:
        raise AnalysisError('DefNode.__init__: the counters of positional-only / keyword-only arguments were not recognised (%s)' % kinds)
    inst, finds, infos = cover_findings(gen, gs, zero, dict(con.methods), dict(gsc.methods), kinds)
    for key, sample in inst:
        r.inst(key, sample=sample)
    seen = set()
    for key, rel, line, msg in finds:
        if key not in seen:
            seen.add(key)
            r.violate(key, rel, line, msg)
    for i in infos:
        r.info(i)
    # CO_* flags fit the constant mask
    mask = None
    for n in ast.walk(gs):
        if isinstance(n, ast.Assign) and len(n.targets) == 1 and isinstance(n.targets[0], ast.Name) and 'flag' in n.targets[0].id and isinstance(n.value, ast.Constant) \
                and isinstance(n.value.value, int):
            mask = (n.targets[0].id, n.value.value, n.lineno)
    if mask is None:
        raise AnalysisError('generate_codeobject_constants: the constant flags mask was not found')
    flags = co_flag_names(gen)
    if len(flags) < 5:
        raise AnalysisError('generate_codeobj: only %d CO_* flag names found' % len(flags))
    for name, line in sorted(set(flags)):
        val = getattr(_inspect, name, None)
        r.inst('flag-fits:' + name, sample='%s = %s, mask %s = %#x' % (name, val, mask[0], mask[1]))
        if val is None:
            r.info('%s is not a code flag of the checker\'s CPython' % name)
        elif val.bit_length() > mask[1].bit_length():
            r.violate('Code.GlobalState.generate_codeobject_constants:flags-width:%s' % name, CODE, mask[2],
                      'the flags bit-field is %d bits wide (%s = %#x) but generate_codeobj can set %s = %#x: the flag is truncated away%s' % (
                          mask[1].bit_length(), mask[0], mask[1], name, val,
                          ' and inspect.signature() no longer shows the *args / **kwargs parameter' if name in ('CO_VARARGS', 'CO_VARKEYWORDS') else
                          ' and inspect.isgeneratorfunction / iscoroutinefunction answer wrongly'))
    pw, ps = ast.parse(POSITIVE_WRITER).body[0], ast.parse(POSITIVE_SIZER).body[0]
    _, pf, _ = cover_findings(pw, ps, {'num_kwonly_args'}, kinds={'kw_only': 'num_kwonly_args', 'pos_only': 'num_posonly_args'})
    r.positive_control(any(':cover:argcount:' in k and 'is_generator' in k for k, _, _, _ in pf) and not any(':cover:nlocals' in k for k, _, _, _ in pf),
                       'a sizer that skips generator functions while the writer stores their argument count')
    return r
