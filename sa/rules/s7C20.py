"""C20 rules of the seventh strengthening round (session J5).

C20-BATCH  - "the operands of a display are all evaluated before the container is filled".  CPython evaluates every item of a set / list / tuple /
             dict display (and every argument of a call) and only then performs the operation that consumes them (BUILD_SET, BUILD_MAP, CALL ...); the
             consuming operation is the first point at which user code of the items (__hash__, __eq__) runs and at which an unhashable item raises.
             A code generator that requests the evaluation code of element k of a child list and, in the same iteration, emits an operation on that element
             which *the generator itself declares fallible* (put_error_if_neg / error_goto_if...) interleaves the two: element k+1 is evaluated after element k
             was consumed, and not at all when consuming element k fails.  Infallible stores (PyList_SET_ITEM ...) are not observable and are not reported.
             The unpacking displays (`[*a, *b]`, `{**a, **b}`) are the documented exception: there CPython itself extends the container item by item.

C20-CHAIN  - linked chains of nodes (a child attribute of a class that refers to the next node of the same class: the `cascade` of a chained comparison).
             (A) a method that is applied to the chain through the link and rewrites / evaluates an operand of its own node must hand the request on to the
                 next link on every path on which there is one (otherwise the links behind the second one are not processed);
             (B) such a method must be entered from outside (a head class or another method), otherwise the whole chain is skipped;
             (C) an operand that a code generator evaluates AND hands to the next link (which pastes its result again) must be made simple
                 (coerce_to_simple / coerce_to_temp) by the analysis phase of that class under no stronger condition than "there is a next link":
                 otherwise its C expression is pasted - and a non-simple C operand evaluated - once per comparison that uses it.
"""
import ast

from ..core import Rule, AnalysisError
from ..engine.pyindex import walk_no_nested

EVAL_REQ = ('generate_evaluation_code', 'generate_bool_evaluation_code')
RESULT_CALLS = ('result', 'py_result', 'pythran_result', 'result_as')
SIMPLE_COERCIONS = ('coerce_to_simple', 'coerce_to_temp')

# Displays for which the language itself interleaves evaluation and insertion (frozen from the 3.12 language reference / compiler):
INTERLEAVING_DISPLAYS = {
    ('ExprNodes.MergedSequenceNode', 'args'): '6.2.5/6.2.6 + PEP 448: in `[*a, *b]` / `{*a, *b}` each unpacked iterable is added (LIST_EXTEND / SET_UPDATE) before the next item is evaluated',
    ('ExprNodes.MergedSequenceNode', 'args[*].args'): 'PEP 448 / compile.c starunpack_helper: the plain items behind the first starred item are added one at a time (LIST_APPEND / SET_ADD)',
    ('ExprNodes.MergedDictNode', 'keyword_args'): '6.2.7 + PEP 448: in `{**a, **b}` each mapping is merged (DICT_UPDATE) before the next item is evaluated',
}
# pending finding (FINDING_1 of session J5): dict displays are filled pair by pair (CPython evaluates all keys and values of a run of pairs, then BUILD_MAP)
PENDING_BATCH = (('ExprNodes.DictNode', 'key_value_pairs'), ('ExprNodes.MergedDictNode', 'keyword_args[*].key_value_pairs'))


# ===================================================================================================== C20-BATCH
def _child_names(ix, c):
    out = set()
    for name in ('child_attrs', 'subexprs'):
        r = ix.class_list_attr(c, name)
        if r is not None and r[1]:
            out |= set(r[1])
    return out


def _self_attr(e):
    return e.attr if isinstance(e, ast.Attribute) and isinstance(e.value, ast.Name) and e.value.id == 'self' else None


class _Body:
    """Effects of a block of statements on the values rooted at a set of local names (elements of a child list)."""

    def __init__(self, ix, c, children):
        self.ix, self.c, self.children = ix, c, children

    def local_assigns(self, fn):
        m = {}
        for n in walk_no_nested(fn):
            if isinstance(n, ast.Assign) and len(n.targets) == 1 and isinstance(n.targets[0], ast.Name):
                m.setdefault(n.targets[0].id, []).append(n.value)
        return m

    def rooted(self, e, roots, lists):
        if isinstance(e, ast.Name):
            return e.id in roots
        if isinstance(e, ast.Attribute):
            return self.rooted(e.value, roots, lists)
        if isinstance(e, ast.Subscript):
            if self.rooted(e.value, roots, lists):
                return True
            return self.is_list(e.value, lists) and not isinstance(e.slice, ast.Slice)
        if isinstance(e, ast.BoolOp):
            return any(self.rooted(v, roots, lists) for v in e.values)
        if isinstance(e, ast.Call):
            # args.pop(0) / next(args): an element taken from the list
            if isinstance(e.func, ast.Attribute) and e.func.attr == 'pop' and self.is_list(e.func.value, lists):
                return True
            if isinstance(e.func, ast.Name) and e.func.id == 'next' and e.args and self.is_list(e.args[0], lists):
                return True
        return False

    def is_list(self, e, lists):
        a = _self_attr(e)
        if a is not None and a in self.children:
            return True
        return isinstance(e, ast.Name) and e.id in lists

    def effects(self, stmts, roots, lists, assigns, depth=0, seen=None):
        """-> dict {'eval': [line...], 'fallible': [(line, text)...]}"""
        out = {'eval': [], 'fallible': []}
        roots = set(roots)
        # aliases of element operands inside the block (flow-insensitive)
        changed = True
        nodes = self._nodes(stmts, roots, lists)
        while changed:
            changed = False
            for n in nodes:
                if isinstance(n, ast.Assign) and len(n.targets) == 1:
                    t = n.targets[0]
                    if isinstance(t, ast.Name) and t.id not in roots and self.rooted(n.value, roots, lists):
                        roots.add(t.id)
                        changed = True
                    elif isinstance(t, ast.Tuple) and isinstance(n.value, ast.Tuple) and len(t.elts) == len(n.value.elts):
                        for te, ve in zip(t.elts, n.value.elts):
                            if isinstance(te, ast.Name) and te.id not in roots and self.rooted(ve, roots, lists):
                                roots.add(te.id)
                                changed = True
        for n in nodes:
            if not isinstance(n, ast.Call) or not isinstance(n.func, ast.Attribute):
                continue
            f = n.func
            if f.attr in EVAL_REQ and self.rooted(f.value, roots, lists):
                out['eval'].append(n.lineno)
                continue
            if isinstance(f.value, ast.Name) and f.value.id == 'self' and depth < 3:
                found = self.ix.find_method(self.c, f.attr)
                if found is not None:
                    owner, fn = found
                    params = [a.arg for a in fn.args.args][1:]
                    bound = set()
                    for p, a in zip(params, n.args):
                        if self.rooted(a, roots, lists):
                            bound.add(p)
                    for k in n.keywords:
                        if k.arg in params and self.rooted(k.value, roots, lists):
                            bound.add(k.arg)
                    key = (owner.qual, fn.name, tuple(sorted(bound)))
                    seen = seen or set()
                    if bound and key not in seen:
                        sub = self.effects(fn.body, bound, set(), self.local_assigns(fn), depth + 1, seen | {key})
                        out['eval'] += [n.lineno] * bool(sub['eval'])
                        out['fallible'] += [(n.lineno, t) for _, t in sub['fallible']]
                continue
            if f.attr.startswith('put') and n.args:
                fallible = f.attr == 'put_error_if_neg'
                pasted = False
                stack, visited = list(n.args) + [k.value for k in n.keywords], set()
                while stack:
                    x = stack.pop()
                    for y in ast.walk(x):
                        if isinstance(y, ast.Call) and isinstance(y.func, ast.Attribute):
                            if y.func.attr.startswith('error_goto'):
                                fallible = True
                            if y.func.attr in RESULT_CALLS and self.rooted(y.func.value, roots, lists):
                                pasted = True
                        elif isinstance(y, ast.Name) and y.id in assigns and y.id not in visited and y.id not in roots:
                            visited.add(y.id)
                            stack.extend(assigns[y.id])
                if fallible and pasted:
                    out['fallible'].append((n.lineno, ' '.join(ast.unparse(n).split())[:140]))
        return out

    @staticmethod
    def _is_call(e):
        return isinstance(e, ast.Call)

    def nested_list(self, loop, roots, lists):
        """a `for` loop nested in the block that iterates a list reached from an element (item.args) or another child list: a site of its own"""
        if not isinstance(loop, ast.For):
            return None
        for y in ast.walk(loop.iter):
            if isinstance(y, ast.Attribute) and self.rooted(y, roots, lists):
                return y
            if self.is_list(y, lists):
                return y
        return None

    def _nodes(self, stmts, roots, lists):
        out, todo = [], list(stmts)
        while todo:
            n = todo.pop()
            if self.nested_list(n, roots, lists) is not None:
                continue
            out.append(n)
            for ch in ast.iter_child_nodes(n):
                if not isinstance(ch, (ast.FunctionDef, ast.AsyncFunctionDef, ast.ClassDef, ast.Lambda)):
                    todo.append(ch)
        return out


def _iter_lists(e, body, lists):
    """child lists mentioned by the iterable of a loop"""
    found = []
    for y in ast.walk(e):
        a = _self_attr(y)
        if a is not None and a in body.children:
            found.append(a)
        elif isinstance(y, ast.Name) and y.id in lists:
            found.append(lists[y.id])
    return found


def _walk_loops(st):
    """outermost loops inside a statement"""
    if isinstance(st, (ast.For, ast.While)):
        yield st
        return
    if isinstance(st, (ast.FunctionDef, ast.AsyncFunctionDef, ast.ClassDef, ast.Lambda)):
        return
    for ch in ast.iter_child_nodes(st):
        yield from _walk_loops(ch)


def batch_sites(ix, c):
    """-> [(method name, list attr, line, effects)] for the loops of c's own code generators over child lists"""
    children = _child_names(ix, c)
    if not children:
        return []
    body = _Body(ix, c, children)
    out = []
    for mname, fn in sorted(c.methods.items()):
        params = [a.arg for a in fn.args.args]
        if 'code' not in params:
            continue
        assigns = body.local_assigns(fn)
        lists = {}
        for name, vals in assigns.items():
            for v in vals:
                core = v
                while isinstance(core, ast.Call) and isinstance(core.func, ast.Name) and core.func.id in ('list', 'tuple', 'reversed', 'enumerate', 'iter', 'sorted') and core.args:
                    core = core.args[0]
                while isinstance(core, ast.Subscript) and isinstance(core.slice, ast.Slice):
                    core = core.value
                a = _self_attr(core)
                if a is not None and a in children:
                    lists[name] = a
        def visit(stmts, roots, path):
            for n in [x for st in stmts for x in _walk_loops(st)]:
                if isinstance(n, ast.For):
                    attrs = _iter_lists(n.iter, body, lists)
                    where = None
                    if attrs:
                        where = sorted(set(attrs))[0]
                    elif path is not None:
                        y = body.nested_list(n, roots, set(lists))
                        if isinstance(y, ast.Attribute):
                            where = '%s[*].%s' % (path, y.attr)
                    new_roots = {t.id for t in ast.walk(n.target) if isinstance(t, ast.Name)}
                    # `for i in range(len(self.args))`: the index is not an element
                    if isinstance(n.iter, ast.Call) and isinstance(n.iter.func, ast.Name) and n.iter.func.id == 'range':
                        new_roots = set()
                else:
                    attrs = _iter_lists(n.test, body, lists) or [a for st in n.body for y in ast.walk(st) for a in [_self_attr(y)] if a in children]
                    where = sorted(set(attrs))[0] if attrs else None
                    new_roots = set()
                if where is None:
                    visit(n.body, roots, path)
                    continue
                eff = body.effects(n.body, new_roots, set(lists), assigns)
                if eff['eval'] or eff['fallible']:
                    out.append((mname, where, n.lineno, eff))
                visit(n.body, new_roots, where)
        visit(fn.body, set(), None)
    return out


BATCH_POSITIVE = '''
class FakeDisplay(ExprNode):
    subexprs = ['args']
    def generate_evaluation_code(self, code):
        self.allocate_temp_result(code)
        for item in self.args:
            self.fill(item, code)
    def fill(self, elem, code):
        elem.generate_evaluation_code(code)
        call = "PySet_Add(%s, %s)" % (self.result(), elem.py_result())
        code.put_error_if_neg(self.pos, call)
'''


class _FakeCls:
    def __init__(self, node):
        self.node, self.name, self.qual = node, node.name, 'pc.' + node.name
        self.methods = {s.name: s for s in node.body if isinstance(s, ast.FunctionDef)}
        self.attrs = {s.targets[0].id: s.value for s in node.body if isinstance(s, ast.Assign) and isinstance(s.targets[0], ast.Name)}


class _FakeIx:
    def class_list_attr(self, c, name):
        return (c, list(ast.literal_eval(c.attrs[name]))) if name in c.attrs else None

    def find_method(self, c, name, skip_self=False):
        return (c, c.methods[name]) if name in c.methods else None

    def mro(self, c):
        return [c]


def rule_batch(ctx, part='main', floor=8, modules=('ExprNodes',)):
    ix = ctx.index
    pending = part != 'main'
    r = Rule('C20-BATCH' if not pending else 'C20-BATCH-DICT',
             'code generators that loop over a child list of operands (display items, arguments): the evaluation of element k+1 is not requested after a fallible operation '
             '(put_error_if_neg / error_goto_if...) that consumes element k was emitted - CPython evaluates all items of a display before it builds the container, '
             'so an unhashable item / a logging __hash__ is observed after the last item expression; unpacking displays excepted (language reference)'
             + (' [dict display: pending finding]' if pending else ''), floor if not pending else 1)
    node_classes = {k.qual for k in ix.node_classes()}
    used_table = set()
    for mod in modules:
        m = ix.mod(mod)
        for cname, c in sorted(m.classes.items()):
            if c.qual not in node_classes:
                continue
            for mname, attr, line, eff in batch_sites(ix, c):
                key = '%s.%s:%s' % (c.qual, mname, attr)
                inter = bool(eff['eval'] and eff['fallible'])
                if ((c.qual, attr) in PENDING_BATCH) != pending:
                    continue
                r.inst(key, sample='%s: loop over self.%s %s' % (key, attr, 'interleaves evaluation and a fallible use' if inter else
                                                                   ('evaluates the elements' if eff['eval'] else 'consumes the elements')), nontrivial=True)
                if not inter:
                    continue
                if (c.qual, attr) in INTERLEAVING_DISPLAYS:
                    used_table.add((c.qual, attr))
                    continue
                r.violate(key, m.rel, line,
                          '%s.%s requests the evaluation code of each element of self.%s and, in the same iteration, emits a fallible operation that consumes the element (%s): '
                          'element k+1 is evaluated after element k was consumed (its __hash__/__eq__ ran) and is not evaluated at all when consuming element k fails; '
                          'CPython evaluates all items first and then builds the container' % (c.qual, mname, attr, eff['fallible'][0][1]))
    if not pending:
        for q in INTERLEAVING_DISPLAYS:
            if q not in used_table:
                r.info('table entry %s:%s (unpacking display) does not interleave on this tree' % q)
    tree = ast.parse(BATCH_POSITIVE)
    fc = _FakeCls(tree.body[0])
    sites = batch_sites(_FakeIx(), fc)
    r.positive_control(any(e['eval'] and e['fallible'] for _, _, _, e in sites), 'element evaluated and added to the set in one loop (through a helper, text built in a local)')
    return r


# ===================================================================================================== C20-CHAIN
def _resolved_methods(ix, c, stop=('Node', 'ExprNode', 'object')):
    """name -> (owner, fn) for the methods an instance of c has, the framework base classes left out"""
    out = {}
    for k in ix.mro(c):
        if k.name in stop:
            continue
        for name, fn in k.methods.items():
            out.setdefault(name, (k, fn))
    return out


def _link_aliases(fn, link):
    names = set()
    for n in walk_no_nested(fn):
        if isinstance(n, ast.Assign) and len(n.targets) == 1 and isinstance(n.targets[0], ast.Name) and _self_attr(n.value) == link:
            names.add(n.targets[0].id)
    return names


def _is_link(e, link, aliases):
    return _self_attr(e) == link or (isinstance(e, ast.Name) and e.id in aliases)


def _link_calls(node, link, aliases, mname=None):
    """calls  <link>.<mname>(...)  inside node"""
    out = []
    for y in (walk_no_nested(node) if isinstance(node, (ast.FunctionDef, ast.AsyncFunctionDef)) else ast.walk(node)):
        if isinstance(y, ast.Call) and isinstance(y.func, ast.Attribute) and _is_link(y.func.value, link, aliases) and (mname is None or y.func.attr == mname):
            out.append(y)
    return out


def _arity_ok(call, fn):
    params = [a.arg for a in fn.args.args][1:]
    required = len(params) - len(fn.args.defaults)
    npos = len(call.args)
    names = {k.arg for k in call.keywords}
    if any(isinstance(a, ast.Starred) for a in call.args) or None in names:
        return True
    if npos > len(params) and fn.args.vararg is None:
        return False
    given = set(params[:npos]) | names
    if not names <= set(params) and fn.args.kwarg is None:
        return False
    return all(p in given for p in params[:required])


def find_chains(ix, modules):
    """-> [(chain class D, link attr, [head classes])]"""
    chains, candidates = [], []
    node_classes = {k.qual for k in ix.node_classes()}
    framework = set(ix.cls('Nodes', 'Node').methods) | set(ix.cls('ExprNodes', 'ExprNode').methods)
    for mod in modules:
        for cname, c in sorted(ix.mod(mod).classes.items()):
            if c.qual not in node_classes:
                continue
            children = _child_names(ix, c)
            if not children:
                continue
            meths = _resolved_methods(ix, c)
            mine = []
            for a in sorted(children):
                rec, compatible = 0, True
                for name, (owner, fn) in meths.items():
                    calls = _link_calls(fn, a, _link_aliases(fn, a), name)
                    if calls:
                        # the generic recursion over the tree (analyse_types, generate_evaluation_code ... of every node) does not make a chain:
                        # only methods that the framework base classes do not have count
                        if name not in framework:
                            rec += 1
                        if not all(_arity_ok(k, fn) for k in calls):
                            compatible = False
                if rec >= 2:
                    mine.append((c, a, compatible, meths))
            if len(mine) == 1:          # two self-similar children = a tree (BoolBinopNode), not a chain
                candidates += mine
    for c, a, compatible, meths in candidates:
        if not compatible:
            continue
        heads = [h for h, a2, comp2, _ in candidates if a2 == a and not comp2]
        chains.append((c, a, heads, meths))
    return chains


def _operand_effects(fn, children, link):
    """per-link work of a method: operands of the own node rewritten in place (self.X = self.X.f(...)) or asked for their evaluation code"""
    out = []
    alias = {}
    for n in walk_no_nested(fn):
        if isinstance(n, ast.Assign) and len(n.targets) == 1 and isinstance(n.targets[0], ast.Name):
            a = _self_attr(n.value)
            if a in children and a != link:
                alias[n.targets[0].id] = a
    def root(e):
        while isinstance(e, (ast.Attribute, ast.Subscript)) and _self_attr(e) is None:
            e = e.value
        a = _self_attr(e)
        if a is not None:
            return a if a in children and a != link else None
        return alias.get(e.id) if isinstance(e, ast.Name) else None
    for n in walk_no_nested(fn):
        if isinstance(n, ast.Assign):
            for t in n.targets:
                a = _self_attr(t)
                if a in children and a != link and isinstance(n.value, ast.Call) and isinstance(n.value.func, ast.Attribute) and root(n.value.func.value) == a:
                    out.append(('rewrite', a, n.value.func.attr, n.lineno))
        elif isinstance(n, ast.Call) and isinstance(n.func, ast.Attribute) and n.func.attr in EVAL_REQ:
            a = root(n.func.value)
            if a is not None:
                out.append(('eval', a, n.func.attr, n.lineno))
    return out


def _link_test(e, link, aliases):
    """-> (link value known on the true branch, on the false branch): 'T' / 'F' / None"""
    if _is_link(e, link, aliases):
        return 'T', 'F'
    if isinstance(e, ast.Compare) and len(e.ops) == 1 and _is_link(e.left, link, aliases) and isinstance(e.comparators[0], ast.Constant) and e.comparators[0].value is None:
        if isinstance(e.ops[0], ast.IsNot):
            return 'T', 'F'
        if isinstance(e.ops[0], ast.Is):
            return 'F', 'T'
    if isinstance(e, ast.UnaryOp) and isinstance(e.op, ast.Not):
        t, f = _link_test(e.operand, link, aliases)
        return f, t
    if isinstance(e, ast.BoolOp):
        parts = [_link_test(v, link, aliases) for v in e.values]
        if isinstance(e.op, ast.And):
            ts = [t for t, _ in parts if t]
            return (ts[0] if ts else None), None
        fs = [f for _, f in parts if f]
        return None, (fs[0] if fs else None)
    return None, None


def chain_paths(fn, link, mname):
    """-> list of (link state, line) for the completing paths of fn on which the next link may exist and <link>.<mname>(...) was not called"""
    aliases = _link_aliases(fn, link)

    def calls(node):
        return bool(_link_calls(node, link, aliases, mname))

    def chain_loop(s):
        # while v: ...; v = v.<link>
        if not isinstance(s, ast.While):
            return False
        for y in ast.walk(s):
            if isinstance(y, ast.Assign) and len(y.targets) == 1 and isinstance(y.targets[0], ast.Name) and isinstance(y.value, ast.Attribute) and \
                    y.value.attr == link and isinstance(y.value.value, ast.Name) and y.value.value.id == y.targets[0].id:
                return True
        return False

    def refine(states, val):
        if val is None:
            return set(states)
        return {(val, c) for l, c in states if l in ('?', val)}

    def block(stmts, states, done):
        for s in stmts:
            if not states:
                break
            states = stmt(s, states, done)
        return states

    def stmt(s, states, done):
        if isinstance(s, ast.If):
            if calls(s.test):
                states = {(l, True) for l, c in states}
            t, f = _link_test(s.test, link, aliases)
            a = block(s.body, refine(states, t), done)
            b = block(s.orelse, refine(states, f), done)
            return a | b
        if isinstance(s, (ast.For, ast.AsyncFor, ast.While)):
            if chain_loop(s):
                return {(l, True) for l, c in states}
            inner = block(s.body, set(states), done)
            return block(s.orelse, states | inner, done) if s.orelse else states | inner
        if isinstance(s, (ast.With, ast.AsyncWith)):
            return block(s.body, states, done)
        if isinstance(s, ast.Try):
            a = block(s.body, set(states), done)
            out = set(a)
            for h in s.handlers:
                out |= block(h.body, states | a, done)
            if s.orelse:
                out = block(s.orelse, out, done)
            if s.finalbody:
                out = block(s.finalbody, out, done)
            return out
        if isinstance(s, ast.Return):
            if s.value is not None and calls(s.value):
                states = {(l, True) for l, c in states}
            done.extend((l, c, s.lineno) for l, c in states)
            return set()
        if isinstance(s, ast.Raise):
            return set()
        if isinstance(s, (ast.FunctionDef, ast.AsyncFunctionDef, ast.ClassDef)):
            return states
        if calls(s):
            # `a and self.cascade.m()` / conditional expressions are not followed: any call in the statement counts
            states = {(l, True) for l, c in states}
        if isinstance(s, ast.Assign) and any(_self_attr(t) == link for t in s.targets) and not calls(s):
            states = {('?', c) for l, c in states}
        return states

    done = []
    rest = block(fn.body, {('?', False)}, done)
    end = fn.body[-1].end_lineno if fn.body else fn.lineno
    done.extend((l, c, end) for l, c in rest)
    return sorted({(l, line) for l, c, line in done if l != 'F' and not c})


def _guards_of(fn, target):
    """tests of the if statements enclosing the node `target` in fn -> [(test, branch)] or None when target is not in fn"""
    def rec(stmts, stack):
        for s in stmts:
            if s is target or any(y is target for y in ast.walk(s) if not isinstance(s, (ast.If, ast.For, ast.While, ast.With, ast.Try))):
                if not isinstance(s, (ast.If, ast.For, ast.While, ast.With, ast.Try)):
                    return stack
            if isinstance(s, ast.If):
                if any(y is target for y in ast.walk(s.test)):
                    return stack
                r = rec(s.body, stack + [(s.test, True)])
                if r is None:
                    r = rec(s.orelse, stack + [(s.test, False)])
                if r is not None:
                    return r
            elif isinstance(s, (ast.For, ast.While, ast.With)):
                r = rec(s.body, stack)
                if r is None and getattr(s, 'orelse', None):
                    r = rec(s.orelse, stack)
                if r is not None:
                    return r
            elif isinstance(s, ast.Try):
                for part in [s.body, s.orelse, s.finalbody] + [h.body for h in s.handlers]:
                    r = rec(part, stack)
                    if r is not None:
                        return r
        return None
    return rec(fn.body, [])


def shared_operands(fn, children, link):
    """operands self.X that fn asks for their evaluation code (or pastes) and also hands to the next link -> {X: line}"""
    aliases = _link_aliases(fn, link)
    evaluated = {a for kind, a, _, _ in _operand_effects(fn, children, link) if kind == 'eval'}
    out = {}
    for call in _link_calls(fn, link, aliases):
        if call.func.attr not in EVAL_REQ:
            continue
        for arg in list(call.args) + [k.value for k in call.keywords]:
            if isinstance(arg, ast.Compare):
                continue
            cands = [arg] if not isinstance(arg, (ast.BoolOp, ast.IfExp)) else list(ast.walk(arg))
            for y in cands:
                a = _self_attr(y)
                if a in children and a != link and a in evaluated:
                    out.setdefault(a, call.lineno)
    return out


def simple_sites(meths, children, link, x):
    """coercion sites  self.x = self.x.coerce_to_simple/temp(...)  -> [(method name, line, [reasons why the guard is stronger than `there is a next link`])]"""
    out = []
    for name, (owner, fn) in meths.items():
        aliases = _link_aliases(fn, link)
        for kind, a, how, line in _operand_effects(fn, children, link):
            if kind != 'rewrite' or a != x or how not in SIMPLE_COERCIONS:
                continue
            target = [n for n in walk_no_nested(fn) if isinstance(n, ast.Assign) and n.lineno == line and any(_self_attr(t) == x for t in n.targets)][0]
            guards = _guards_of(fn, target) or []
            bad = []
            for test, branch in guards:
                t, f = _link_test(test, link, aliases)
                val = t if branch else f
                src = ' '.join(ast.unparse(test).split())
                if val == 'F':
                    bad.append('only when there is NO next link (%s is %s)' % (src, branch))
                    continue
                pure_link = _is_link(test, link, aliases) or (isinstance(test, ast.Compare) and _is_link(test.left, link, aliases)) or \
                    (isinstance(test, ast.UnaryOp) and (_is_link(test.operand, link, aliases) or isinstance(test.operand, ast.Compare) and _is_link(test.operand.left, link, aliases)))
                if pure_link:
                    continue
                # `not self.x.is_simple()` / `not self.x.result_in_temp()`: the operand is simple already on the other branch
                conj = test.values if isinstance(test, ast.BoolOp) and isinstance(test.op, ast.And) and branch else [test]
                rest = []
                for cj in conj:
                    if _link_test(cj, link, aliases)[0] == 'T' and not isinstance(cj, ast.BoolOp):
                        continue
                    inner = cj.operand if isinstance(cj, ast.UnaryOp) and isinstance(cj.op, ast.Not) else None
                    if branch and inner is not None and isinstance(inner, ast.Call) and isinstance(inner.func, ast.Attribute) and inner.func.attr in ('is_simple', 'result_in_temp') \
                            and _self_attr(inner.func.value) == x:
                        continue
                    rest.append(cj)
                if rest:
                    bad.append('only when %s is %s' % (src, branch))
            out.append((name, line, bad))
    return out


CHAIN_POSITIVE = '''
class Link(Node):
    child_attrs = ['operand2', 'nxt']
    def analyse_types(self, env):
        self.operand2 = self.operand2.analyse_types(env)
        if self.nxt:
            self.nxt = self.nxt.analyse_types(env)
        return self
    def share(self, env):
        if self.nxt is None:
            return
        if self.operand2.type.is_pyobject:
            self.operand2 = self.operand2.coerce_to_simple(env)
    def generate_evaluation_code(self, code, result, operand1):
        self.operand2.generate_evaluation_code(code)
        self.emit(code, result, operand1, self.operand2)
        if self.nxt:
            self.nxt.generate_evaluation_code(code, result, self.operand2)
'''


def rule_chain(ctx, floor=6, modules=('ExprNodes',)):
    ix = ctx.index
    r = Rule('C20-CHAIN', 'linked chains of nodes (chained comparisons): every method that is applied along the chain and rewrites / evaluates an operand of its own link hands the request on '
             'to the next link on every path on which there is one, and is entered from outside; an operand that a link evaluates and also hands to the next link (which pastes it again) '
             'is made simple by the analysis phase whenever there is a next link - otherwise operands behind the second link are evaluated once per comparison that uses them', floor)
    chains = find_chains(ix, modules)
    if not chains:
        raise AnalysisError('C20-CHAIN: no chain class found (CascadedCmpNode.cascade expected)')
    for c, link, heads, meths in chains:
        children = _child_names(ix, c)
        rel = c.module.rel
        # (A) + (B)
        entered = set()
        all_fns = []        # (class, name, fn) of the chain class and its heads
        for k in [c] + heads:
            for name, (owner, fn) in _resolved_methods(ix, k).items():
                all_fns.append((k, name, fn))
        for name, (owner, fn) in sorted(meths.items()):
            through_link = [(k, n2, f2) for k, n2, f2 in all_fns if _link_calls(f2, link, _link_aliases(f2, link), name)]
            if not through_link:
                continue
            eff = _operand_effects(fn, children, link)
            if not eff:
                continue
            key = '%s.%s:%s' % (c.qual, name, link)
            # (B) entered from outside itself (a head class or another method)?
            shared_with_head = [h for h in heads if _resolved_methods(ix, h).get(name, (None, None))[1] is fn]
            entries = [(k, n2) for k, n2, f2 in through_link if f2 is not fn]
            for h in shared_with_head:
                for n2, (o2, f2) in _resolved_methods(ix, h).items():
                    if f2 is fn:
                        continue
                    for y in walk_no_nested(f2):
                        if isinstance(y, ast.Call) and isinstance(y.func, ast.Attribute) and y.func.attr == name and isinstance(y.func.value, ast.Name) and y.func.value.id == 'self':
                            entries.append((h, n2))
            if not entries:
                r.info('%s is never applied to the chain from outside itself (dead code, or the head lost its call): it establishes nothing for (C)' % key)
                continue
            entered.add(name)
            r.inst(key + ':forward', sample='%s is applied along the .%s chain (from %s) and works on %s' % (key, link, sorted({'%s.%s' % (k.name, n2) for k, n2 in entries})[:2],
                                                                                                            sorted({a for _, a, _, _ in eff})))
            for state, line in chain_paths(fn, link, name):
                r.violate(key + ':forward', owner.module.rel, fn.lineno,
                          '%s.%s works on the operands of its own link (%s) but on the path ending at line %d it does not call self.%s.%s(...) although a next link may exist: '
                          'the links behind this one are never processed (a chained comparison with more operands than the head handles itself evaluates the unprocessed operand '
                          'once per comparison that uses it / not at all)' % (c.qual, name, ', '.join(sorted({'%s %s' % (k2, a) for k2, a, _, _ in eff})), line, link, name))
                break
        # (C) shared operands are simple
        for k in [c] + heads:
            kmeths = _resolved_methods(ix, k)
            kchildren = _child_names(ix, k)
            shared = {}
            for name, (owner, fn) in kmeths.items():
                for x, line in shared_operands(fn, kchildren, link).items():
                    shared.setdefault(x, (name, owner, fn))
            for x, (name, owner, fn) in sorted(shared.items()):
                key = '%s:%s:shared-simple' % (k.qual, x)
                sites = simple_sites(kmeths, kchildren, link, x)
                if k is c:      # a link of the chain: only methods that are applied to the chain establish anything
                    sites = [(n2, ln, bad if n2 in entered else bad + ['%s is never applied to the chain' % n2]) for n2, ln, bad in sites]
                good = [s for s in sites if not s[2]]
                r.inst(key, sample='%s.%s evaluates self.%s and hands it to the next link; made simple in %s' % (k.qual, name, x, [s[0] for s in good]))
                if not good:
                    why = ('; '.join('%s line %d: %s' % (s[0], s[1], ', '.join(s[2])) for s in sites)) if sites else 'no self.%s = self.%s.coerce_to_simple/coerce_to_temp(...) in the class' % (x, x)
                    r.violate(key, owner.module.rel, fn.lineno,
                              '%s.%s asks self.%s for its evaluation code and hands the same operand to self.%s.%s(...), which pastes its result into the next comparison as well, '
                              'but the class does not make the operand simple whenever there is a next link (%s): a non-simple C operand (a call of a cdef noexcept / extern function) '
                              'is evaluated once per comparison that uses it' % (k.qual, name, x, link, name, why))
    # positive control
    tree = ast.parse(CHAIN_POSITIVE)
    fc = _FakeCls(tree.body[0])
    pm = {n: (fc, f) for n, f in fc.methods.items()}
    ch = {'operand2', 'nxt'}
    a_ok = not chain_paths(fc.methods['analyse_types'], 'nxt', 'analyse_types')
    a_bad = bool(chain_paths(fc.methods['share'], 'nxt', 'share'))
    sh = shared_operands(fc.methods['generate_evaluation_code'], ch, 'nxt')
    sites = simple_sites(pm, ch, 'nxt', 'operand2')
    r.positive_control(a_ok and a_bad and 'operand2' in sh and sites and all(s[2] for s in sites),
                       'a chain method that does not recurse; a shared operand made simple only for Python objects')
    return r
