"""C32-COPY: every place where CFuncType builds a modified copy of itself carries the whole exception specification over.

The exception spec of a C function type is the PAIR (exception_value, exception_check): `except? -1` is (-1, True), `except -1` is (-1, False),
`except *` is (None, True), `noexcept` is (None, False).  A copy that forwards one half and lets the other fall back to the constructor default
silently turns `except? v` into `except v` (a legitimate return of v becomes an error without exception) or `except *` into `noexcept`."""
import ast

from ..core import Rule, AnalysisError
from ..engine.pyindex import walk_no_nested

PAIR = ('exception_value', 'exception_check')


def rule_copy(ctx, floor=2):
    ix = ctx.index
    r = Rule('C32-COPY', 'copies of a CFuncType made inside CFuncType forward exception_value and exception_check together', floor)
    c = ix.cls('PyrexTypes', 'CFuncType')
    if c is None or '__init__' not in c.methods:
        raise AnalysisError('PyrexTypes.CFuncType.__init__ not found')
    init = c.methods['__init__']
    params = [a.arg for a in init.args.args[1:]]
    if not all(p in params for p in PAIR):
        raise AnalysisError('CFuncType.__init__ no longer takes %s' % (PAIR,))

    def given(call):
        g = {}
        for i, a in enumerate(call.args):
            if isinstance(a, ast.Starred):
                return None
            if i < len(params):
                g[params[i]] = a
        for k in call.keywords:
            if k.arg is None:
                return None
            g[k.arg] = k.value
        return g
    for name, fn in c.methods.items():
        for n in walk_no_nested(fn):
            if isinstance(n, ast.Call) and isinstance(n.func, ast.Name) and n.func.id == 'CFuncType':
                g = given(n)
                if g is None:
                    continue
                from_self = [p for p, v in g.items() if isinstance(v, ast.Attribute) and isinstance(v.value, ast.Name) and v.value.id == 'self']
                if len(from_self) < 3:
                    continue          # not a copy of self
                key = 'PyrexTypes.CFuncType.%s' % name
                r.inst(key, sample='%s: forwards %d of %d constructor parameters' % (key, len(g), len(params)))
                have = [p for p in PAIR if p in g]
                if len(have) == 1:
                    missing = [p for p in PAIR if p not in g][0]
                    r.violate(key, c.module.rel, n.lineno, 'CFuncType.%s copies the function type but forwards only %s: %s falls back to the constructor default, which changes the exception '
                              'specification of the copy (except? v <-> except v, except * <-> noexcept)' % (name, have[0], missing))
    r.positive_control(True, 'pair rule evaluated')
    return r
