"""Helpers for C04 (overflowcheck) and C05 (int conversion): a Tempita reader (variables a section reads, simple
substitution with markers), utility load sites with their context dictionaries, C definitions inside templated
sections with their #if coverage, delegation / must-call checks on Python methods."""
import ast, builtins, re, collections

from ..core import AnalysisError, node_src
from ..engine import pyflow
from ..engine.pyindex import walk_no_nested, is_self_attr
from ..engine.cutil import strip_c_comments, match_paren, split_args
from .iface import const_strs, local_env, str_template, PLACEHOLDER

TOKEN = re.compile(r'\{\{(.*?)\}\}', re.S)
_BUILTINS = set(dir(builtins))


# ------------------------------------------------------------------------------------------------ Tempita
def tempita_code_tokens(text):
    """[(kind, payload, offset)] for the {{...}} tokens: kind in if/elif/else/endif/for/endfor/py/default/expr/comment."""
    out = []
    for m in TOKEN.finditer(text):
        c = m.group(1).strip()
        if c.startswith('#'):
            out.append(('comment', c, m.start()))
        elif c.startswith('py:'):
            out.append(('py', c[3:].strip(), m.start()))
        elif re.match(r'(if|elif)\b', c):
            k, _, rest = c.partition(' ')
            out.append((k, rest.strip(), m.start()))
        elif c in ('else', 'endif', 'endfor', 'enddef'):
            out.append((c, '', m.start()))
        elif re.match(r'for\b', c):
            out.append(('for', c[3:].strip(), m.start()))
        elif re.match(r'default\b', c):
            out.append(('default', c[7:].strip(), m.start()))
        elif re.match(r'(def|inherit)\b', c):
            raise AnalysisError('Tempita {{%s}} is not modelled' % c.split()[0])
        else:
            out.append(('expr', c, m.start()))
    return out


def _loads_stores(code, mode):
    try:
        tree = ast.parse(code, mode=mode)
    except SyntaxError as e:
        raise AnalysisError('cannot parse template code %r: %s' % (code[:60], e))
    loads, stores = set(), set()
    for n in ast.walk(tree):
        if isinstance(n, ast.Name):
            (stores if isinstance(n.ctx, (ast.Store, ast.Del)) else loads).add(n.id)
        elif isinstance(n, (ast.Import, ast.ImportFrom)):
            for a in n.names:
                stores.add((a.asname or a.name).split('.')[0])
        elif isinstance(n, ast.comprehension):
            for x in ast.walk(n.target):
                if isinstance(x, ast.Name):
                    stores.add(x.id)
    return loads, stores


def tempita_reads(text):
    """Names a template reads from its substitution context (free names of all {{...}} code that are not loop
    variables, not bound by {{py:}} / {{default}} and not Python builtins)."""
    reads = set()
    bound = set()
    loops = []
    for kind, code, _ in tempita_code_tokens(text):
        if kind in ('comment', 'else', 'endif', 'enddef'):
            continue
        if kind == 'endfor':
            if not loops:
                raise AnalysisError('{{endfor}} without {{for}}')
            loops.pop()
            continue
        if kind == 'py':
            l, s = _loads_stores(code, 'exec')
            reads |= {x for x in l if x not in bound and x not in s and not any(x in lv for lv in loops)}
            bound |= s
            continue
        if kind == 'default':
            var, _, val = code.partition('=')
            l, _s = _loads_stores(val.strip(), 'eval')
            reads |= {x for x in l if x not in bound and not any(x in lv for lv in loops)}
            bound.add(var.strip())
            continue
        if kind == 'for':
            m = re.match(r'(.+?)\s+in\s+(.+)$', code, re.S)
            if not m:
                raise AnalysisError('cannot parse {{for %s}}' % code)
            l, _s = _loads_stores(m.group(2), 'eval')
            reads |= {x for x in l if x not in bound and not any(x in lv for lv in loops)}
            tl, ts = _loads_stores(m.group(1) + ' = 0', 'exec')
            loops.append(ts)
            continue
        l, s = _loads_stores(code, 'eval')
        reads |= {x for x in l if x not in bound and x not in s and not any(x in lv for lv in loops)}
    if loops:
        raise AnalysisError('unterminated {{for}} in template')
    return {x for x in reads if x not in _BUILTINS}


def tempita_subst(text, env, other='0'):
    """Substitute plain {{NAME}} tokens from env (unknown names stay), any other expression becomes `other`.
    Control tokens are not supported here (the Overflow.c sections have none)."""
    def rep(m):
        c = m.group(1).strip()
        if re.fullmatch(r'[A-Za-z_]\w*', c):
            return env.get(c, m.group(0))
        if re.match(r'(if|elif|else|endif|for|endfor|py:|default)\b', c):
            raise AnalysisError('template control token {{%s}} where only substitutions are modelled' % c[:30])
        return other
    return TOKEN.sub(rep, text)


def section_texts(cat, file, name):
    d = cat.files.get(file, {}).get(name)
    if not d:
        raise AnalysisError('utility section %s::%s vanished' % (file, name))
    return {typ: s for typ, s in d.items()}


def section_all_text(cat, file, name):
    return '\n'.join(s.raw for s in section_texts(cat, file, name).values())


# ------------------------------------------------------------------------------------------------ load sites
LOADERS = ('load', 'load_cached', 'load_as_string')


class LoadSite:
    __slots__ = ('module', 'qual', 'owner', 'fn', 'call', 'sections', 'context')


def load_sites(ctx, file):
    """All `X.load*/load_cached("Section", "<file>", context={...})` calls in Cython/Compiler."""
    ix = ctx.index
    out = []
    for m in ix.modules.values():
        if not m.name.startswith('Cython.Compiler') or file not in m.src:
            continue
        for qn, owner, fn in ix.functions_of(m):
            if not any(isinstance(x, ast.Constant) and x.value == file for x in ast.walk(fn)):
                continue
            env = local_env(fn)
            for n in walk_no_nested(fn):
                if not (isinstance(n, ast.Call) and isinstance(n.func, ast.Attribute) and n.func.attr in LOADERS and len(n.args) >= 2):
                    continue
                files = const_strs(n.args[1], env)
                if not files or file not in files:
                    continue
                names = const_strs(n.args[0], env)
                s = LoadSite()
                s.module, s.qual, s.owner, s.fn, s.call = m, qn, owner, fn, n
                s.sections = names
                s.context = next((k.value for k in n.keywords if k.arg == 'context'), None)
                if s.context is None and len(n.args) > 2:
                    s.context = n.args[2]
                out.append(s)
    return out


def context_items(site):
    """{key: value node} of a literal context dict (resolving a local name bound once to a dict literal), or None."""
    c = site.context
    if isinstance(c, ast.Name):
        env = local_env(site.fn)
        vals = env.get(c.id)
        if vals and len(vals) == 1:
            c = vals[0]
    if isinstance(c, ast.Dict) and all(isinstance(k, ast.Constant) and isinstance(k.value, str) for k in c.keys):
        return {k.value: v for k, v in zip(c.keys, c.values)}
    if isinstance(c, ast.Call) and isinstance(c.func, ast.Name) and c.func.id == 'dict' and not c.args:
        return {k.arg: k.value for k in c.keywords if k.arg}
    return None


_ENV_CACHE = {}


def cached_env(fn):
    k = id(fn)
    if k not in _ENV_CACHE or _ENV_CACHE[k][0] is not fn:
        _ENV_CACHE[k] = (fn, local_env(fn))
    return _ENV_CACHE[k][1]


def resolve_local(fn, node, depth=0):
    """Source text of an expression with locals that are assigned exactly once replaced by their definition."""
    env = cached_env(fn)

    class R(ast.NodeTransformer):
        def visit_Name(self, n):
            v = env.get(n.id)
            if isinstance(n.ctx, ast.Load) and v and len(v) == 1 and depth < 3:
                return ast.parse(resolve_local(fn, v[0], depth + 1), mode='eval').body
            return n
    import copy
    return ast.unparse(R().visit(copy.deepcopy(node)))


# ------------------------------------------------------------------------------------------------ C definitions in templated text
DEF_MACRO = re.compile(r'^[ \t]*#[ \t]*define[ \t]+([^\s(]+)', re.M)
DEF_FUNC = re.compile(r'^[ \t]*static\b[^;{}()#]*?([^\s()*]+)[ \t]*\(([^;{}]*?)\)\s*(\{|;)', re.M)
PP = re.compile(r'^[ \t]*#[ \t]*(if|ifdef|ifndef|elif|else|endif)\b', re.M)


def c_definitions(text):
    """[(name, kind 'macro'|'func'|'proto', params text or None, cond path)] of the C names a (rendered) section defines.
    cond path = tuple of (id of the #if group, branch index) the definition sits under."""
    text = strip_c_comments(text)
    events = []
    for m in PP.finditer(text):
        events.append((m.start(), 'pp', m.group(1)))
    for m in DEF_MACRO.finditer(text):
        events.append((m.start(), 'macro', m.group(1), None))
    for m in DEF_FUNC.finditer(text):
        events.append((m.start(), 'func' if m.group(3) == '{' else 'proto', m.group(1), m.group(2)))
    events.sort(key=lambda e: e[0])
    stack = []
    groups = {}     # gid -> [n_branches, has_else]
    gid = 0
    out = []
    for e in events:
        if e[1] == 'pp':
            d = e[2]
            if d in ('if', 'ifdef', 'ifndef'):
                gid += 1
                stack.append([gid, 0])
                groups[gid] = [1, False]
            elif d in ('elif', 'else'):
                if not stack:
                    raise AnalysisError('#%s without #if in utility text' % d)
                stack[-1][1] += 1
                groups[stack[-1][0]][0] += 1
                if d == 'else':
                    groups[stack[-1][0]][1] = True
            else:
                if stack:
                    stack.pop()
        else:
            out.append((e[2], e[1], e[3], tuple((g, b) for g, b in stack)))
    return out, groups


def always_defined(name, defs, groups, kinds=('macro', 'func', 'proto')):
    """True when `name` is defined under every preprocessor configuration of the text (unconditionally, or in every
    branch of an #if/#else group that is itself unconditional)."""
    paths = [p for n, k, _prm, p in defs if n == name and k in kinds]
    if not paths:
        return False
    if any(not p for p in paths):
        return True
    by_group = collections.defaultdict(set)
    for p in paths:
        if len(p) == 1:
            by_group[p[0][0]].add(p[0][1])
    for g, branches in by_group.items():
        n, has_else = groups[g]
        if has_else and len(branches) == n:
            return True
    return False


# ------------------------------------------------------------------------------------------------ Python method helpers
def _is_super_call(c, name):
    f = c.func
    if not (isinstance(f, ast.Attribute) and f.attr == name):
        return False
    v = f.value
    if isinstance(v, ast.Call) and isinstance(v.func, ast.Name) and v.func.id == 'super':
        return True
    # Base.method(self, ...)
    return isinstance(v, (ast.Name, ast.Attribute)) and bool(c.args) and isinstance(c.args[0], ast.Name) and c.args[0].id == 'self'


def calls_on_all_paths(fn, pred):
    """True when every normal exit of fn is reached only after a call satisfying pred."""
    def tr(n, st):
        if any(pred(c) for c in pyflow.calls_in(n)):
            return st | {'HIT'}
        return st
    try:
        o = pyflow.Flow(tr).run(fn)
    except pyflow.TooManyStates:
        return False
    ends = o.normal | o.returns
    return bool(ends) and all('HIT' in s for s in ends)


def delegates_up(fn, name):
    return calls_on_all_paths(fn, lambda c: _is_super_call(c, name))


def calls_self_method(fn, name):
    return calls_on_all_paths(fn, lambda c: isinstance(c.func, ast.Attribute) and c.func.attr == name and
                              isinstance(c.func.value, ast.Name) and c.func.value.id == 'self')


def _delegation_targets(fn, name):
    """Names of the classes fn delegates `name` to: 'super' for super().name(...), 'X' for X.name(self, ...)."""
    out = set()
    for c in pyflow.calls_in(ast.Module(body=fn.body, type_ignores=[])):
        if _is_super_call(c, name):
            v = c.func.value
            if isinstance(v, ast.Call):
                out.add('super')
            else:
                out.add(v.attr if isinstance(v, ast.Attribute) else v.id)
    return out


def effective_chain(ix, cls, name):
    """[(owner, fn)] the chain of implementations of `name` that run for an instance of cls: the effective method, then
    (while it delegates on every path) the implementation it delegates to: the next one up the MRO for super(), the one
    visible from class X for an explicit X.name(self, ...)."""
    out = []
    mro = ix.mro(cls)
    i = 0
    while i < len(mro):
        k = mro[i]
        if name in k.methods:
            fn = k.methods[name]
            out.append((k, fn))
            if not delegates_up(fn, name):
                break
            tg = _delegation_targets(fn, name)
            if tg == {'super'}:
                i += 1
                continue
            if len(tg) == 1:
                t = next(iter(tg))
                j = next((j for j in range(i + 1, len(mro)) if mro[j].name == t), None)
                if j is None:
                    break
                i = j
                continue
            break
        i += 1
    return out


def const_texts(fn):
    """All string constants (incl. the constant parts of %-templates and f-strings) in a function."""
    for n in walk_no_nested(fn):
        if isinstance(n, ast.Constant) and isinstance(n.value, str):
            yield n, n.value


def table_classes(ix, module_short, table):
    """{key: ClassInfo} for a module-level dict literal mapping constants to class names."""
    m = ix.mod(module_short)
    node = m.bindings.get(table)
    if not isinstance(node, ast.Dict):
        raise AnalysisError('%s.%s is not a dict literal any more' % (module_short, table))
    out = {}
    for k, v in zip(node.keys, node.values):
        if isinstance(k, ast.Constant):
            r = ix.resolve_name(m, v.id) if isinstance(v, ast.Name) else None
            out[k.value] = r[1] if r and r[0] == 'class' else None
    return out


def literal_dict_attr(ix, cls, name):
    a = ix.find_class_attr(cls, name)
    if a is None:
        return None
    try:
        v = ast.literal_eval(a[1])
    except Exception:
        return None
    return (a[0], v) if isinstance(v, dict) else None
