"""C15 — seventh round: constant slice objects (`x[1:7:2]`, `x[::-1]`, the cached slice of `x[1:7]` on an untyped object).

Seed C15j dropped the step from the key under which SliceNode pools its constant `slice` object: `x[1:7]` and `x[1:7:2]` of one module then
share one C constant and every later literal slice with equal start/stop is evaluated with the step of the first one.

C15-SLICEKEY  (finite-domain evaluation) SliceNode.generate_result_code is folded by the checker's evaluator (sa/rules/sC25.ObjFolder) on model
    nodes for every triple (start, stop, step) over {absent/None, the falsy constant 0, constant a, constant b} — 64 literal slices, the `code`
    argument being a stand-in whose get_py_const(prefix, dedup_key=K) hands K back.  A key function can look at a component's presence, truth value and
    identity of value; four classes per component are the partition these induce for the question asked: two slices that differ in any component must not get the same key
    (a pooled constant is built once, by whichever slice is generated first, and PySlice_New receives all three components).  Slices that are not
    pooled at all (key None) are fine.  The same question is asked of the slice nested in a constant tuple (`x[1:7:2, 0]`), which is keyed
    through the recursion of make_dedup_key.
C15-SLICELIT  (structure) the node becomes a cached module-level constant (`is_literal` set, which makes generate_result_code write into the
    cached-constants section) only under a test of `.is_literal` of every sub-expression whose result PySlice_New receives there; PySlice_New
    receives the results of self.start, self.stop, self.step in that order; and where SliceIndexNode builds its constant slice from its own
    start / stop, `start=` is built from the start and `stop=` from the stop, the step being the constant None.
"""
import ast, itertools

from ..core import Rule, AnalysisError, node_src
from ..engine import tables
from ..engine.pyindex import walk_no_nested, is_self_attr
from .pC10 import Unfoldable
from .sC25 import ObjFolder, Inst

EXN = 'Cython/Compiler/ExprNodes.py'
FIELDS = ('start', 'stop', 'step')


class _Captured(Exception):
    def __init__(self, key):
        self.key = key


def _slice_class(ix):
    """the node class(es) that declare is_slice = True (the construct make_dedup_key dispatches on)."""
    en = ix.mod('ExprNodes')
    out = []
    for c in en.classes.values():
        v = c.attrs.get('is_slice')
        if isinstance(v, ast.Constant) and v.value:
            out.append(c)
    if not out:
        raise AnalysisError('no class of ExprNodes declares is_slice = True')
    return out


def rule_slicekey(ctx, floor=80):
    r = Rule('C15-SLICEKEY', 'the key under which SliceNode pools a constant slice object separates every two literal slices that differ in start, stop or step '
             '(generate_result_code folded on all 64 triples over absent / 0 / a / b, and on 27 nested in a constant tuple)', floor=floor)
    ix = ctx.index
    en = ix.mod('ExprNodes')
    f = ObjFolder(ctx)
    pyobj = f.module_attr('Cython/Compiler/PyrexTypes.py', 'py_object_type')
    slice_t = Inst(None, {}, label='slice_type', flags_default=False)
    tuple_t = Inst(None, {}, label='tuple_type', flags_default=False)

    def const(v):
        cn = 'NoneNode' if v is None else 'IntNode'
        return Inst(en.classes[cn], dict(constant_result=v, type=pyobj, is_literal=True, value=repr(v)), label=repr(v))

    def site_key(node, meth):
        if ix.find_method(node.cls, meth) is None:
            raise AnalysisError('%s.%s vanished' % (node.cls.name, meth))

        def get_py_const(prefix, dedup_key=None):
            raise _Captured(dedup_key)
        code = Inst(None, dict(get_py_const=get_py_const), label='code')
        try:
            f.inst_attr(node, meth)(code)
        except _Captured as c:
            return c.key
        raise AnalysisError('%s.%s no longer requests a pooled constant through code.get_py_const() for a literal node' % (node.cls.name, meth))

    def show(t):
        a, b, c = ['' if v is None else str(v) for v in t]
        return 'x[%s:%s:%s]' % (a, b, c) if t[2] is not None else 'x[%s:%s]' % (a, b)

    for cls in _slice_class(ix):
        if cls.methods.get('generate_result_code') is None and cls.name != 'SliceNode':
            continue        # SliceIntNode etc. inherit or do not build an object
        own = ix.find_method(cls, 'generate_result_code')
        if own is None:
            raise AnalysisError('%s has no generate_result_code' % cls.name)
        line = own[1].lineno
        for ctxname in ('plain', 'in-tuple'):
            keys = {}
            crashed = False
            for t in itertools.product((None, 0, 1, 2) if ctxname == 'plain' else (None, 1, 2), repeat=3):
                r.inst('%s:%s:%s' % (cls.name, ctxname, show(t)), sample='%s %s -> pooling key' % (show(t), ctxname))
                node = Inst(cls, dict(start=const(t[0]), stop=const(t[1]), step=const(t[2]), is_literal=True, type=slice_t), label='slice')
                try:
                    if ctxname == 'plain':
                        k = site_key(node, 'generate_result_code')
                    else:
                        tup = Inst(en.classes['TupleNode'], dict(args=[node, const(1)], mult_factor=None, is_literal=True, type=tuple_t, constant_result=None), label='tuple')
                        k = site_key(tup, 'generate_operation_code')
                    hash(k)
                except AnalysisError:
                    raise
                except Exception as e:
                    r.violate('%s.generate_result_code:pooling-key:crash' % cls.name, EXN, line, 'computing the pooling key of the literal slice %s (%s) raises %s: %s' % (show(t), ctxname, type(e).__name__, e))
                    crashed = True
                    break
                if k is not None:
                    keys.setdefault(k, []).append(t)
            if crashed:
                continue
            clash = sorted((v for v in keys.values() if len(v) > 1), key=lambda v: (len(v), v[0] != (None, None, None)))
            if clash:
                ts = clash[0]
                differ = sorted({FIELDS[i] for a, b in itertools.combinations(ts, 2) for i in range(3) if a[i] != b[i]})
                where = 'SliceNode.generate_result_code' if ctxname == 'plain' else 'make_dedup_key (slice nested in a constant tuple)'
                r.violate('%s.generate_result_code:pooling-key:%s:%s' % (cls.name, ctxname, '+'.join(differ)), EXN, line,
                          'the literal slices %s get the same pooling key in %s although they differ in %s (%d triples collide in %d groups): a module that contains both '
                          'builds one slice object with PySlice_New(start, stop, step) for whichever is generated first and uses it for the others, so x[a:b:c] reads, assigns and deletes the wrong elements '
                          'of list / tuple / str / bytes / bytearray' % (' and '.join(show(t) for t in ts[:3]), where, ' / '.join(differ), sum(len(v) for v in clash), len(clash)))
    # positive control: a key function that forgets the step
    ctl = {}
    for t in itertools.product((None, 1, 2), repeat=3):
        ctl.setdefault(t[:2], []).append(t)
    r.positive_control(any(len(v) > 1 for v in ctl.values()), 'key (start, stop) collides for x[1:2] / x[1:2:1]')
    return r


# ----------------------------------------------------------------------------------------------------- structure
def _self_field(n):
    """self.<field> (possibly wrapped in calls / or-defaults / copies) -> set of field names of self mentioned."""
    return {x.attr for x in ast.walk(n) if isinstance(x, ast.Attribute) and isinstance(x.value, ast.Name) and x.value.id == 'self'}


def _literal_tests(test, truth=True):
    """fields X for which `test` having the truth value `truth` guarantees self.X.is_literal
    (conjunctions, all(...) over a display of self fields; negations and disjunctions for the false branch)."""
    out = set()
    if isinstance(test, ast.UnaryOp) and isinstance(test.op, ast.Not):
        return _literal_tests(test.operand, not truth)
    if isinstance(test, ast.BoolOp) and isinstance(test.op, ast.And if truth else ast.Or):
        for v in test.values:
            out |= _literal_tests(v, truth)
        return out
    if not truth:
        return out
    if isinstance(test, ast.Attribute) and test.attr == 'is_literal' and is_self_attr(test.value):
        out.add(test.value.attr)
    elif isinstance(test, ast.Call) and isinstance(test.func, ast.Name) and test.func.id == 'all' and len(test.args) == 1 and isinstance(test.args[0], (ast.GeneratorExp, ast.ListComp)):
        g = test.args[0]
        if len(g.generators) == 1 and not g.generators[0].ifs and isinstance(g.generators[0].target, ast.Name) and isinstance(g.generators[0].iter, (ast.Tuple, ast.List)):
            v = g.generators[0].target.id
            if isinstance(g.elt, ast.Attribute) and g.elt.attr == 'is_literal' and isinstance(g.elt.value, ast.Name) and g.elt.value.id == v:
                for e in g.generators[0].iter.elts:
                    if is_self_attr(e):
                        out.add(e.attr)
    return out


def _leaves(stmts):
    """the block always ends in return / raise / continue / break."""
    return bool(stmts) and isinstance(stmts[-1], (ast.Return, ast.Raise, ast.Continue, ast.Break))


def _guards_of(fn, target):
    """[(test, truth)] known where `target` stands inside fn: enclosing if / else branches and earlier `if T: ... return` exits of the enclosing blocks
    (None when the statement cannot be located)."""
    def rec(stmts, acc):
        acc = list(acc)
        for s in stmts:
            if s is target:
                return acc
            if isinstance(s, ast.If):
                got = rec(s.body, acc + [(s.test, True)])
                if got is not None:
                    return got
                got = rec(s.orelse, acc + [(s.test, False)])
                if got is not None:
                    return got
                if _leaves(s.body) and not s.orelse:
                    acc.append((s.test, False))
                elif s.orelse and _leaves(s.orelse) and not _leaves(s.body):
                    acc.append((s.test, True))
            elif isinstance(s, (ast.For, ast.While, ast.With, ast.Try)):
                for blk in [getattr(s, a, []) for a in ('body', 'orelse', 'finalbody')] + [h.body for h in getattr(s, 'handlers', [])]:
                    got = rec(blk, acc)
                    if got is not None:
                        return got
        return None
    return rec(fn.body, [])


def _pyslice_new_fields(fn):
    """fields of self whose results are the arguments of the emitted PySlice_New(...), in order; None when not found."""
    for n in ast.walk(fn):
        if isinstance(n, ast.BinOp) and isinstance(n.op, ast.Mod) and isinstance(n.left, ast.Constant) and isinstance(n.left.value, str) and 'PySlice_New(' in n.left.value:
            fmt = n.left.value
            args = n.right.elts if isinstance(n.right, ast.Tuple) else [n.right]
            head = fmt[:fmt.index('PySlice_New(')].count('%s')
            inside = fmt[fmt.index('PySlice_New('):]
            inside = inside[:inside.index(')') + 1]
            k = inside.count('%s')
            out = []
            binds = _single_bindings(fn)
            for a in args[head:head + k]:
                hops = 0
                while isinstance(a, ast.Name) and a.id in binds and hops < 4:
                    a, hops = binds[a.id], hops + 1
                fs = _self_field(a)
                out.append(sorted(fs)[0] if len(fs) == 1 else None)
            return out, n.lineno, inside
    return None


def _single_bindings(fn):
    """local name -> the expression it is bound to, for names assigned exactly once in fn (tuple unpacking of a tuple display included)."""
    seen = {}
    for s in ast.walk(fn):
        if isinstance(s, ast.Assign) and len(s.targets) == 1:
            t = s.targets[0]
            if isinstance(t, ast.Name):
                seen.setdefault(t.id, []).append(s.value)
            elif isinstance(t, ast.Tuple) and isinstance(s.value, ast.Tuple) and len(t.elts) == len(s.value.elts):
                for a, b in zip(t.elts, s.value.elts):
                    if isinstance(a, ast.Name):
                        seen.setdefault(a.id, []).append(b)
            elif isinstance(t, ast.Tuple):
                for a in t.elts:
                    if isinstance(a, ast.Name):
                        seen.setdefault(a.id, []).extend([None, None])
        elif isinstance(s, (ast.AugAssign, ast.For)) and isinstance(getattr(s, 'target', None), ast.Name):
            seen.setdefault(s.target.id, []).extend([None, None])
    return {k: v[0] for k, v in seen.items() if len(v) == 1 and v[0] is not None}


def rule_slicelit(ctx, floor=10):
    r = Rule('C15-SLICELIT', 'SliceNode: PySlice_New receives start, stop, step in order; the node is turned into a cached constant only when each of them is a literal; '
             'SliceIndexNode builds its constant slice from its own start and stop with step None', floor=floor)
    ix = ctx.index
    n_gate = 0
    for cls in _slice_class(ix):
        gen = cls.methods.get('generate_result_code')
        if gen is None:
            continue
        got = _pyslice_new_fields(gen)
        if got is None:
            raise AnalysisError('%s.generate_result_code: the PySlice_New(...) format is not found' % cls.name)
        fields, line, text = got
        for i, want in enumerate(FIELDS):
            key = '%s.generate_result_code:PySlice_New:%s' % (cls.name, want)
            r.inst(key, sample='%s argument %d <- self.%s' % (text, i + 1, fields[i] if i < len(fields) else '?'))
            if i >= len(fields) or fields[i] is None:
                if i >= len(fields):
                    r.violate(key, EXN, line, '%s.generate_result_code emits %s with %d arguments; PySlice_New takes (start, stop, step)' % (cls.name, text, len(fields)))
                else:
                    r.info('%s.generate_result_code: argument %d of PySlice_New is not a single field of self (not decided)' % (cls.name, i + 1))
            elif fields[i] != want:
                r.violate(key, EXN, line, '%s.generate_result_code passes the result of self.%s as argument %d of PySlice_New(start, stop, step), where the %s belongs: every slice object '
                          'built from three expressions (x[a:b:c], literal or not) selects other elements than CPython' % (cls.name, fields[i], i + 1, want))
        # the literal gate: every assignment self.is_literal = True in the class
        need = {x for x in fields if x}
        for mname, fn in cls.methods.items():
            for s in ast.walk(fn):
                if isinstance(s, ast.Assign) and any(is_self_attr(t) and t.attr == 'is_literal' for t in s.targets) and not (isinstance(s.value, ast.Constant) and not s.value.value):
                    n_gate += 1
                    guards = _guards_of(fn, s)
                    have = set() if isinstance(s.value, ast.Constant) else _literal_tests(s.value)       # self.is_literal = a.is_literal and b.is_literal and ...
                    for g, truth in (guards or []):
                        have |= _literal_tests(g, truth)
                    for x in sorted(need):
                        key = '%s.%s:is_literal:%s' % (cls.name, mname, x)
                        r.inst(key, sample='%s.%s: is_literal set under a test of self.%s.is_literal' % (cls.name, mname, x))
                        if guards is None:
                            r.info('%s.%s: position of the is_literal assignment not resolved (not decided)' % (cls.name, mname))
                        elif x not in have:
                            r.violate(key, EXN, s.lineno, '%s.%s marks the slice as a literal (a module-level constant built once in the cached-constants section) without testing '
                                      'self.%s.is_literal, but generate_result_code passes the result of self.%s to PySlice_New there: for x[1:7:n] with a run-time %s the constant is built from '
                                      'an expression that is not evaluated in that section (C that does not compile / a slice built before the value exists)' % (cls.name, mname, x, x, x))
    if not n_gate:
        raise AnalysisError('no `self.is_literal = ...` assignment found in the slice node class')
    # SliceIndexNode: the constant slice object of x[a:b]
    sic = ix.cls('ExprNodes', 'SliceIndexNode')
    slice_names = {c.name for c in _slice_class(ix)}
    n_sites = 0
    for mname, fn in sic.methods.items():
        for call in ast.walk(fn):
            if not (isinstance(call, ast.Call) and isinstance(call.func, ast.Name) and call.func.id in slice_names):
                continue
            kw = {k.arg: k.value for k in call.keywords if k.arg}
            if not set(FIELDS) <= set(kw):
                continue
            mentions = {f: _self_field(kw[f]) & {'start', 'stop', 'step'} for f in FIELDS}
            if not (mentions['start'] or mentions['stop']):
                continue        # a slice of constants only (e.g. the full slice `:` of a memoryview axis)
            n_sites += 1
            env = _local_consts(fn)
            for f in FIELDS:
                key = 'SliceIndexNode.%s:%s(%s=)' % (mname, call.func.id, f)
                r.inst(key, sample='SliceIndexNode.%s: %s(... %s=%s)' % (mname, call.func.id, f, node_src(kw[f], 50)))
                if f == 'step':
                    if mentions[f] or not _is_none_node(kw[f], env):
                        r.violate(key, EXN, call.lineno, 'SliceIndexNode.%s builds the slice object for x[a:b] with step=%s; x[a:b] has no step (None)' % (mname, node_src(kw[f], 50)))
                elif mentions[f] != {f}:
                    r.violate(key, EXN, call.lineno, 'SliceIndexNode.%s builds the slice object for x[a:b] with %s=%s, which reads self.%s instead of self.%s: the object handed to '
                              'PyObject_GetItem / SetItem / DelItem describes another slice' % (mname, f, node_src(kw[f], 50), '/'.join(sorted(mentions[f])) or 'nothing of the node', f))
    if n_sites < 2:
        raise AnalysisError('SliceIndexNode: %d slice constructions from start/stop found (expected the buffer-index and the cached-constant site)' % n_sites)
    r.positive_control(_literal_tests(ast.parse('self.start.is_literal and self.stop.is_literal', mode='eval').body) == {'start', 'stop'}, 'a gate that does not test the step')
    return r


def _local_consts(fn):
    """local names bound exactly once to a constructor call: name -> call func name."""
    out, seen = {}, {}
    for s in ast.walk(fn):
        if isinstance(s, ast.Assign) and len(s.targets) == 1 and isinstance(s.targets[0], ast.Name):
            nm = s.targets[0].id
            seen.setdefault(nm, set()).add(s.value.func.id if isinstance(s.value, ast.Call) and isinstance(s.value.func, ast.Name) else '?')
    for nm, v in seen.items():
        if len(v) == 1 and '?' not in v:
            out[nm] = next(iter(v))
    return out


def _is_none_node(e, env):
    if isinstance(e, ast.Call) and isinstance(e.func, ast.Name):
        return e.func.id == 'NoneNode'
    if isinstance(e, ast.Call) and isinstance(e.func, ast.Attribute):
        return e.func.attr == 'NoneNode'
    if isinstance(e, ast.Name):
        return env.get(e.id) == 'NoneNode'
    return False
