"""Rules for C11 — emitted C string literals denote exactly the original bytes.

The escaping functions of Cython/Compiler/StringEncoding.py are table builders over finite domains (one byte, one pair
of bytes, one escape token).  They are folded on their ASTs by the checker's constant folder (sa/rules/pC10.Folder:
only builtins, `re` and methods of builtin value types of the checker's own interpreter are ever called) and the
resulting tables are compared with a reference reading of C string / character literals (C11 5.1.1.2 phases 1, 5, 6 and
6.4.4.4, 6.4.5) written out below.
"""
import ast, itertools, re

from ..core import Rule, AnalysisError, node_src
from ..engine import tables
from ..engine.pyindex import walk_no_nested
from .pC10 import Folder, Unfoldable, ENCODING, CODE

# ---------------------------------------------------------------------------------------------------------
# reference: how a conforming C compiler reads the text between the quotes
# C11 5.2.1.1 trigraphs (translation phase 1), 6.4.4.4 escape sequences, 6.4.5p5 adjacent literals (phase 6,
# i.e. *after* escape sequences were converted in phase 5).
# ---------------------------------------------------------------------------------------------------------
TRIGRAPHS = {'=': '#', '/': '\\', "'": '^', '(': '[', ')': ']', '!': '|', '<': '{', '>': '}', '-': '~'}
SIMPLE = {"'": 39, '"': 34, '?': 63, '\\': 92, 'a': 7, 'b': 8, 'f': 12, 'n': 10, 'r': 13, 't': 9, 'v': 11}
_OCT = '01234567'
_HEX = '0123456789abcdefABCDEF'


class CReadError(ValueError):
    pass


def c_phase1(text):
    out, i = [], 0
    while i < len(text):
        if text.startswith('??', i) and i + 2 < len(text) and text[i + 2] in TRIGRAPHS:
            out.append(TRIGRAPHS[text[i + 2]])
            i += 3
        else:
            out.append(text[i])
            i += 1
    return ''.join(out)


def c_read(text, quote='"', adjacent=True, portable=True):
    """bytes denoted by `quote + text + quote` in C source (adjacent string literals are concatenated)."""
    src = c_phase1(text)
    out, i = bytearray(), 0
    while i < len(src):
        ch = src[i]
        if ch == quote:
            if adjacent and quote == '"':
                j = i + 1
                while j < len(src) and src[j] in ' \t\n':
                    j += 1      # white space between adjacent string literal tokens (C11 5.1.1.2 phase 6/7)
                if j < len(src) and src[j] == '"':
                    i = j + 1   # `""` / `" "`: the literal ends, the next one starts
                    continue
            raise CReadError('unescaped %s at offset %d ends the literal early' % (quote, i))
        if ch == '\n' or (portable and not (32 <= ord(ch) <= 126)):
            raise CReadError('character %r at offset %d is outside the portable source character set' % (ch, i))
        if ch != '\\':
            out.append(ord(ch))
            i += 1
            continue
        i += 1
        if i >= len(src):
            raise CReadError('backslash at the end of the literal escapes the closing quote')
        e = src[i]
        if e in SIMPLE:
            out.append(SIMPLE[e])
            i += 1
        elif e in _OCT:
            j = i
            while j < len(src) and j < i + 3 and src[j] in _OCT:
                j += 1
            v = int(src[i:j], 8)
            if v > 255:
                raise CReadError('octal escape \\%s out of range' % src[i:j])
            out.append(v)
            i = j
        elif e == 'x':
            j = i + 1
            while j < len(src) and src[j] in _HEX:
                j += 1          # a hex escape takes *all* following hex digits
            if j == i + 1:
                raise CReadError('\\x without digits')
            v = int(src[i + 1:j], 16)
            if v > 255:
                raise CReadError('hex escape \\x%s out of range for char' % src[i + 1:j])
            out.append(v)
            i = j
        else:
            raise CReadError('undefined escape sequence \\%s' % e)
    return bytes(out)


def c_read_char(text, portable=True):
    """value of the character constant 'text' (exactly one c-char)."""
    v = c_read(text, quote="'", adjacent=False, portable=portable)
    if len(v) != 1:
        raise CReadError('character constant %r holds %d characters' % (text, len(v)))
    return v[0]


# ---------------------------------------------------------------------------------------------------------
def _folder(ctx):
    return ctx.memo('pC11.folder', lambda: Folder(ctx))


def _escaper(ctx):
    f = _folder(ctx)
    fn = f.function(ENCODING, 'escape_byte_string')
    cache = {}

    def esc(bs):
        if bs not in cache:
            v = fn(bs)
            if not isinstance(v, str):
                raise Unfoldable('escape_byte_string(%r) folds to %r, not to a str' % (bs, v))
            cache[bs] = v
        return cache[bs]
    return esc


_REP = [0, 1, 7, 8, 9, 10, 13, 27, 31, 32, 34, 39, 48, 49, 55, 56, 57, 63, 65, 70, 92, 97, 102, 110, 120, 126, 128, 255]


def adversarial_strings():
    """byte strings around the contexts in which an escape could swallow or combine with its neighbours."""
    out = []
    for a, b in itertools.product(_REP, repeat=2):
        out.append(bytes([a, b]))
    for x in TRIGRAPHS:
        out.append(b'??' + x.encode())
        out.append(b'???' + x.encode())
        out.append(b'a?' + b'?' + x.encode() + b'?')
    for n in range(1, 7):
        out.append(b'?' * n)
        out.append(b'\\' * n)
        out.append(b'\\' * n + b'"')
        out.append(b'\x01' * n + b'1')
    out += [b'\x00' + b'123', b'\x07' + b'7', b'\xff0', b'\x80abcdef', b'\n0', b'"' + b"'" + b'"', b"''", b'\\x41', b'\\101', b'\\n', b'?\\?']
    return out


def rule_escape_table(ctx):
    r = Rule('C11-ESC', 'escape_byte_string: for every byte (with any following digit/letter) and for adversarial byte sequences (quotes, backslash runs, '
             'trigraph leads, digits after escapes) the text produced is read back by a conforming C compiler as exactly those bytes', floor=950)
    esc = _escaper(ctx)
    line = tables.find_function(ctx.parse(ENCODING), 'escape_byte_string').lineno
    follow = ['', '0', '7', '8', '9', 'a', 'f', 'A', 'F', 'x', 'n']
    longest = 0
    seen = set()

    def bad(key, msg):
        if key not in seen:
            seen.add(key)
            r.violate(key, ENCODING, line, msg)

    def cls_of(b):
        return 'control' if b < 32 else '0x7f' if b == 127 else 'high' if b >= 128 else repr(chr(b))

    def run_esc(s, key):
        try:
            return esc(s)
        except AnalysisError:
            raise
        except Exception as x:      # an exception of the reference builtins: the compiler itself would raise here
            bad(key + ':crash', 'escape_byte_string(%r) raises %s: %s' % (s, type(x).__name__, x))
            return None

    for b in range(256):
        cls = 'byte:%s' % cls_of(b)
        r.inst('byte:%d' % b)
        e = run_esc(bytes([b]), cls)
        if e is None:
            continue
        longest = max(longest, len(e))
        if len(r.samples) < 6 and b in (0, 34, 63, 92, 200):
            r.samples.append('byte %d -> %r' % (b, e))
        for fo in follow:
            try:
                got = c_read(e + fo)
            except CReadError as x:
                bad(cls + ':unreadable', 'byte %d is written as %r; followed by %r a C compiler cannot read the literal: %s' % (b, e, fo, x))
                break
            if got != bytes([b]) + fo.encode():
                bad(cls + ':value', 'byte %d is written as %r; when %r follows, a C compiler reads %r instead of %r '
                    '(numeric escapes in string context must be 3-digit octal: shorter ones and \\x swallow following digits)' % (b, e, fo, got, bytes([b]) + fo.encode()))
                break
    for s in adversarial_strings():
        key = 'sequence:%s' % ('trigraph' if b'??' in s else 'backslash' if b'\\' in s else 'quote' if (b'"' in s or b"'" in s) else 'digits-after-escape')
        r.inst('seq:%r' % s)
        e = run_esc(s, key)
        if e is None:
            continue
        if len(r.samples) < 6 and s in (b'??=', b'\x01' + b'1'):
            r.samples.append('%r -> %r' % (s, e))
        try:
            got = c_read(e)
        except CReadError as x:
            bad(key + ':unreadable', 'the bytes %r are written as %r, which a C compiler cannot read: %s' % (s, e, x))
            continue
        if got != s:
            bad(key + ':value', 'the bytes %r are written as %r, which a C compiler reads as %r%s' % (
                s, e, got, ' (trigraph replacement happens before the literal is parsed)' if '??' in e else ''))
    r.info('longest escape of a single byte: %d characters' % longest)
    ok = True
    try:
        ok = c_read('\\1' + '2') == b'\n' and c_read('\\x01' + 'a') == b'\x1a' and c_read('??/' + 'n') == b'\n' and c_read('a""b') == b'ab'
        try:
            c_read('a"b')
            ok = False
        except CReadError:
            pass
    except CReadError:
        ok = False
    r.positive_control(ok, 'reference reader: short octal and hex escapes swallow digits, ??/ is a backslash, a bare quote ends the literal')
    return r, longest


def _token_strings(limit, full=True):
    """escaped texts whose chunk boundaries (multiples of about `limit`) fall into every position of every token shape."""
    toks = ['\\\\', '\\001', '\\n', 'a']
    out = []
    for k in range(0, 8 if full else 0):
        head = 'a' * (limit - 7 + k)
        for seq in itertools.product(toks, repeat=4):
            out.append(head + ''.join(seq) + 'b' * (limit + 3))
    for n in range(1, 3 * limit):
        out.append('\\\\' * n)
        out.append('a' + '\\\\' * n + 'a' * limit)
        out.append('\\\\' * n + '\\001' * 3 + 'a' * limit)
    return out


def rule_split(ctx, longest):
    r = Rule('C11-SPLIT', 'split_string_literal cuts only between escape tokens: every piece of `piece""piece...` is a complete literal and their concatenation '
             'is read back as the unsplit bytes (boundaries placed into every position of \\\\, \\ooo, \\n, \\" and of long backslash runs)', floor=2000)
    f = _folder(ctx)
    fn = f.function(ENCODING, 'split_string_literal')
    fdef = fn.fdef
    line = fdef.lineno
    params = [a.arg for a in fdef.args.args]
    if len(params) < 2:
        raise AnalysisError('split_string_literal no longer takes (s, limit)')
    seen = set()

    def bad(key, msg):
        if key not in seen:
            seen.add(key)
            r.violate(key, ENCODING, line, msg)

    for limit in (16, 17):
        for s in _token_strings(limit, limit == 16):
            r.inst((limit, s))
            f.steps = 0
            try:
                out = fn(s, limit)
            except Unfoldable as x:
                if 'budget' in str(x) or 'loop bound' in str(x):
                    bad('split:termination', 'split_string_literal(%r, limit=%d) does not terminate' % (s, limit))
                    continue
                raise
            except AnalysisError:
                raise
            except Exception as x:
                bad('split:crash', 'split_string_literal(%r, limit=%d) raises %s: %s' % (s, limit, type(x).__name__, x))
                continue
            if not isinstance(out, str):
                raise Unfoldable('split_string_literal folds to %r' % (out,))
            what = 'split_string_literal(%r, limit=%d) -> %r' % (s, limit, out)
            try:
                want = c_read(s, adjacent=False)
            except CReadError as x:
                raise AnalysisError('checker bug: adversarial text %r is not a valid literal body: %s' % (s, x))
            try:
                got = c_read(out)
            except CReadError as x:
                kind = 'backslash-run' if s.replace('\\\\', '') in ('', 'a' * len(s.replace('\\\\', ''))) and '\\\\\\\\' in s else 'token'
                bad('split:%s:unreadable' % kind, '%s: a piece is not a complete C literal (%s) - an escape sequence was cut in two' % (what, x))
                continue
            if got != want:
                bad('split:value', '%s is read as %r instead of %r' % (what, got, want))
                continue
            if out.replace('""', '') != s:
                bad('split:text', '%s changes the text beyond inserting `""`' % what)
    # the window the function looks back over must cover the longest escape the escaper produces
    r.info('longest single-byte escape produced by escape_byte_string: %d characters' % longest)
    if longest > 4:
        r.inst('escape-length')
        bad('split:escape-length', 'escape_byte_string now produces escapes of %d characters; the adversarial family of this rule only places boundaries into tokens of up to 4' % longest)
    ok = False
    try:
        c_read('ab\\0""01')
        ok = c_read('ab\\0""01') != c_read('ab\\001', adjacent=False)
    except CReadError:
        ok = True
    r.positive_control(ok, 'a cut inside \\001 changes or breaks the literal')
    return r


def rule_char_tokens(ctx):
    r = Rule('C11-TOK', "Code._split_characters cuts the escaped text into exactly the escaper's tokens and each token is a valid C character constant "
             "of the same byte (the MSVC >= 64K path writes {'t','t',...})", floor=950)
    esc = _escaper(ctx)
    f = _folder(ctx)
    split = f.module_attr(CODE, '_split_characters')
    if not callable(split):
        raise AnalysisError('Code._split_characters is not a callable any more')
    line = next((n.lineno for n in ctx.parse(CODE).body if isinstance(n, ast.Assign) and any(isinstance(t, ast.Name) and t.id == '_split_characters' for t in n.targets)), 0)
    # it must be what _write_cstring_const uses for the array form
    wfn = tables.find_function(ctx.parse(CODE), '_write_cstring_const')
    if not any(isinstance(n, ast.Call) and isinstance(n.func, ast.Name) and n.func.id == '_split_characters' for n in ast.walk(wfn)):
        raise AnalysisError('_write_cstring_const no longer calls _split_characters')
    seen = set()

    def bad(key, msg):
        if key not in seen:
            seen.add(key)
            r.violate(key, CODE, line, msg)
    cases = [bytes([b]) for b in range(256)] + adversarial_strings()
    for s in cases:
        try:
            e = esc(s)
        except AnalysisError:
            raise
        except Exception:
            r.inst('tok:%r' % s)
            continue                # the escaper itself raises: reported by C11-ESC
        toks = split(e)
        r.inst('tok:%r' % s, sample='%r -> %r -> %r' % (s, e, toks))
        if not isinstance(toks, list) or not all(isinstance(t, str) for t in toks):
            raise Unfoldable('_split_characters(%r) folds to %r' % (e, toks))
        cls = 'tokens:%s' % ('single-quote' if b"'" in s else 'backslash' if b'\\' in s else 'escape' if any(c < 32 or c >= 127 for c in s) else 'plain')
        if ''.join(toks) != e:
            bad(cls + ':lossy', "_split_characters(%r) = %r drops or alters characters of the escaped text" % (e, toks))
            continue
        vals = bytearray()
        try:
            for t in toks:
                vals.append(c_read_char(t, portable=False))      # which raw characters are portable is C11-ESC's business
        except CReadError as x:
            bad(cls + ':unreadable', "bytes %r: escaped text %r is cut into %r; '%s' is not a valid C character constant (%s)" % (s, e, toks, t, x))
            continue
        if bytes(vals) != s:
            bad(cls + ':value', "bytes %r: the character array %r is read as %r" % (s, toks, bytes(vals)))
    ok = False
    try:
        c_read_char("'")
    except CReadError:
        ok = c_read_char('\\047') == 39 and c_read_char('"') == 34
    r.positive_control(ok, "a raw ' is not a character constant, \\047 and \" are")
    return r


def rule_escape_char(ctx):
    r = Rule('C11-CHR', "escape_char: for every byte value the text written between single quotes is a valid C character constant of that value (' and \\ quoted)", floor=220)
    f = _folder(ctx)
    fn = f.function(ENCODING, 'escape_char')
    line = fn.fdef.lineno
    done = set()
    for b in range(256):
        key = 'char:%s' % ('control' if b < 32 else 'high' if b >= 127 else repr(chr(b)))
        if key in done:
            r.inst('char:%d' % b)
            continue
        try:
            e = fn(bytes([b]))
        except AnalysisError:
            raise
        except Exception as x:
            r.inst('char:%d' % b)
            done.add(key)
            r.violate(key, ENCODING, line, 'escape_char(%r) raises %s: %s' % (bytes([b]), type(x).__name__, x))
            continue
        r.inst('char:%d' % b, sample='%r -> %r' % (bytes([b]), e))
        if not isinstance(e, str):
            raise Unfoldable('escape_char folds to %r' % (e,))
        try:
            v = c_read_char(e)
        except CReadError as x:
            done.add(key)
            r.violate(key, ENCODING, line, "escape_char(%r) = %r: '%s' is not a valid C character constant (%s)" % (bytes([b]), e, e, x))
            continue
        if v != b:
            done.add(key)
            r.violate(key, ENCODING, line, "escape_char(%r) = %r, which C reads as %d" % (bytes([b]), e, v))
    ok = False
    try:
        c_read_char('\\')
    except CReadError:
        ok = c_read_char('\\x0A') == 10
    r.positive_control(ok, 'a lone backslash is not a character constant')
    # every user of the result puts it between single quotes
    return r


def rule_raw_literals(ctx):
    """split_string_literal / _write_cstring_const are token based: what they are given must come from the escaper, or be
    built from constants that are complete, suffix-safe escape tokens."""
    r = Rule('C11-SRC', 'texts handed to split_string_literal come from escape_byte_string, or are joined from constant separators that are complete '
             'C escapes which no following digit or letter can extend', floor=3)
    import os
    ix_files = []
    for fnm in sorted(os.listdir(ctx.path('Cython/Compiler'))):
        if fnm.endswith('.py') and 'split_string_literal' in ctx.read('Cython/Compiler/' + fnm):
            ix_files.append('Cython/Compiler/' + fnm)
    safe_follow = '0123456789abcdefghijklmnopqrstuvwxyzABCDEFGHIJKLMNOPQRSTUVWXYZ'

    def from_escaper(e, fn, depth=0):
        if isinstance(e, ast.Call):
            nm = e.func.attr if isinstance(e.func, ast.Attribute) else (e.func.id if isinstance(e.func, ast.Name) else None)
            if nm == 'escape_byte_string':
                return True
        if isinstance(e, ast.Name) and depth < 3:
            defs = [n for n in ast.walk(fn) if isinstance(n, (ast.Assign, ast.AnnAssign)) and
                    any(isinstance(t, ast.Name) and t.id == e.id for t in (n.targets if isinstance(n, ast.Assign) else [n.target]))]
            if defs and all(d.value is not None and from_escaper(d.value, fn, depth + 1) for d in defs):
                return True
            if not defs and e.id in [a.arg for a in fn.args.args]:
                return None      # a parameter: judged at the callers
        return False

    def check_consts(expr, fn, key, rel):
        e = expr
        if isinstance(e, ast.Name):
            defs = [n.value for n in ast.walk(fn) if isinstance(n, ast.Assign) and any(isinstance(t, ast.Name) and t.id == e.id for t in n.targets)]
            if len(defs) != 1:
                return False
            e = defs[0]
        consts = [c.value for c in ast.walk(e) if isinstance(c, ast.Constant) and isinstance(c.value, (str, bytes)) and
                  (('\\' in c.value) if isinstance(c.value, str) else (b'\\' in c.value))]
        if not consts:
            return False
        for k in consts:
            t = k.decode('latin-1') if isinstance(k, bytes) else k
            try:
                base = c_read(t, adjacent=False)
                for ch in safe_follow:
                    if c_read(t + ch, adjacent=False) != base + ch.encode():
                        r.violate(key, rel, expr.lineno, 'the constant %r is joined into a C string literal; followed by %r a C compiler reads %r instead of %r '
                                  '(use a 3-digit octal escape)' % (k, ch, c_read(t + ch, adjacent=False), base + ch.encode()))
                        return True
            except CReadError as x:
                r.violate(key, rel, expr.lineno, 'the constant %r is joined into a C string literal but is not a complete C escape: %s' % (k, x))
                return True
        return True

    for rel in ix_files:
        tree = ctx.parse(rel)
        funcs = [n for n in ast.walk(tree) if isinstance(n, (ast.FunctionDef, ast.AsyncFunctionDef))]
        for fn in funcs:
            for n in walk_no_nested(fn):
                if not (isinstance(n, ast.Call) and ((isinstance(n.func, ast.Attribute) and n.func.attr == 'split_string_literal') or
                                                     (isinstance(n.func, ast.Name) and n.func.id == 'split_string_literal')) and n.args):
                    continue
                key = 'split-arg:%s.%s' % (rel.rsplit('/', 1)[1][:-3], fn.name)
                src = from_escaper(n.args[0], fn)
                r.inst(key, sample='%s: split_string_literal(%s) %s' % (key, node_src(n.args[0], 40), 'from escape_byte_string' if src else ('parameter' if src is None else 'other source')))
                if src is False:
                    if not check_consts(n.args[0], fn, key, rel):
                        r.violate(key, rel, n.lineno, 'split_string_literal(%s): the text does not come from escape_byte_string and no constant escape separators were recognised; '
                                  'splitting assumes the token shapes of the escaper' % node_src(n.args[0], 60))
    pr = Rule('pc', 'pc')
    r2, r = r, pr
    fn = ast.parse("def f(w, xs):\n    c_string = b'\\\\0'.join(xs).decode('ascii')\n    w.putln(split_string_literal(c_string))\n").body[0]
    hit = check_consts(fn.body[1].value.args[0].args[0], fn, 'pc', 'pc') and bool(pr.findings)
    r = r2
    r.positive_control(hit, 'separator \\0 followed by a digit')
    return r
